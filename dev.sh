#!/bin/sh
# development helper: run a check against the scratch worktree /tmp/wt-dev (build dir /verif/build3), evidence to build3/ev
# usage: dev.sh [-p seeded-name] CHECK [args]
if [ "$1" = "-p" ]; then git -C /tmp/wt-dev apply /verif/seeded/$2/patch.diff || exit 9; shift 2; P=1; fi
VERIF_EVIDENCE_DIR=/verif/build3/ev VERIF_REPLAY_DIR=/verif/build3/replays VERIF_REPO=/tmp/wt-dev VERIF_BUILD=/verif/build3 /verif/check "$@"
rc=$?
[ -n "$P" ] && git -C /tmp/wt-dev checkout -- .
exit $rc
