#!/bin/sh
# Rebuild /repo/_build with the verification guard OFF (plain cmake flags) and run the pinned suite.
# -k 0: the pinned Ninja build cannot link libzwerg.so/dwgrep (libzwerg.map is not copied); the
# test binaries link the objects directly and are unaffected.
cmake --build /repo/_build -- -k 0 >/dev/null 2>&1
ctest --test-dir /repo/_build -j8 --timeout 900 "$@"
