#!/usr/bin/env python3
"""Incremental instrumented build of /repo's *current working tree* into /verif/build.

Usage:  build.py [all|drv|cli|clip|hint|hcov|fuzz] ...   (clip: the command line tool without sanitizers)

Every object is keyed by a hash over (compiler flags, the source, every file the
compiler reported reading via -MD), so an edit of /repo rebuilds exactly what it
touches; with no edit the call returns in well under a second.  Serialised with
flock so concurrent checks do not race.  Nothing is kept under /tmp.
"""
import os, sys, subprocess, hashlib, json, fcntl, time, shutil
from concurrent.futures import ThreadPoolExecutor

REPO = os.environ.get("VERIF_REPO", "/repo")
VERIF = os.path.dirname(os.path.abspath(__file__))
B = os.environ.get("VERIF_BUILD", os.path.join(VERIF, "build"))
GEN = os.path.join(B, "gen")
LZ = os.path.join(REPO, "libzwerg")
GUARD = "DWGREP_VERIF"

CORE = """bindings build builtin-closure builtin-cmp builtin-cst builtin-shf builtin
constant docstring init int layout libzwerg op overload pred_result scon selector
stack strip tree tree_cr value-closure value-cst value-seq value-str value""".split()
DW = """atval cache coverage dwcst dwfl_context dwit dwmods libzwerg-dw value-aset
builtin-aset value-dw builtin-dw builtin-dw-abbrev builtin-dw-voc value-symbol
builtin-symbol""".split()

CXX = "clang++"
COMMON = ["-std=c++14", "-g", "-O1", "-fPIC", "-Wno-deprecated-declarations",
          "-D" + GUARD, "-I" + LZ, "-I" + GEN, "-I" + REPO]
SAN = ["-fsanitize=address,undefined", "-fno-sanitize-recover=undefined",
       "-fno-omit-frame-pointer"]
FLAVOURS = {
    "asan": COMMON + SAN,
    "fuzz": COMMON + SAN + ["-fsanitize=fuzzer-no-link"],
    # as the project's own RelWithDebInfo build: no sanitizers, no hooks, asserts off.  Used where the
    # question is whether the *production* build survives (C stack consumption of deep recursion: the
    # sanitizer's larger frames would overflow several times earlier and raise false alarms).
    "plain": ["-std=c++14", "-g", "-O2", "-fPIC", "-DNDEBUG", "-Wno-deprecated-declarations", "-I" + LZ, "-I" + GEN, "-I" + REPO],
}
PLAIN_CXX = "g++"
LIBS = ["-ldw", "-lelf"]


def sh(cmd, **kw):
    r = subprocess.run(cmd, stdout=subprocess.PIPE, stderr=subprocess.STDOUT, **kw)
    if r.returncode != 0:
        sys.stderr.write("BUILD FAILED: %s\n%s\n" % (" ".join(cmd), r.stdout.decode(errors="replace")))
        raise SystemExit(3)
    return r.stdout


def fhash(path):
    h = hashlib.sha256()
    with open(path, "rb") as f:
        h.update(f.read())
    return h.hexdigest()


_hcache = {}


def chash(path):
    if path not in _hcache:
        try:
            _hcache[path] = fhash(path)
        except OSError:
            _hcache[path] = "missing"
    return _hcache[path]


def stamp_ok(stamp, inputs, extra):
    try:
        with open(stamp) as f:
            s = json.load(f)
    except (OSError, ValueError):
        return False
    if s.get("extra") != extra:
        return False
    deps = s.get("deps", {})
    if not deps:
        return False
    for p in inputs:
        if p not in deps:
            return False
    for p, h in deps.items():
        if chash(p) != h:
            return False
    return True


def write_stamp(stamp, deps, extra):
    with open(stamp + ".tmp", "w") as f:
        json.dump({"extra": extra, "deps": {p: chash(p) for p in deps}}, f)
    os.replace(stamp + ".tmp", stamp)


def gen_sources():
    os.makedirs(GEN, exist_ok=True)
    # version.h
    vc = open(os.path.join(REPO, "VERSION.cmake")).read()
    import re
    major = re.search(r'DWGREP_MAJOR\s+"(\d+)"', vc).group(1)
    minor = re.search(r'DWGREP_MINOR\s+"(\d+)"', vc).group(1)
    vh = open(os.path.join(REPO, "version.h.in")).read().replace("@DWGREP_MAJOR@", major).replace("@DWGREP_MINOR@", minor)
    write_if_changed(os.path.join(GEN, "version.h"), vh.encode())
    # known-dwarf.h / known-elf.h
    for awk, hdr, out in (("known-dwarf.awk", "/usr/include/dwarf.h", "known-dwarf.h"),
                          ("known-elf.awk", "/usr/include/elf.h", "known-elf.h")):
        awkp = os.path.join(REPO, awk)
        outp = os.path.join(GEN, out)
        st = outp + ".stamp"
        if not (os.path.exists(outp) and stamp_ok(st, [awkp, hdr], "awk")):
            data = sh(["gawk", "-f", awkp, hdr])
            write_if_changed(outp, data)
            write_stamp(st, [awkp, hdr], "awk")
    # lexer / parser
    ll = os.path.join(LZ, "lexer.ll")
    yy = os.path.join(LZ, "parser.yy")
    st = os.path.join(GEN, "lexer.stamp")
    if not (os.path.exists(os.path.join(GEN, "lexer.cc")) and stamp_ok(st, [ll], "flex")):
        tmp = os.path.join(GEN, "tmp-lex")
        os.makedirs(tmp, exist_ok=True)
        sh(["flex", "--header-file=" + os.path.join(tmp, "lexer.hh"), "-o", os.path.join(tmp, "lexer.cc"), ll])
        for f in ("lexer.hh", "lexer.cc"):
            write_if_changed(os.path.join(GEN, f), open(os.path.join(tmp, f), "rb").read())
        shutil.rmtree(tmp)
        write_stamp(st, [ll], "flex")
    st = os.path.join(GEN, "parser.stamp")
    if not (os.path.exists(os.path.join(GEN, "parser.cc")) and stamp_ok(st, [yy], "bison")):
        tmp = os.path.join(GEN, "tmp-yy")
        os.makedirs(tmp, exist_ok=True)
        sh(["bison", "--defines=" + os.path.join(tmp, "parser.hh"), "-o", os.path.join(tmp, "parser.cc"), yy])
        for f in ("parser.hh", "parser.cc"):
            write_if_changed(os.path.join(GEN, f), open(os.path.join(tmp, f), "rb").read())
        shutil.rmtree(tmp)
        write_stamp(st, [yy], "bison")


def write_if_changed(path, data):
    try:
        if open(path, "rb").read() == data:
            return
    except OSError:
        pass
    with open(path, "wb") as f:
        f.write(data)
    _hcache.pop(path, None)


def parse_d(path):
    try:
        txt = open(path).read()
    except OSError:
        return []
    txt = txt.replace("\\\n", " ")
    _, _, rest = txt.partition(":")
    return [p for p in rest.split() if p]


def compile_one(src, obj, flags, cxx=CXX):
    stamp = obj + ".stamp"
    d = obj + ".d"
    extra = cxx + " " + " ".join(flags)
    if os.path.exists(obj) and stamp_ok(stamp, [src], extra):
        return False
    os.makedirs(os.path.dirname(obj), exist_ok=True)
    sh([cxx] + flags + ["-MD", "-MF", d, "-c", src, "-o", obj])
    deps = [p for p in parse_d(d) if not p.startswith("/usr/")]
    if src not in deps:
        deps.append(src)
    write_stamp(stamp, deps, extra)
    return True


def lib_sources():
    srcs = [os.path.join(LZ, n + ".cc") for n in CORE + DW]
    srcs += [os.path.join(GEN, "lexer.cc"), os.path.join(GEN, "parser.cc")]
    return srcs


def build_objs(flavour, pool, cxx=CXX):
    flags = FLAVOURS[flavour]
    od = os.path.join(B, "obj", flavour)
    jobs = []
    objs = []
    for s in lib_sources():
        o = os.path.join(od, os.path.basename(s)[:-3] + ".o")
        objs.append(o)
        jobs.append(pool.submit(compile_one, s, o, flags, cxx))
    return objs, jobs


def link(out, objs, flags, libs, cxx=CXX, cflags=None):
    stamp = out + ".stamp"
    extra = cxx + " " + " ".join(flags + libs)
    if os.path.exists(out) and stamp_ok(stamp, objs, extra):
        return
    cmd = [cxx] + flags + objs + ["-o", out + ".tmp"] + libs
    r = subprocess.run(cmd, stdout=subprocess.PIPE, stderr=subprocess.STDOUT)
    if r.returncode != 0:
        shim = odr_shim(r.stdout.decode(errors="replace"), out, cflags or flags, cxx)
        if shim is None:
            sys.stderr.write("BUILD FAILED: %s\n%s\n" % (" ".join(cmd), r.stdout.decode(errors="replace")))
            raise SystemExit(3)
        sh([cxx] + flags + objs + [shim, "-o", out + ".tmp"] + libs)
    os.replace(out + ".tmp", out)
    write_stamp(stamp, objs, extra)


def odr_shim(output, out, cflags, cxx):
    """The project is built with g++ -O2, which folds every use of a `static T const m = value;` class member
    into the value, so a change may bind a reference to such a member (an odr-use, which strictly needs an
    out-of-line definition the sources do not have) and still build there.  clang keeps the reference and the
    link of the instrumented flavours fails.  Only then: supply exactly the missing definitions
    (`T const C::m;`, the value stays the in-class initialiser) in a generated translation unit.  Returns the
    object file, or None when the link failure is about anything else."""
    import re, glob
    syms = sorted(set(re.findall(r"undefined reference to `([A-Za-z_][\w:]*::\w+)'", output)))
    others = [l for l in output.splitlines() if "undefined reference" in l and not re.search(r"undefined reference to `([A-Za-z_][\w:]*::\w+)'", l)]
    if not syms or others:
        return None
    hdrs = sorted(glob.glob(os.path.join(LZ, "*.hh")) + glob.glob(os.path.join(LZ, "*.h")))
    incs, defs_a, defs_b = [], [], []
    for sym in syms:
        cls, mem = sym.rsplit("::", 1)
        found = None
        for h in hdrs:
            txt = open(h, errors="replace").read()
            if not re.search(r"\b(class|struct)\s+%s\b" % re.escape(cls.split("::")[-1]), txt):
                continue
            m = re.search(r"\bstatic\s+(constexpr\s+)?([^;(){}=]*?)\b%s\s*(=|\{)" % re.escape(mem), txt)
            if m:
                found = (h, " ".join(m.group(2).split()), bool(m.group(1)))
                break
        if found is None:
            return None
        h, typ, cexpr = found
        if h not in incs:
            incs.append(h)
        defs_a.append("decltype (%s) %s;" % (sym, sym))
        defs_b.append("%s%s %s;" % ("constexpr " if cexpr else "", typ, sym))
    src = out + ".odr-shim.cc"
    obj = out + ".odr-shim.o"
    for defs in (defs_a, defs_b):
        with open(src, "w") as f:
            f.write("// generated by build.py: definitions of odr-used in-class-initialised static members\n")
            f.write("".join('#include "%s"\n' % h for h in incs) + "\n".join(defs) + "\n")
        r = subprocess.run([cxx] + cflags + ["-c", src, "-o", obj], stdout=subprocess.PIPE, stderr=subprocess.STDOUT)
        if r.returncode == 0:
            sys.stderr.write("build: supplied missing definitions of %s\n" % ", ".join(syms))
            return obj
    return None


def main(argv):
    want = set(argv) or {"all"}
    if "all" in want:
        want = {"drv", "cli", "clip", "hint", "hcov", "fuzz"}
    os.makedirs(B, exist_ok=True)
    lock = open(os.path.join(B, ".lock"), "w")
    fcntl.flock(lock, fcntl.LOCK_EX)
    t0 = time.time()
    gen_sources()
    bindir = os.path.join(B, "bin")
    os.makedirs(bindir, exist_ok=True)
    with ThreadPoolExecutor(max_workers=int(os.environ.get("VERIF_JOBS", "16"))) as pool:
        jobs = []
        asan_objs = fuzz_objs = None
        extra = {}
        if want & {"drv", "cli"}:
            asan_objs, j = build_objs("asan", pool)
            jobs += j
        if "fuzz" in want:
            fuzz_objs, j = build_objs("fuzz", pool)
            jobs += j
        plain_objs = None
        if "clip" in want:
            plain_objs, j = build_objs("plain", pool, PLAIN_CXX)
            jobs += j

        def cc(name, src, flags, cxx=CXX):
            o = os.path.join(B, "obj", "x", name + ".o")
            extra[name] = o
            jobs.append(pool.submit(compile_one, src, o, flags, cxx))

        if "drv" in want:
            cc("zwdrv", os.path.join(VERIF, "drv", "zwdrv.cc"), FLAVOURS["asan"])
        if "cli" in want:
            cc("dwgrep", os.path.join(REPO, "dwgrep", "dwgrep.cc"), FLAVOURS["asan"])
            cc("options", os.path.join(REPO, "dwgrep", "options.cc"), FLAVOURS["asan"])
        if "clip" in want:
            cc("dwgrep-plain", os.path.join(REPO, "dwgrep", "dwgrep.cc"), FLAVOURS["plain"], PLAIN_CXX)
            cc("options-plain", os.path.join(REPO, "dwgrep", "options.cc"), FLAVOURS["plain"], PLAIN_CXX)
        if "fuzz" in want:
            cc("fuzz_query", os.path.join(VERIF, "drv", "fuzz_query.cc"), FLAVOURS["fuzz"])
        if "hint" in want:
            cc("h_int", os.path.join(VERIF, "drv", "h_int.cc"), FLAVOURS["asan"])
            cc("int_only", os.path.join(LZ, "int.cc"), FLAVOURS["asan"])
        if "hcov" in want:
            cc("h_cov", os.path.join(VERIF, "drv", "h_cov.cc"), FLAVOURS["asan"])
            cc("cov_only", os.path.join(LZ, "coverage.cc"), FLAVOURS["asan"])
        for j in jobs:
            j.result()
    if "drv" in want:
        link(os.path.join(bindir, "zwdrv"), [extra["zwdrv"]] + asan_objs, SAN, LIBS, cflags=FLAVOURS["asan"])
    if "cli" in want:
        link(os.path.join(bindir, "dwgrep"), [extra["dwgrep"], extra["options"]] + asan_objs, SAN, LIBS, cflags=FLAVOURS["asan"])
    if "clip" in want:
        link(os.path.join(bindir, "dwgrep-plain"), [extra["dwgrep-plain"], extra["options-plain"]] + plain_objs, [], LIBS, PLAIN_CXX, cflags=FLAVOURS["plain"])
    if "fuzz" in want:
        link(os.path.join(bindir, "fuzz_query"), [extra["fuzz_query"]] + fuzz_objs, SAN + ["-fsanitize=fuzzer"], LIBS, cflags=FLAVOURS["fuzz"])
    if "hint" in want:
        link(os.path.join(bindir, "h_int"), [extra["h_int"], extra["int_only"]], SAN, ["-lrapidcheck"], cflags=FLAVOURS["asan"])
    if "hcov" in want:
        link(os.path.join(bindir, "h_cov"), [extra["h_cov"], extra["cov_only"]], SAN, ["-lrapidcheck"], cflags=FLAVOURS["asan"])
    sys.stderr.write("build ok (%s) in %.1fs\n" % (",".join(sorted(want)), time.time() - t0))
    fcntl.flock(lock, fcntl.LOCK_UN)


if __name__ == "__main__":
    main(sys.argv[1:])
