// fuzz_query -- libFuzzer target for C13/C14.
//
// Input layout (FuzzedDataProvider: integrals from the end, bytes from the front):
//   last bytes: mode, max pulls; the rest is the query text.
// For every input:
//   * zw_query_parse_len on an exact-size heap copy (ASan sees any over-read);
//     contract: non-NULL, or NULL with an error object holding a non-empty message;
//   * if it compiled: execute on an empty stack / on a stack holding a small DWARF value
//     (raw or cooked), pull up to `pulls` results under a step budget, render every yielded
//     value, abandon the result set, destroy everything;
//     contract: zw_result_next false <=> error object set (non-empty message).
// Memory errors, UB, assert/abort, scon-hook aborts and leaks are found by the sanitizers.

#include <cassert>
#include <cstdint>
#include <cstdio>
#include <cstdlib>
#include <cstring>
#include <sstream>
#include <string>

#include <fuzzer/FuzzedDataProvider.h>

#include "libzwerg.h"
#include "libzwerg-dw.h"
#include "value.hh"
#include "scon.hh"

#ifndef DWGREP_VERIF
# error "needs -DDWGREP_VERIF"
#endif

static zw_vocabulary *g_voc;
static zw_value *g_dw_cooked;
static zw_value *g_dw_raw;

static void
contract (bool ok, char const *what)
{
  if (! ok)
    {
      fprintf (stderr, "CONTRACT VIOLATION: %s\n", what);
      fflush (stderr);
      __builtin_trap ();
    }
}

extern "C" int
LLVMFuzzerInitialize (int *argc, char ***argv)
{
  zw_error *err = nullptr;
  g_voc = zw_vocabulary_init (&err);
  assert (g_voc != nullptr);
  bool ok = zw_vocabulary_add (g_voc, zw_vocabulary_core (&err), &err);
  assert (ok);
  ok = zw_vocabulary_add (g_voc, zw_vocabulary_dwarf (&err), &err);
  assert (ok);
  (void) ok;

  if (char const *path = getenv ("ZW_FUZZ_DW"))
    {
      g_dw_cooked = zw_value_init_dwarf (path, 0, &err);
      g_dw_raw = zw_value_init_dwarf_raw (path, 0, &err);
      if (g_dw_cooked == nullptr || g_dw_raw == nullptr)
	{
	  fprintf (stderr, "fuzz_query: cannot open %s\n", path);
	  exit (3);
	}
    }
  return 0;
}

static zw_error *const POISON = (zw_error *) (uintptr_t) 0x5a5a5a5a;

extern "C" int
LLVMFuzzerTestOneInput (const uint8_t *data, size_t size)
{
  FuzzedDataProvider fdp (data, size);
  unsigned mode = fdp.ConsumeIntegralInRange <unsigned> (0, 5);
  unsigned pulls = fdp.ConsumeIntegralInRange <unsigned> (0, 40);
  std::string text = fdp.ConsumeRemainingBytesAsString ();

  char *buf = (char *) malloc (text.size () ? text.size () : 1);
  memcpy (buf, text.data (), text.size ());
  zw_error *err = POISON;
  zw_query *q = zw_query_parse_len (g_voc, buf, text.size (), &err);
  free (buf);

  if (q == nullptr)
    {
      contract (err != POISON && err != nullptr, "NULL query but no error object");
      char const *m = zw_error_message (err);
      contract (m != nullptr && m[0] != 0, "empty error message from parse");
      zw_error_destroy (err);
      return 0;
    }
  contract (err == POISON, "query returned and error object set");

  zw_stack *stk = zw_stack_init (&err);
  assert (stk != nullptr);
  zw_value *dw = (mode == 1 || mode == 3) ? g_dw_cooked : (mode == 2 || mode == 4) ? g_dw_raw : nullptr;
  if (dw != nullptr)
    {
      bool ok = zw_stack_push (stk, dw, &err);
      assert (ok);
      (void) ok;
    }

  dwgrep_verif::set_step_limit (4000);
  err = POISON;
  zw_result *r = zw_query_execute (q, stk, &err);
  if (r == nullptr)
    {
      contract (err != POISON && err != nullptr, "NULL result but no error object");
      zw_error_destroy (err);
    }
  else
    {
      for (unsigned i = 0; i < pulls; ++i)
	{
	  zw_stack *out = (zw_stack *) (uintptr_t) 0x5a5a5a5a;
	  err = POISON;
	  dwgrep_verif::set_step_limit (4000);
	  if (! zw_result_next (r, &out, &err))
	    {
	      contract (err != POISON && err != nullptr, "zw_result_next false but no error object");
	      char const *m = zw_error_message (err);
	      contract (m != nullptr && m[0] != 0, "empty error message from zw_result_next");
	      zw_error_destroy (err);
	      break;
	    }
	  contract (err == POISON, "zw_result_next true and error object set");
	  if (out == nullptr)
	    break;
	  // Render what was yielded (value::show is what "%s" and the CLI rely on).
	  size_t n = zw_stack_depth (out);
	  size_t budget = 1 << 16;
	  for (size_t k = 0; k < n && budget > 0; ++k)
	    {
	      try
		{
		  std::stringstream ss;
		  zw_value const *v = zw_stack_at (out, k);
		  if (! (zw_value_is_seq (v) && zw_value_seq_length (v) > 4096)
		      && ! (zw_value_is_str (v)))
		    v->show (ss);
		  budget -= std::min (budget, (size_t) ss.tellp () + 1);
		}
	      catch (std::exception const &)
		{}
	    }
	  zw_stack_destroy (out);
	}
      zw_result_destroy (r);	// abandoned mid-way unless exhausted
    }
  dwgrep_verif::set_step_limit (0);
  zw_stack_destroy (stk);
  zw_query_destroy (q);
  return 0;
}
