// h_cov -- C16 harness: libzwerg/coverage.cc against a bitmap model.
//
//   h_cov bfs <N> <base>   exhaustive: every subset of N addresses starting at <base>, every
//                          add/remove/is_covered/is_overlap/intersect (start,len) inside the
//                          universe, + - == over all pairs of states (N <= 7), invariant
//   h_cov random <N>       rapidcheck histories over a pool of 64-bit points (seed: RC_PARAMS)

#include <cassert>
#include <cinttypes>
#include <cstdint>
#include <cstdio>
#include <cstdlib>
#include <cstring>
#include <sstream>
#include <string>
#include <vector>
#include <algorithm>

#include <rapidcheck.h>

#include "coverage.hh"

static unsigned long g_evals, g_nontriv, g_bad;
static std::vector <std::string> g_samples;

static void
viol (std::string const &s)
{
  if (g_bad < 25)
    printf ("VIOL %s\n", s.c_str ());
  ++g_bad;
}

static std::string
show (coverage const &c)
{
  std::stringstream ss;
  ss << "{";
  for (size_t i = 0; i < c.size (); ++i)
    ss << (i ? "," : "") << "[" << c.at (i).start << "+" << c.at (i).length << ")";
  ss << "}";
  return ss.str ();
}

// Representation invariant: sorted, disjoint, non-adjacent, non-empty runs.
static bool
canonical (coverage const &c)
{
  for (size_t i = 0; i < c.size (); ++i)
    {
      if (c.at (i).length == 0)
	return false;
      if (c.at (i).start + c.at (i).length < c.at (i).start)
	return false;
      if (i > 0 && c.at (i - 1).start + c.at (i - 1).length >= c.at (i).start)
	return false;
    }
  return true;
}

// ---- small universe: bitmap over N addresses at BASE ----------------------

static unsigned
to_bits (coverage const &c, uint64_t base, int N, bool *outside)
{
  unsigned b = 0;
  *outside = false;
  for (size_t i = 0; i < c.size (); ++i)
    for (uint64_t k = 0; k < c.at (i).length; ++k)
      {
	uint64_t a = c.at (i).start + k;
	if (a < base || a - base >= (uint64_t) N)
	  {
	    *outside = true;
	    return b;
	  }
	b |= 1u << (a - base);
      }
  return b;
}

static coverage
from_bits (unsigned bits, uint64_t base, int N)
{
  coverage c;
  for (int i = 0; i < N; ++i)
    if (bits & (1u << i))
      c.add (base + i, 1);
  return c;
}

static unsigned
mask (int s, int l)
{
  return l == 0 ? 0 : ((1u << l) - 1) << s;
}

static int
do_bfs (int N, uint64_t base)
{
  unsigned S = 1u << N;
  // Every state is built two ways: address by address, and run by run; both must give the
  // same canonical representation.
  std::vector <coverage> st (S);
  for (unsigned b = 0; b < S; ++b)
    {
      st[b] = from_bits (b, base, N);
      coverage alt;
      for (int i = N - 1; i >= 0; --i)	// descending order this time
	if (b & (1u << i))
	  alt.add (base + i, 1);
      ++g_evals;
      if (! canonical (st[b]) || ! (st[b] == alt))
	viol ("state " + std::to_string (b) + " built two ways: " + show (st[b]) + " vs " + show (alt));
      bool out;
      if (to_bits (st[b], base, N, &out) != b || out)
	viol ("state " + std::to_string (b) + " does not denote its set: " + show (st[b]));
    }

  for (unsigned b = 0; b < S; ++b)
    for (int s = 0; s < N; ++s)
      for (int l = 0; s + l <= N; ++l)
	{
	  unsigned m = mask (s, l);
	  bool out;
	  // Non-trivial: merges >= 2 runs, splits one, or touches an adjacent boundary.
	  bool touches = l > 0 && (((s > 0) && (b & (1u << (s - 1))))
				   || ((s + l < N) && (b & (1u << (s + l)))));
	  bool nt = l > 0 && (touches || ((b & m) != 0 && (b & m) != m));
	  // add
	  {
	    coverage c = st[b];
	    c.add (base + s, l);
	    ++g_evals;
	    if (nt) ++g_nontriv;
	    unsigned got = to_bits (c, base, N, &out);
	    if (out || got != (b | m) || ! canonical (c) || ! (c == st[b | m]))
	      viol ("add " + show (st[b]) + " (" + std::to_string (s) + "+" + std::to_string (l)
		    + ") = " + show (c) + " expected " + show (st[b | m]));
	    else if (nt && g_samples.size () < 6 && (g_evals % 7919) == 3)
	      g_samples.push_back ("add " + show (st[b]) + " " + std::to_string (base + s) + "+" + std::to_string (l) + " = " + show (c));
	  }
	  // remove
	  {
	    coverage c = st[b];
	    bool r = c.remove (base + s, l);
	    ++g_evals;
	    if (nt) ++g_nontriv;
	    unsigned got = to_bits (c, base, N, &out);
	    if (out || got != (b & ~m) || ! canonical (c) || ! (c == st[b & ~m]))
	      viol ("remove " + show (st[b]) + " (" + std::to_string (s) + "+" + std::to_string (l)
		    + ") = " + show (c) + " expected " + show (st[b & ~m]));
	    if (r != ((b & m) != 0))
	      viol ("remove " + show (st[b]) + " (" + std::to_string (s) + "+" + std::to_string (l)
		    + ") returned " + (r ? "true" : "false"));
	  }
	  if (l == 0)
	    continue;
	  // queries
	  ++g_evals;
	  if (st[b].is_covered (base + s, l) != ((b & m) == m))
	    viol ("is_covered " + show (st[b]) + " (" + std::to_string (s) + "+" + std::to_string (l) + ")");
	  ++g_evals;
	  if (st[b].is_overlap (base + s, l) != ((b & m) != 0))
	    viol ("is_overlap " + show (st[b]) + " (" + std::to_string (s) + "+" + std::to_string (l) + ")");
	  {
	    coverage c = st[b].intersect (base + s, l);
	    ++g_evals;
	    if (nt) ++g_nontriv;
	    unsigned got = to_bits (c, base, N, &out);
	    if (out || got != (b & m) || ! canonical (c) || ! (c == st[b & m]))
	      viol ("intersect " + show (st[b]) + " (" + std::to_string (s) + "+" + std::to_string (l)
		    + ") = " + show (c) + " expected " + show (st[b & m]));
	  }
	}

  // Binary operations over all pairs of states.
  if (N <= 8)
    for (unsigned a = 0; a < S; ++a)
      for (unsigned b = 0; b < S; ++b)
	{
	  g_evals += 3;
	  if ((a & b) != 0 && a != b)
	    ++g_nontriv;
	  coverage u = st[a] + st[b];
	  coverage d = st[a] - st[b];
	  if (! (u == st[a | b]) || ! canonical (u))
	    viol ("union " + show (st[a]) + " + " + show (st[b]) + " = " + show (u));
	  if (! (d == st[a & ~b]) || ! canonical (d))
	    viol ("difference " + show (st[a]) + " - " + show (st[b]) + " = " + show (d));
	  if ((st[a] == st[b]) != (a == b))
	    viol ("equality " + show (st[a]) + " == " + show (st[b]));
	}

  printf ("STATES %u\nEVAL %lu\nNONTRIVIAL %lu\nBAD %lu\n", S, g_evals, g_nontriv, g_bad);
  for (auto const &s: g_samples)
    printf ("SAMPLE %s\n", s.c_str ());
  return g_bad ? 1 : 0;
}

// ---- random histories over a pool of 64-bit points --------------------------

static int
do_random (int npoints)
{
  bool ok = rc::check ("coverage behaves as a set of addresses",
		       [&] ()
		       {
			 // Points: sorted distinct 64-bit values, none above 2^64-2 as a
			 // range end.
			 auto raw = *rc::gen::container <std::vector <uint64_t>>
			   (npoints, rc::gen::oneOf
			    (rc::gen::arbitrary <uint64_t> (),
			     rc::gen::map (rc::gen::inRange (0, 40), [] (int i) { return (uint64_t) i; }),
			     rc::gen::map (rc::gen::inRange (-20, 20),
					   [] (int i) { return (uint64_t) ((int64_t) UINT32_MAX + 1 + i); }),
			     rc::gen::map (rc::gen::inRange (-20, 20),
					   [] (int i) { return ((uint64_t) 1 << 63) + (uint64_t) (int64_t) i; }),
			     rc::gen::map (rc::gen::inRange (0, 30),
					   [] (int i) { return UINT64_MAX - 1 - (uint64_t) i; })));
			 std::sort (raw.begin (), raw.end ());
			 raw.erase (std::unique (raw.begin (), raw.end ()), raw.end ());
			 RC_PRE (raw.size () >= 3);
			 size_t P = raw.size ();
			 // Elementary segment i = [raw[i], raw[i+1]).
			 std::vector <bool> model (P - 1, false);
			 coverage c;
			 auto ops = *rc::gen::container <std::vector <std::tuple <int, int, int>>>
			   (*rc::gen::inRange (1, 40),
			    rc::gen::tuple (rc::gen::inRange (0, 5), rc::gen::inRange (0, (int) P),
					    rc::gen::inRange (0, (int) P)));
			 bool nt = false;
			 for (auto const &op: ops)
			   {
			     int kind = std::get <0> (op);
			     size_t i = std::get <1> (op), j = std::get <2> (op);
			     if (i > j)
			       std::swap (i, j);
			     uint64_t start = raw[i], len = raw[j] - raw[i];
			     ++g_evals;
			     if (kind <= 1)
			       {
				 c.add (start, len);
				 for (size_t k = i; k < j; ++k)
				   model[k] = true;
			       }
			     else if (kind == 2)
			       {
				 bool any = false;
				 for (size_t k = i; k < j; ++k)
				   {
				     any = any || model[k];
				     model[k] = false;
				   }
				 bool r = c.remove (start, len);
				 RC_ASSERT (r == any);
			       }
			     else if (kind == 3 && len > 0)
			       {
				 bool all = true, any = false;
				 for (size_t k = i; k < j; ++k)
				   {
				     all = all && model[k];
				     any = any || model[k];
				   }
				 RC_ASSERT (c.is_covered (start, len) == all);
				 RC_ASSERT (c.is_overlap (start, len) == any);
			       }
			     else if (kind == 4 && len > 0)
			       {
				 coverage x = c.intersect (start, len);
				 coverage e;
				 for (size_t k = i; k < j; ++k)
				   if (model[k])
				     e.add (raw[k], raw[k + 1] - raw[k]);
				 RC_ASSERT (x == e);
				 RC_ASSERT (canonical (x));
			       }
			     // Compare with the model after every step.
			     coverage e;
			     for (size_t k = 0; k + 1 < P; ++k)
			       if (model[k])
				 e.add (raw[k], raw[k + 1] - raw[k]);
			     RC_ASSERT (canonical (c));
			     if (! (c == e))
			       RC_FAIL ("after op: got " + show (c) + " expected " + show (e));
			     if (c.size () >= 2)
			       nt = true;
			   }
			 if (nt)
			   ++g_nontriv;
			 RC_CLASSIFY (nt, "history with >= 2 runs at some point");
		       });
  printf ("EVAL %lu\nNONTRIVIAL %lu\n", g_evals, g_nontriv);
  return ok ? 0 : 1;
}

int
main (int argc, char **argv)
{
  if (argc >= 4 && strcmp (argv[1], "bfs") == 0)
    return do_bfs (atoi (argv[2]), strtoull (argv[3], nullptr, 0));
  if (argc >= 3 && strcmp (argv[1], "random") == 0)
    return do_random (atoi (argv[2]));
  fprintf (stderr, "usage: h_cov bfs N BASE | random NPOINTS\n");
  return 3;
}
