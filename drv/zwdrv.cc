// zwdrv -- persistent verification driver for libzwerg.
//
// Line protocol: one request per line on stdin (space-separated tokens, binary
// payloads hex-encoded), one JSON reply per line on stdout.  All query-related
// work goes through the real extern "C" API; internal headers are used only to
// *observe* values (dumping them independently of the Zwerg words under test),
// to build sequence values for input stacks, to compile without
// tree::simplify (C15) and to list vocabularies.
//
// fd 2 is redirected to a memfd so that the library's diagnostics can be
// returned per request; sanitizer reports go to ASAN_OPTIONS=log_path files.

#include <cassert>
#include <cinttypes>
#include <csignal>
#include <cstdio>
#include <cstdlib>
#include <cstring>
#include <iostream>
#include <map>
#include <memory>
#include <sstream>
#include <string>
#include <vector>

#include <fcntl.h>
#include <sys/mman.h>
#include <unistd.h>

#include <elfutils/libdw.h>
#include <elfutils/libdwfl.h>

#include "libzwerg.h"
#include "libzwerg-dw.h"
#include "libzwergP.hh"
#include "parser.hh"
#include "tree.hh"
#include "builtin.hh"
#include "init.hh"
#include "stack.hh"
#include "value-cst.hh"
#include "value-str.hh"
#include "value-seq.hh"
#include "value-closure.hh"
#include "value-dw.hh"
#include "value-aset.hh"
#include "value-symbol.hh"
#include "dwcst.hh"
#include "scon.hh"

extern "C" int __lsan_do_recoverable_leak_check (void);

#ifndef DWGREP_VERIF
# error "zwdrv must be compiled with -DDWGREP_VERIF"
#endif

std::unique_ptr <vocabulary> dwgrep_vocabulary_dw ();

namespace
{
  int g_errfd = -1;	// memfd that backs fd 2
  int g_realerr = -1;	// the original stderr

  std::string
  take_stderr ()
  {
    fflush (stderr);
    std::cerr.flush ();
    off_t end = lseek (g_errfd, 0, SEEK_CUR);
    std::string ret;
    if (end > 0)
      {
	ret.resize (end);
	ssize_t n = pread (g_errfd, &ret[0], end, 0);
	if (n < 0)
	  n = 0;
	ret.resize (n);
	if (ftruncate (g_errfd, 0) != 0)
	  {}
	lseek (g_errfd, 0, SEEK_SET);
      }
    return ret;
  }

  off_t
  stderr_pos ()
  {
    fflush (stderr);
    std::cerr.flush ();
    return lseek (g_errfd, 0, SEEK_CUR);
  }

  void
  on_abort (int sig)
  {
    // Forward what the library printed (assert message, hook message) to the
    // real stderr so that the client sees why we died.
    char buf[4096];
    off_t end = lseek (g_errfd, 0, SEEK_CUR);
    off_t off = 0;
    while (off < end)
      {
	ssize_t n = pread (g_errfd, buf, sizeof buf, off);
	if (n <= 0)
	  break;
	if (write (g_realerr, buf, n) < 0)
	  break;
	off += n;
      }
    signal (sig, SIG_DFL);
    raise (sig);
  }

  std::string
  hex (std::string const &s)
  {
    static char const *d = "0123456789abcdef";
    std::string r;
    r.reserve (s.size () * 2);
    for (unsigned char c: s)
      {
	r += d[c >> 4];
	r += d[c & 15];
      }
    return r;
  }

  bool
  unhex (std::string const &h, std::string &out)
  {
    if (h == "-")
      {
	out.clear ();
	return true;
      }
    if (h.size () % 2)
      return false;
    out.clear ();
    auto v = [] (char c) -> int
      {
	if (c >= '0' && c <= '9') return c - '0';
	if (c >= 'a' && c <= 'f') return c - 'a' + 10;
	if (c >= 'A' && c <= 'F') return c - 'A' + 10;
	return -1;
      };
    for (size_t i = 0; i < h.size (); i += 2)
      {
	int a = v (h[i]), b = v (h[i + 1]);
	if (a < 0 || b < 0)
	  return false;
	out += char (a * 16 + b);
      }
    return true;
  }

  std::string
  jstr (std::string const &s)
  {
    std::string r = "\"";
    for (unsigned char c: s)
      if (c == '"' || c == '\\')
	{
	  r += '\\';
	  r += c;
	}
      else if (c < 0x20 || c >= 0x7f)
	{
	  char b[8];
	  snprintf (b, sizeof b, "\\u%04x", c);
	  r += b;
	}
      else
	r += c;
    return r + "\"";
  }

  struct out
  {
    std::string s;
    out &operator<< (std::string const &t) { s += t; return *this; }
    out &operator<< (char const *t) { s += t; return *this; }
    out &operator<< (uint64_t v) { s += std::to_string (v); return *this; }
    out &operator<< (int64_t v) { s += std::to_string (v); return *this; }
    out &operator<< (int v) { s += std::to_string (v); return *this; }
    out &operator<< (unsigned v) { s += std::to_string (v); return *this; }
  };

  // ---- global tables -------------------------------------------------

  zw_vocabulary *g_voc_full = nullptr;
  zw_vocabulary *g_voc_core = nullptr;

  std::map <unsigned, zw_query *> g_queries;
  std::map <unsigned, zw_result *> g_results;
  std::map <unsigned, zw_value *> g_values;
  unsigned g_next_id = 1;

  unsigned g_dump_flags = 0;   // 1 = include show() of every value

  void dump_value (out &o, zw_value const *v);

  void
  dump_die_chain (out &o, value_die const &d)
  {
    o << "[";
    bool first = true;
    if (d.is_cooked ())
      for (auto imp = d.get_import (); imp != nullptr; )
	{
	  if (! first)
	    o << ",";
	  first = false;
	  o << uint64_t (dwarf_dieoffset (&imp->get_die ()));
	  imp = imp->is_cooked () ? imp->get_import () : nullptr;
	}
    o << "]";
  }

  std::string
  show_of (zw_value const *v)
  {
    try
      {
	std::stringstream ss;
	v->show (ss);
	return ss.str ();
      }
    catch (std::exception const &e)
      {
	return std::string ("<<show threw: ") + e.what () + ">>";
      }
  }

  void
  dump_die_fields (out &o, value_die const &d)
  {
    Dwarf_Die die = d.get_die ();
    o << "\"off\":" << uint64_t (dwarf_dieoffset (&die))
      << ",\"tag\":" << int (dwarf_tag (&die))
      << ",\"raw\":" << int (d.is_raw ())
      << ",\"dw\":" << uint64_t ((uintptr_t) dwarf_cu_getdwarf (die.cu))
      << ",\"imp\":";
    dump_die_chain (o, d);
  }

  void
  dump_value (out &o, zw_value const *v)
  {
    o << "{\"p\":" << uint64_t (zw_value_pos (v)) << ",";
    if (zw_value_is_const (v))
      {
	bool sg = zw_value_const_is_signed (v);
	// zw_value_const_dom is declared in libzwerg.h but not defined anywhere.
	zw_cdom const *dom
	  = value::require_as <value_cst> (v).get_constant ().dom ();
	o << "\"t\":\"c\",\"s\":" << int (sg) << ",\"v\":\"";
	if (sg)
	  o << int64_t (zw_value_const_i64 (v));
	else
	  o << uint64_t (zw_value_const_u64 (v));
	o << "\",\"d\":" << jstr (zw_cdom_name (dom))
	  << ",\"a\":" << int (zw_cdom_is_arith (dom))
	  << ",\"di\":" << uint64_t ((uintptr_t) dom);
	zw_error *err = nullptr;
	if (zw_value *f = zw_value_const_format (v, &err))
	  {
	    size_t len;
	    char const *s = zw_value_str_str (f, &len);
	    o << ",\"f\":\"" << hex (std::string (s, len)) << "\"";
	    zw_value_destroy (f);
	  }
	else
	  {
	    o << ",\"ferr\":" << jstr (zw_error_message (err));
	    zw_error_destroy (err);
	  }
	if (zw_value *f = zw_value_const_format_brief (v, &err))
	  {
	    size_t len;
	    char const *s = zw_value_str_str (f, &len);
	    o << ",\"b\":\"" << hex (std::string (s, len)) << "\"";
	    zw_value_destroy (f);
	  }
	else
	  {
	    o << ",\"berr\":" << jstr (zw_error_message (err));
	    zw_error_destroy (err);
	  }
      }
    else if (zw_value_is_str (v))
      {
	size_t len;
	char const *s = zw_value_str_str (v, &len);
	o << "\"t\":\"s\",\"x\":\"" << hex (std::string (s, len)) << "\"";
      }
    else if (zw_value_is_seq (v))
      {
	o << "\"t\":\"q\",\"e\":[";
	size_t n = zw_value_seq_length (v);
	for (size_t i = 0; i < n; ++i)
	  {
	    if (i > 0)
	      o << ",";
	    dump_value (o, zw_value_seq_at (v, i));
	  }
	o << "]";
      }
    else if (v->is <value_closure> ())
      o << "\"t\":\"k\"";
    else if (zw_value_is_dwarf (v))
      {
	auto &d = value::require_as <value_dwarf> (v);
	o << "\"t\":\"dw\",\"raw\":" << int (d.is_raw ())
	  << ",\"name\":" << jstr (zw_value_dwarf_name (v))
	  << ",\"id\":" << uint64_t ((uintptr_t) zw_value_dwarf_dwfl (v));
      }
    else if (zw_value_is_cu (v))
      {
	auto &c = value::require_as <value_cu> (v);
	Dwarf_Die cudie;
	uint8_t asz = 0, osz = 0;
	Dwarf_Half ver = 0;
	uint8_t ut = 0;
	Dwarf_Die *r = dwarf_cu_die (&c.get_cu (), &cudie, &ver, nullptr,
				     &asz, &osz, nullptr, nullptr);
	if (r != nullptr)
	  dwarf_cu_info (&c.get_cu (), nullptr, &ut, nullptr, nullptr,
			 nullptr, nullptr, nullptr);
	o << "\"t\":\"cu\",\"off\":" << uint64_t (zw_value_cu_offset (v))
	  << ",\"raw\":" << int (c.is_raw ())
	  << ",\"ver\":" << int (ver)
	  << ",\"ut\":" << int (ut)
	  << ",\"die\":" << uint64_t (r ? dwarf_dieoffset (&cudie) : 0)
	  << ",\"dw\":" << uint64_t ((uintptr_t) (r ? dwarf_cu_getdwarf (cudie.cu) : nullptr));
      }
    else if (zw_value_is_die (v))
      {
	auto &d = value::require_as <value_die> (v);
	o << "\"t\":\"die\",";
	dump_die_fields (o, d);
      }
    else if (zw_value_is_attr (v))
      {
	auto &a = value::require_as <value_attr> (v);
	Dwarf_Attribute at = zw_value_attr_attr (v);
	o << "\"t\":\"at\",\"name\":" << unsigned (dwarf_whatattr (&at))
	  << ",\"form\":" << unsigned (dwarf_whatform (&at))
	  << ",\"araw\":" << int (a.is_raw ())
	  << ",\"die\":{";
	dump_die_fields (o, a.get_value_die ());
	o << "}";
      }
    else if (zw_value_is_llelem (v))
      {
	size_t n;
	Dwarf_Op *ops = zw_value_llelem_expr (v, &n);
	Dwarf_Attribute at = zw_value_llelem_attribute (v);
	o << "\"t\":\"lle\",\"low\":\"" << uint64_t (zw_value_llelem_low (v))
	  << "\",\"high\":\"" << uint64_t (zw_value_llelem_high (v))
	  << "\",\"an\":" << unsigned (dwarf_whatattr (&at))
	  << ",\"ops\":[";
	for (size_t i = 0; i < n; ++i)
	  {
	    if (i > 0)
	      o << ",";
	    o << "{\"atom\":" << unsigned (ops[i].atom)
	      << ",\"n1\":\"" << uint64_t (ops[i].number)
	      << "\",\"n2\":\"" << uint64_t (ops[i].number2)
	      << "\",\"off\":" << uint64_t (ops[i].offset) << "}";
	  }
	o << "]";
      }
    else if (zw_value_is_llop (v))
      {
	Dwarf_Op *op = zw_value_llop_op (v);
	o << "\"t\":\"llo\",\"atom\":" << unsigned (op->atom)
	  << ",\"n1\":\"" << uint64_t (op->number)
	  << "\",\"n2\":\"" << uint64_t (op->number2)
	  << "\",\"off\":" << uint64_t (op->offset);
      }
    else if (zw_value_is_aset (v))
      {
	o << "\"t\":\"as\",\"r\":[";
	size_t n = zw_value_aset_length (v);
	for (size_t i = 0; i < n; ++i)
	  {
	    auto p = zw_value_aset_at (v, i);
	    if (i > 0)
	      o << ",";
	    o << "[\"" << uint64_t (p.start) << "\",\""
	      << uint64_t (p.length) << "\"]";
	  }
	o << "]";
      }
    else if (zw_value_is_elfsym (v))
      {
	auto &s = value::require_as <value_symbol> (v);
	GElf_Sym sym = s.get_symbol ();
	char const *nm = zw_value_elfsym_name (v);
	o << "\"t\":\"sym\",\"idx\":" << unsigned (zw_value_elfsym_symidx (v))
	  << ",\"name\":\"" << hex (nm ? nm : "") << "\""
	  << ",\"st_name\":" << unsigned (sym.st_name)
	  << ",\"st_info\":" << unsigned (sym.st_info)
	  << ",\"st_other\":" << unsigned (sym.st_other)
	  << ",\"st_shndx\":" << unsigned (sym.st_shndx)
	  << ",\"st_value\":\"" << uint64_t (sym.st_value) << "\""
	  << ",\"st_size\":\"" << uint64_t (sym.st_size) << "\"";
      }
    else if (v->is <value_abbrev_unit> ())
      {
	auto &a = const_cast <value_abbrev_unit &>
	  (value::require_as <value_abbrev_unit> (v));
	Dwarf_Die cudie;
	Dwarf_Off aoff = 0;
	dwarf_cu_die (&a.get_cu (), &cudie, nullptr, &aoff,
		      nullptr, nullptr, nullptr, nullptr);
	o << "\"t\":\"abu\",\"off\":" << uint64_t (aoff)
	  << ",\"cu\":" << uint64_t (dwarf_dieoffset (&cudie));
      }
    else if (v->is <value_abbrev> ())
      {
	auto &a = const_cast <value_abbrev &>
	  (value::require_as <value_abbrev> (v));
	Dwarf_Abbrev *ab = &a.get_abbrev ();
	// dwarf_getattrcnt miscounts abbreviations with DW_FORM_implicit_const; walk instead.
	size_t cnt = 0;
	{
	  unsigned nm0 = 0, fm0 = 0;
	  Dwarf_Sword data0 = 0;
	  Dwarf_Off off0 = 0;
	  while (dwarf_getabbrevattr_data (ab, cnt, &nm0, &fm0, &data0, &off0) == 0)
	    ++cnt;
	}
	o << "\"t\":\"ab\",\"code\":" << unsigned (dwarf_getabbrevcode (ab))
	  << ",\"tag\":" << unsigned (dwarf_getabbrevtag (ab))
	  << ",\"ch\":" << int (dwarf_abbrevhaschildren (ab))
	  << ",\"id\":" << uint64_t ((uintptr_t) ab)
	  << ",\"attrs\":[";
	for (size_t i = 0; i < cnt; ++i)
	  {
	    unsigned nm = 0, fm = 0;
	    Dwarf_Off off = 0;
	    dwarf_getabbrevattr (ab, i, &nm, &fm, &off);
	    if (i > 0)
	      o << ",";
	    o << "[" << nm << "," << fm << "," << uint64_t (off) << "]";
	  }
	o << "]";
      }
    else if (v->is <value_abbrev_attr> ())
      {
	auto &a = value::require_as <value_abbrev_attr> (v);
	o << "\"t\":\"aba\",\"name\":" << unsigned (a.name)
	  << ",\"form\":" << unsigned (a.form)
	  << ",\"off\":" << uint64_t (a.offset);
      }
    else
      o << "\"t\":\"?\",\"code\":" << unsigned (v->get_type ().code ());

    if (g_dump_flags & 1)
      o << ",\"sh\":\"" << hex (show_of (v)) << "\"";
    o << "}";
  }

  void
  dump_stack (out &o, zw_stack const *stk)
  {
    o << "[";
    size_t n = zw_stack_depth (stk);
    for (size_t i = 0; i < n; ++i)
      {
	if (i > 0)
	  o << ",";
	dump_value (o, zw_stack_at (stk, n - 1 - i));
      }
    o << "]";
  }

  // ---- input stack construction ---------------------------------------

  zw_cdom const *
  dom_by_name (std::string const &n)
  {
    if (n == "dec") return zw_cdom_dec ();
    if (n == "hex") return zw_cdom_hex ();
    if (n == "oct") return zw_cdom_oct ();
    if (n == "bin") return zw_cdom_bin ();
    if (n == "bool") return zw_cdom_bool ();
    if (n == "tag") return zw_cdom_dw_tag ();
    if (n == "attr") return zw_cdom_dw_attr ();
    if (n == "form") return zw_cdom_dw_form ();
    if (n == "lang") return zw_cdom_dw_lang ();
    if (n == "macinfo") return zw_cdom_dw_macinfo ();
    if (n == "macro") return zw_cdom_dw_macro ();
    if (n == "inline") return zw_cdom_dw_inline ();
    if (n == "encoding") return zw_cdom_dw_encoding ();
    if (n == "access") return zw_cdom_dw_access ();
    if (n == "visibility") return zw_cdom_dw_visibility ();
    if (n == "virtuality") return zw_cdom_dw_virtuality ();
    if (n == "idcase") return zw_cdom_dw_identifier_case ();
    if (n == "cc") return zw_cdom_dw_calling_convention ();
    if (n == "ordering") return zw_cdom_dw_ordering ();
    if (n == "discr") return zw_cdom_dw_discr_list ();
    if (n == "ds") return zw_cdom_dw_decimal_sign ();
    if (n == "op") return zw_cdom_dw_locexpr_opcode ();
    if (n == "addrclass") return zw_cdom_dw_address_class ();
    if (n == "endianity") return zw_cdom_dw_endianity ();
    if (n == "defaulted") return zw_cdom_dw_defaulted ();
    if (n == "stv") return zw_cdom_elfsym_stv ();
    if (n.compare (0, 3, "stt") == 0 || n.compare (0, 3, "stb") == 0)
      {
	int code = atoi (n.c_str () + 3);
	zw_error *err = nullptr;
	zw_machine *m = zw_machine_init (code, &err);
	if (m == nullptr)
	  {
	    zw_error_destroy (err);
	    return nullptr;
	  }
	zw_cdom const *d = n[2] == 't' ? zw_cdom_elfsym_stt (m)
	  : zw_cdom_elfsym_stb (m);
	zw_machine_destroy (m);
	return d;
      }
    return nullptr;
  }

  struct spec_error
  {
    std::string msg;
  };

  // Parses one value at toks[i]; advances i.
  std::unique_ptr <zw_value>
  parse_value (std::vector <std::string> const &toks, size_t &i)
  {
    if (i >= toks.size ())
      throw spec_error {"value expected"};
    // Every token may carry the position of the value as a suffix @N
    // (for a sequence on its closing bracket: ]@N).
    std::string t = toks[i++];
    if (t[0] == '~')
      {
	// ~TOKEN@N: build the value at position 0, then give it position N
	// with zw_value_clone, as a client that re-uses a value would.
	--i;
	std::vector <std::string> tmp = toks;
	size_t p = 0;
	auto at = tmp[i].rfind ('@');
	if (at != std::string::npos && tmp[i][1] != '[')
	  {
	    p = strtoull (tmp[i].c_str () + at + 1, nullptr, 10);
	    tmp[i].erase (at);
	  }
	tmp[i].erase (0, 1);
	auto v = parse_value (tmp, i);
	zw_error *err = nullptr;
	zw_value *c = zw_value_clone (v.get (), p, &err);
	if (c == nullptr)
	  {
	    std::string m = zw_error_message (err);
	    zw_error_destroy (err);
	    throw spec_error {m};
	  }
	return std::unique_ptr <zw_value> (c);
      }
    size_t pos = 0;
    auto split_pos = [] (std::string &tok, size_t &p)
      {
	auto at = tok.rfind ('@');
	if (at != std::string::npos)
	  {
	    p = strtoull (tok.c_str () + at + 1, nullptr, 10);
	    tok.erase (at);
	  }
      };
    split_pos (t, pos);
    if (t == "[")
      {
	value_seq::seq_t vv;
	while (i < toks.size () && toks[i][0] != ']')
	  vv.push_back (parse_value (toks, i));
	if (i >= toks.size ())
	  throw spec_error {"unterminated ["};
	std::string close = toks[i++];
	split_pos (close, pos);
	return std::make_unique <value_seq> (std::move (vv), pos);
      }
    if (t[0] == 'I' || t[0] == 'J')
      {
	auto c = t.find (':');
	if (c == std::string::npos)
	  throw spec_error {"bad const " + t};
	std::string dn = t.substr (1, c - 1);
	std::string num = t.substr (c + 1);
	zw_cdom const *dom = dom_by_name (dn);
	if (dom == nullptr)
	  throw spec_error {"bad domain " + dn};
	zw_error *err = nullptr;
	zw_value *v;
	if (num[0] == '-' || t[0] == 'J')
	  v = zw_value_init_const_i64 (strtoll (num.c_str (), nullptr, 10),
				       dom, pos, &err);
	else
	  v = zw_value_init_const_u64 (strtoull (num.c_str (), nullptr, 10),
				       dom, pos, &err);
	if (v == nullptr)
	  {
	    std::string m = zw_error_message (err);
	    zw_error_destroy (err);
	    throw spec_error {m};
	  }
	return std::unique_ptr <zw_value> (v);
      }
    if (t[0] == 'S')
      {
	std::string s;
	if (! unhex (t.substr (1), s))
	  throw spec_error {"bad hex " + t};
	zw_error *err = nullptr;
	zw_value *v = zw_value_init_str_len (s.data (), s.size (), pos, &err);
	if (v == nullptr)
	  {
	    std::string m = zw_error_message (err);
	    zw_error_destroy (err);
	    throw spec_error {m};
	  }
	return std::unique_ptr <zw_value> (v);
      }
    if (t[0] == 'V')
      {
	unsigned h = atoi (t.c_str () + 1);
	auto it = g_values.find (h);
	if (it == g_values.end ())
	  throw spec_error {"bad value handle " + t};
	zw_error *err = nullptr;
	zw_value *v = zw_value_clone (it->second, pos, &err);
	if (v == nullptr)
	  {
	    std::string m = zw_error_message (err);
	    zw_error_destroy (err);
	    throw spec_error {m};
	  }
	return std::unique_ptr <zw_value> (v);
      }
    throw spec_error {"bad value token " + t};
  }

  zw_stack *
  parse_stack (std::vector <std::string> const &toks, size_t i)
  {
    zw_error *err = nullptr;
    zw_stack *stk = zw_stack_init (&err);
    assert (stk != nullptr);
    try
      {
	while (i < toks.size ())
	  {
	    auto v = parse_value (toks, i);
	    if (! zw_stack_push_take (stk, v.release (), &err))
	      {
		std::string m = zw_error_message (err);
		zw_error_destroy (err);
		throw spec_error {m};
	      }
	  }
      }
    catch (...)
      {
	zw_stack_destroy (stk);
	throw;
      }
    return stk;
  }

  // ---- query compilation ---------------------------------------------

  // flags: 1 = skip tree::simplify, 2 = core vocabulary only,
  //        4 = use zw_query_parse (NUL-terminated) instead of _len,
  //        8 = hand the query in an exact-size heap buffer (no terminator)
  zw_query *
  compile (unsigned flags, std::string const &text, std::string &errmsg)
  {
    zw_vocabulary *voc = (flags & 2) ? g_voc_core : g_voc_full;
    if (flags & 1)
      {
	// The body of zw_query_parse_len minus simplify ().
	try
	  {
	    tree t = parse_query (text.data (), text.data () + text.size ());
	    layout l;
	    auto origin = std::make_shared <op_origin> (l);
	    auto op = t.build_exec (l, origin, *voc->m_voc);
	    return new zw_query {l, *origin, op};
	  }
	catch (std::exception const &e)
	  {
	    errmsg = e.what ();
	    if (errmsg.empty ())
	      errmsg = "(empty message)";
	    return nullptr;
	  }
      }

    zw_error *err = (zw_error *) (uintptr_t) 0x5a5a5a5a;
    zw_query *q;
    if (flags & 4)
      q = zw_query_parse (voc, text.c_str (), &err);
    else if (flags & 8)
      {
	char *buf = (char *) malloc (text.size () ? text.size () : 1);
	memcpy (buf, text.data (), text.size ());
	q = zw_query_parse_len (voc, buf, text.size (), &err);
	free (buf);
      }
    else
      q = zw_query_parse_len (voc, text.data (), text.size (), &err);

    if (q == nullptr)
      {
	if (err == (zw_error *) (uintptr_t) 0x5a5a5a5a || err == nullptr)
	  errmsg = "CONTRACT: NULL returned but error object not set";
	else
	  {
	    char const *m = zw_error_message (err);
	    errmsg = m ? m : "";
	    if (errmsg.empty ())
	      errmsg = "CONTRACT: empty error message";
	    zw_error_destroy (err);
	  }
	return nullptr;
      }
    if (err != (zw_error *) (uintptr_t) 0x5a5a5a5a)
      {
	// Non-NULL result but error touched.
	errmsg = "CONTRACT: query returned and error object set";
      }
    return q;
  }

  struct run_result
  {
    std::string json;	// "res":[...],...
  };

  // Execute Q on STK, pull up to LIMIT stacks within STEPS steps.
  void
  run_query (out &o, zw_query *q, zw_stack *stk, size_t limit,
	     unsigned long steps)
  {
    zw_error *err = nullptr;
    dwgrep_verif::set_step_limit (steps);
    zw_result *r = zw_query_execute (q, stk, &err);
    if (r == nullptr)
      {
	o << "\"xerror\":" << jstr (zw_error_message (err));
	zw_error_destroy (err);
	return;
      }
    o << "\"res\":[";
    size_t n = 0;
    bool ended = false;
    std::string emsg;
    bool haveerr = false;
    std::vector <off_t> marks;
    while (n < limit)
      {
	zw_stack *os = (zw_stack *) (uintptr_t) 0x5a5a5a5a;
	err = (zw_error *) (uintptr_t) 0x5a5a5a5a;
	if (! zw_result_next (r, &os, &err))
	  {
	    haveerr = true;
	    if (err == (zw_error *) (uintptr_t) 0x5a5a5a5a || err == nullptr)
	      emsg = "CONTRACT: false returned but error object not set";
	    else
	      {
		emsg = zw_error_message (err);
		if (emsg.empty ())
		  emsg = "CONTRACT: empty error message";
		zw_error_destroy (err);
	      }
	    break;
	  }
	if (os == nullptr)
	  {
	    ended = true;
	    break;
	  }
	if (n > 0)
	  o << ",";
	dump_stack (o, os);
	zw_stack_destroy (os);
	marks.push_back (stderr_pos ());
	++n;
      }
    o << "],\"end\":" << int (ended);
    if (haveerr)
      o << ",\"error\":" << jstr (emsg);
    o << ",\"steps\":" << uint64_t (dwgrep_verif::get_step_count ());
    o << ",\"marks\":[";
    for (size_t i = 0; i < marks.size (); ++i)
      {
	if (i > 0)
	  o << ",";
	o << uint64_t (marks[i]);
      }
    o << "]";
    zw_result_destroy (r);
    dwgrep_verif::set_step_limit (0);
  }

  std::vector <std::string>
  split (std::string const &line)
  {
    std::vector <std::string> toks;
    size_t i = 0;
    while (i < line.size ())
      {
	while (i < line.size () && line[i] == ' ')
	  ++i;
	size_t j = i;
	while (j < line.size () && line[j] != ' ')
	  ++j;
	if (j > i)
	  toks.push_back (line.substr (i, j - i));
	i = j;
      }
    return toks;
  }

  void
  reply (out &o)
  {
    std::string e = take_stderr ();
    std::string line = "{" + o.s;
    if (! o.s.empty ())
      line += ",";
    line += "\"stderr\":\"" + hex (e) + "\"}\n";
    size_t off = 0;
    while (off < line.size ())
      {
	ssize_t n = write (1, line.data () + off, line.size () - off);
	if (n <= 0)
	  _exit (9);
	off += n;
      }
  }
}

int
main (int argc, char **argv)
{
  g_realerr = dup (2);
  g_errfd = memfd_create ("zwdrv-stderr", 0);
  if (g_errfd < 0 || dup2 (g_errfd, 2) < 0)
    {
      perror ("memfd");
      return 2;
    }
  signal (SIGABRT, on_abort);
  signal (SIGPIPE, SIG_DFL);

  {
    zw_error *err = nullptr;
    g_voc_full = zw_vocabulary_init (&err);
    assert (g_voc_full != nullptr);
    g_voc_core = zw_vocabulary_init (&err);
    assert (g_voc_core != nullptr);
    zw_vocabulary const *core = zw_vocabulary_core (&err);
    assert (core != nullptr);
    zw_vocabulary const *dw = zw_vocabulary_dwarf (&err);
    assert (dw != nullptr);
    bool ok = zw_vocabulary_add (g_voc_full, core, &err);
    assert (ok);
    ok = zw_vocabulary_add (g_voc_full, dw, &err);
    assert (ok);
    ok = zw_vocabulary_add (g_voc_core, core, &err);
    assert (ok);
    (void) ok;
  }

  std::string line;
  while (std::getline (std::cin, line))
    {
      auto toks = split (line);
      out o;
      if (toks.empty ())
	{
	  o << "\"error\":\"empty request\"";
	  reply (o);
	  continue;
	}
      std::string const &cmd = toks[0];
      try
	{
	  if (cmd == "ping")
	    o << "\"pong\":1";
	  else if (cmd == "quit")
	    break;
	  else if (cmd == "flags")
	    {
	      g_dump_flags = atoi (toks.at (1).c_str ());
	      o << "\"ok\":1";
	    }
	  else if (cmd == "open")
	    {
	      // open <hexpath> <raw>
	      std::string path;
	      unhex (toks.at (1), path);
	      bool raw = atoi (toks.at (2).c_str ());
	      zw_error *err = nullptr;
	      zw_value *v = raw ? zw_value_init_dwarf_raw (path.c_str (), 0, &err)
		: zw_value_init_dwarf (path.c_str (), 0, &err);
	      if (v == nullptr)
		{
		  o << "\"error\":" << jstr (zw_error_message (err));
		  zw_error_destroy (err);
		}
	      else
		{
		  unsigned id = g_next_id++;
		  g_values[id] = v;
		  o << "\"h\":" << id;
		}
	    }
	  else if (cmd == "vclose")
	    {
	      unsigned id = atoi (toks.at (1).c_str ());
	      auto it = g_values.find (id);
	      if (it != g_values.end ())
		{
		  zw_value_destroy (it->second);
		  g_values.erase (it);
		}
	      o << "\"ok\":1";
	    }
	  else if (cmd == "parse")
	    {
	      unsigned flags = atoi (toks.at (1).c_str ());
	      std::string text;
	      if (! unhex (toks.at (2), text))
		throw spec_error {"bad hex"};
	      std::string emsg;
	      zw_query *q = compile (flags, text, emsg);
	      if (q == nullptr)
		o << "\"error\":" << jstr (emsg);
	      else
		{
		  unsigned id = g_next_id++;
		  g_queries[id] = q;
		  o << "\"q\":" << id;
		  if (! emsg.empty ())
		    o << ",\"contract\":" << jstr (emsg);
		}
	    }
	  else if (cmd == "qdestroy")
	    {
	      unsigned id = atoi (toks.at (1).c_str ());
	      auto it = g_queries.find (id);
	      if (it != g_queries.end ())
		{
		  zw_query_destroy (it->second);
		  g_queries.erase (it);
		}
	      o << "\"ok\":1";
	    }
	  else if (cmd == "exec")
	    {
	      // exec <q> <stackspec...>
	      unsigned id = atoi (toks.at (1).c_str ());
	      zw_query *q = g_queries.at (id);
	      zw_stack *stk = parse_stack (toks, 2);
	      zw_error *err = nullptr;
	      out before;
	      dump_stack (before, stk);
	      zw_result *r = zw_query_execute (q, stk, &err);
	      out after;
	      dump_stack (after, stk);
	      zw_stack_destroy (stk);
	      if (r == nullptr)
		{
		  o << "\"error\":" << jstr (zw_error_message (err));
		  zw_error_destroy (err);
		}
	      else
		{
		  unsigned rid = g_next_id++;
		  g_results[rid] = r;
		  o << "\"r\":" << rid << ",\"inmod\":"
		    << int (before.s != after.s);
		}
	    }
	  else if (cmd == "next")
	    {
	      // next <r> <steps>
	      unsigned id = atoi (toks.at (1).c_str ());
	      unsigned long steps = strtoul (toks.at (2).c_str (), nullptr, 10);
	      zw_result *r = g_results.at (id);
	      dwgrep_verif::set_step_limit (steps);
	      zw_stack *os = nullptr;
	      zw_error *err = nullptr;
	      if (! zw_result_next (r, &os, &err))
		{
		  o << "\"error\":" << jstr (err ? zw_error_message (err)
					    : "CONTRACT: no error object");
		  if (err)
		    zw_error_destroy (err);
		}
	      else if (os == nullptr)
		o << "\"end\":1";
	      else
		{
		  o << "\"stack\":";
		  dump_stack (o, os);
		  zw_stack_destroy (os);
		}
	      dwgrep_verif::set_step_limit (0);
	    }
	  else if (cmd == "rdestroy")
	    {
	      unsigned id = atoi (toks.at (1).c_str ());
	      auto it = g_results.find (id);
	      if (it != g_results.end ())
		{
		  zw_result_destroy (it->second);
		  g_results.erase (it);
		}
	      o << "\"ok\":1";
	    }
	  else if (cmd == "run")
	    {
	      // run <flags> <limit> <steps> <hexquery> <stackspec...>
	      unsigned flags = atoi (toks.at (1).c_str ());
	      size_t limit = strtoul (toks.at (2).c_str (), nullptr, 10);
	      unsigned long steps = strtoul (toks.at (3).c_str (), nullptr, 10);
	      std::string text;
	      if (! unhex (toks.at (4), text))
		throw spec_error {"bad hex"};
	      zw_stack *stk = parse_stack (toks, 5);
	      std::string emsg;
	      zw_query *q = compile (flags, text, emsg);
	      if (q == nullptr)
		o << "\"cerror\":" << jstr (emsg);
	      else
		{
		  if (! emsg.empty ())
		    o << "\"contract\":" << jstr (emsg) << ",";
		  run_query (o, q, stk, limit, steps);
		  zw_query_destroy (q);
		}
	      zw_stack_destroy (stk);
	    }
	  else if (cmd == "runq")
	    {
	      // runq <q> <limit> <steps> <stackspec...>: run a stored query
	      unsigned id = atoi (toks.at (1).c_str ());
	      size_t limit = strtoul (toks.at (2).c_str (), nullptr, 10);
	      unsigned long steps = strtoul (toks.at (3).c_str (), nullptr, 10);
	      zw_query *q = g_queries.at (id);
	      zw_stack *stk = parse_stack (toks, 4);
	      run_query (o, q, stk, limit, steps);
	      zw_stack_destroy (stk);
	    }
	  else if (cmd == "tree")
	    {
	      // tree <hexquery>: printed parse tree before and after simplify
	      std::string text;
	      if (! unhex (toks.at (1), text))
		throw spec_error {"bad hex"};
	      try
		{
		  tree t = parse_query (text.data (), text.data () + text.size ());
		  std::stringstream a, b;
		  a << t;
		  t.simplify ();
		  b << t;
		  o << "\"raw\":" << jstr (a.str ())
		    << ",\"simp\":" << jstr (b.str ());
		}
	      catch (std::exception const &e)
		{
		  o << "\"error\":" << jstr (e.what ());
		}
	    }
	  else if (cmd == "vocab")
	    {
	      // vocab <core|dw>
	      std::unique_ptr <vocabulary> v
		= toks.at (1) == "core" ? dwgrep_vocabulary_core ()
		: dwgrep_vocabulary_dw ();
	      o << "\"names\":[";
	      bool first = true;
	      for (auto const &b: v->get_builtins ())
		{
		  if (! first)
		    o << ",";
		  first = false;
		  o << "\"" << hex (b.first) << "\"";
		}
	      o << "]";
	    }
	  else if (cmd == "leak")
	    {
	      int r = __lsan_do_recoverable_leak_check ();
	      o << "\"leaks\":" << r;
	    }
	  else if (cmd == "matrix")
	    {
	      // matrix <steps> <hexpoolquery> <nq> <hexq>*nq <stackspec...>
	      // Pool = TOS of every result of the pool query.  For each query
	      // and each ordered pair (i, j) run it on the stack [v_i v_j].
	      unsigned long steps = strtoul (toks.at (1).c_str (), nullptr, 10);
	      std::string ptext;
	      unhex (toks.at (2), ptext);
	      size_t nq = strtoul (toks.at (3).c_str (), nullptr, 10);
	      std::vector <std::string> qtexts;
	      for (size_t i = 0; i < nq; ++i)
		{
		  std::string t;
		  unhex (toks.at (4 + i), t);
		  qtexts.push_back (t);
		}
	      zw_stack *stk = parse_stack (toks, 4 + nq);
	      std::string emsg;
	      zw_query *pq = compile (0, ptext, emsg);
	      if (pq == nullptr)
		{
		  o << "\"cerror\":" << jstr (emsg);
		  zw_stack_destroy (stk);
		}
	      else
		{
		  std::vector <zw_value *> pool;
		  zw_error *err = nullptr;
		  dwgrep_verif::set_step_limit (steps);
		  zw_result *r = zw_query_execute (pq, stk, &err);
		  assert (r != nullptr);
		  bool perr = false;
		  while (pool.size () < 400)
		    {
		      zw_stack *os = nullptr;
		      if (! zw_result_next (r, &os, &err))
			{
			  o << "\"perror\":" << jstr (zw_error_message (err)) << ",";
			  zw_error_destroy (err);
			  perr = true;
			  break;
			}
		      if (os == nullptr)
			break;
		      assert (zw_stack_depth (os) > 0);
		      pool.push_back (zw_value_clone (zw_stack_at (os, 0), 0, &err));
		      zw_stack_destroy (os);
		    }
		  zw_result_destroy (r);
		  zw_query_destroy (pq);
		  zw_stack_destroy (stk);
		  (void) perr;
		  o << "\"pool\":[";
		  for (size_t i = 0; i < pool.size (); ++i)
		    {
		      if (i > 0)
			o << ",";
		      dump_value (o, pool[i]);
		    }
		  o << "],\"m\":[";
		  for (size_t k = 0; k < nq; ++k)
		    {
		      if (k > 0)
			o << ",";
		      std::string em;
		      zw_query *q = compile (0, qtexts[k], em);
		      if (q == nullptr)
			{
			  o << jstr ("!" + em);
			  continue;
			}
		      std::string cells;
		      cells.reserve (pool.size () * pool.size ());
		      for (size_t i = 0; i < pool.size (); ++i)
			for (size_t j = 0; j < pool.size (); ++j)
			  {
			    zw_stack *s = zw_stack_init (&err);
			    zw_stack_push (s, pool[i], &err);
			    zw_stack_push (s, pool[j], &err);
			    off_t p0 = stderr_pos ();
			    dwgrep_verif::set_step_limit (steps);
			    zw_result *rr = zw_query_execute (q, s, &err);
			    zw_stack *os = nullptr;
			    char c;
			    if (! zw_result_next (rr, &os, &err))
			      {
				zw_error_destroy (err);
				c = 'X';
			      }
			    else
			      {
				bool y = os != nullptr;
				if (os)
				  {
				    // An assertion must leave the stack as is.
				    if (zw_stack_depth (os) != 2)
				      c = 'D';
				    zw_stack_destroy (os);
				  }
				bool e = stderr_pos () != p0;
				c = y ? (e ? 'f' : '1') : (e ? 'e' : '0');
			      }
			    zw_result_destroy (rr);
			    zw_stack_destroy (s);
			    cells += c;
			  }
		      zw_query_destroy (q);
		      o << "\"" << cells << "\"";
		    }
		  o << "]";
		  for (auto v: pool)
		    zw_value_destroy (v);
		  dwgrep_verif::set_step_limit (0);
		}
	    }
	  else
	    o << "\"error\":\"unknown command\"";
	}
      catch (spec_error const &e)
	{
	  o = out {};
	  o << "\"error\":" << jstr ("spec: " + e.msg);
	}
      catch (std::out_of_range const &e)
	{
	  o = out {};
	  o << "\"error\":\"bad request (missing argument or handle)\"";
	}
      reply (o);
    }

  // Orderly shutdown so that LSan's end-of-process check sees only real leaks.
  for (auto &r: g_results)
    zw_result_destroy (r.second);
  for (auto &q: g_queries)
    zw_query_destroy (q.second);
  for (auto &v: g_values)
    zw_value_destroy (v.second);
  zw_vocabulary_destroy (g_voc_full);
  zw_vocabulary_destroy (g_voc_core);
  return 0;
}
