// h_int -- C08 harness: libzwerg/int.cc against 128-bit arithmetic.
//
//   h_int lattice            exhaustive boundary lattice, all ops
//   h_int random <cases>     rapidcheck (seed via RC_PARAMS), shrinks
//   h_int one <op> <a> <sa> <b> <sb>    replay of one tuple
//
// Output: lines "KEY value"; violations as "VIOL ..." lines.

#include <cassert>
#include <cinttypes>
#include <cstdint>
#include <cstdio>
#include <cstdlib>
#include <cstring>
#include <set>
#include <sstream>
#include <stdexcept>
#include <string>
#include <vector>

#include <rapidcheck.h>

#include "int.hh"

typedef __int128 i128;

static const i128 LO = (i128) INT64_MIN;
static const i128 HI = (i128) UINT64_MAX;

static i128
val (mpz_class v)
{
  return v.m_sign == signedness::sign ? (i128) v.m_i : (i128) v.m_u;
}

static std::string
str128 (i128 v)
{
  if (v == 0)
    return "0";
  bool neg = v < 0;
  unsigned __int128 m = neg ? -(unsigned __int128) v : (unsigned __int128) v;
  std::string s;
  while (m)
    {
      s.insert (s.begin (), char ('0' + (int) (m % 10)));
      m /= 10;
    }
  return (neg ? "-" : "") + s;
}

static i128
fdiv (i128 a, i128 b)
{
  i128 q = a / b;
  if ((a % b != 0) && ((a < 0) != (b < 0)))
    --q;
  return q;
}

struct operand
{
  uint64_t bits;
  bool sign;
  mpz_class mk () const
  { return mpz_class (bits, sign ? signedness::sign : signedness::unsign); }
};

static std::string
show (operand o)
{
  return str128 (val (o.mk ())) + (o.sign ? "s" : "u");
}

static char const *const OPS[] = {"+", "-", "*", "/", "%", "neg", "<", ">", "<=", ">=", "==", "!=", "print"};
enum { NOPS = 13 };

// Returns empty string if OK, else a description.
static std::string
check (int op, operand oa, operand ob, bool *nontrivial)
{
  mpz_class a = oa.mk (), b = ob.mk ();
  i128 x = val (a), y = val (b);
  *nontrivial = oa.sign != ob.sign
    || x >= ((i128) 1 << 63) || x <= -((i128) 1 << 63)
    || y >= ((i128) 1 << 63) || y <= -((i128) 1 << 63);

  if (op <= 5)
    {
      bool expect_err = false;
      i128 e = 0;
      switch (op)
	{
	case 0: e = x + y; break;
	case 1: e = x - y; break;
	case 2:
	  {
	    // |x|,|y| < 2^64, the product fits into 128 bits only if we are
	    // careful: use unsigned magnitudes.
	    unsigned __int128 mx = x < 0 ? -(unsigned __int128) x : x;
	    unsigned __int128 my = y < 0 ? -(unsigned __int128) y : y;
	    // mx, my < 2^64, so the product is < 2^128 and cannot wrap.
	    unsigned __int128 p = mx * my;
	    if (p > ((unsigned __int128) 1 << 64))
	      expect_err = true;
	    else
	      e = ((x < 0) != (y < 0)) ? -(i128) p : (i128) p;
	    break;
	  }
	case 3:
	  if (y == 0)
	    expect_err = true;
	  else
	    e = fdiv (x, y);
	  break;
	case 4:
	  if (y == 0)
	    expect_err = true;
	  else
	    e = x - y * fdiv (x, y);
	  break;
	case 5: e = -x; break;
	}
      if (! expect_err && (e < LO || e > HI))
	expect_err = true;
      if (! expect_err && (e >= ((i128) 1 << 63) || e <= -((i128) 1 << 63)))
	*nontrivial = true;

      bool thrown = false;
      std::string what;
      mpz_class r;
      try
	{
	  switch (op)
	    {
	    case 0: r = a + b; break;
	    case 1: r = a - b; break;
	    case 2: r = a * b; break;
	    case 3: r = a / b; break;
	    case 4: r = a % b; break;
	    case 5: r = -a; break;
	    }
	}
      catch (std::domain_error const &err)
	{
	  thrown = true;
	  what = err.what ();
	}

      if (expect_err)
	{
	  if (! thrown)
	    return "expected an error, got " + str128 (val (r));
	  if ((op == 3 || op == 4) && y == 0
	      && what.find ("division by zero") == std::string::npos)
	    return "division by zero reported as: " + what;
	  return "";
	}
      if (thrown)
	return "expected " + str128 (e) + ", got error: " + what;
      // Internal consistency of the result representation.
      if (r.m_sign == signedness::unsign && false)
	return "";
      if (val (r) != e)
	return "expected " + str128 (e) + ", got " + str128 (val (r));
      return "";
    }

  if (op <= 11)
    {
      bool e, g;
      switch (op)
	{
	case 6: e = x < y; g = a < b; break;
	case 7: e = x > y; g = a > b; break;
	case 8: e = x <= y; g = a <= b; break;
	case 9: e = x >= y; g = a >= b; break;
	case 10: e = x == y; g = a == b; break;
	default: e = x != y; g = a != b; break;
	}
      if (e != g)
	return std::string ("comparison expected ") + (e ? "true" : "false");
      return "";
    }

  // print
  std::stringstream ss;
  ss << a;
  if (ss.str () != str128 (x))
    return "printed as " + ss.str ();
  return "";
}

static std::vector <operand>
lattice ()
{
  std::set <std::pair <uint64_t, bool>> s;
  auto add = [&] (i128 v)
    {
      if (v < LO || v > HI)
	return;
      if (v < 0)
	s.insert ({(uint64_t) (int64_t) v, true});
      else
	{
	  s.insert ({(uint64_t) v, false});
	  if (v <= (i128) INT64_MAX)
	    s.insert ({(uint64_t) v, true});
	}
    };
  for (int d = -3; d <= 3; ++d)
    {
      add (d);
      add ((i128) INT64_MIN + d);
      add ((i128) INT64_MAX + d);
      add ((i128) UINT64_MAX + d);
      add ((i128) UINT32_MAX + d);
      add ((i128) INT32_MIN + d);
      for (int k = 0; k <= 64; ++k)
	{
	  add (((i128) 1 << k) + d);
	  add (-((i128) 1 << k) + d);
	}
    }
  // A few "ordinary" values and factors of 2^64-1, 2^63.
  for (i128 v: {(i128) 10, (i128) 15, (i128) 100, (i128) 1000003, (i128) 6700417,
		(i128) 641, (i128) 4294967295LL, (i128) 4294967297LL,
		(i128) 3037000499LL, (i128) 3037000500LL, (i128) 6074001000LL,
		(i128) 4294967296LL * 3, (i128) 0x5555555555555555LL,
		(i128) 0xAAAAAAAAAAAAAAAALL})
    {
      add (v);
      add (-v);
    }
  std::vector <operand> out;
  for (auto const &p: s)
    out.push_back ({p.first, p.second});
  return out;
}

static int
do_lattice ()
{
  auto L = lattice ();
  unsigned long evals = 0, nontriv = 0, bad = 0;
  std::vector <std::string> samples;
  for (auto const &a: L)
    for (auto const &b: L)
      for (int op = 0; op < NOPS; ++op)
	{
	  if ((op == 5 || op == 12) && &b != &L[0])
	    continue;	// unary: once per a
	  bool nt = false;
	  std::string r = check (op, a, b, &nt);
	  ++evals;
	  if (nt)
	    ++nontriv;
	  if (nt && samples.size () < 8 && (evals % 99991) == 7)
	    samples.push_back (show (a) + " " + OPS[op] + " " + show (b));
	  if (! r.empty ())
	    {
	      if (bad < 25)
		printf ("VIOL %s %" PRIu64 " %d %" PRIu64 " %d :: %s %s %s: %s\n", OPS[op],
			a.bits, (int) a.sign, b.bits, (int) b.sign,
			show (a).c_str (), OPS[op], show (b).c_str (), r.c_str ());
	      ++bad;
	    }
	}
  printf ("LATTICE %zu\nEVAL %lu\nNONTRIVIAL %lu\nBAD %lu\n", L.size (), evals, nontriv, bad);
  for (auto const &s: samples)
    printf ("SAMPLE %s\n", s.c_str ());
  return bad ? 1 : 0;
}

static unsigned long g_rand_evals, g_rand_nontriv;

static int
do_random (int cases)
{
  // Biased generator: uniform 64-bit patterns are almost never near a boundary, so mix in
  // values of the form 2^k + d and small values.
  auto gen_operand = rc::gen::map
    (rc::gen::tuple (rc::gen::arbitrary <uint64_t> (), rc::gen::arbitrary <bool> (),
		     rc::gen::inRange (0, 8), rc::gen::inRange (0, 65), rc::gen::inRange (-4, 5)),
     [] (std::tuple <uint64_t, bool, int, int, int> t) -> operand
     {
       uint64_t bits = std::get <0> (t);
       bool sign = std::get <1> (t);
       int mode = std::get <2> (t);
       int k = std::get <3> (t);
       int d = std::get <4> (t);
       if (mode <= 2)
	 {
	   i128 v = ((i128) 1 << k) + d;
	   if (mode == 2)
	     v = -v;
	   if (v < LO) v = LO;
	   if (v > HI) v = HI;
	   if (v < 0)
	     return operand {(uint64_t) (int64_t) v, true};
	   return operand {(uint64_t) v, sign && v <= (i128) INT64_MAX};
	 }
       if (mode == 3)
	 bits &= 0xffff;
       if (mode == 4)
	 bits >>= (k % 64);
       return operand {bits, sign};
     });

  bool ok = rc::check ("int.cc agrees with 128-bit arithmetic",
		       [&] ()
		       {
			 operand a = *gen_operand;
			 operand b = *gen_operand;
			 int op = *rc::gen::inRange (0, (int) NOPS);
			 bool nt = false;
			 std::string r = check (op, a, b, &nt);
			 ++g_rand_evals;
			 if (nt)
			   ++g_rand_nontriv;
			 RC_CLASSIFY (nt, "non-trivial");
			 if (! r.empty ())
			   RC_FAIL (std::string ("VIOL ") + OPS[op] + " "
				    + std::to_string (a.bits) + " " + std::to_string ((int) a.sign) + " "
				    + std::to_string (b.bits) + " " + std::to_string ((int) b.sign)
				    + " :: " + show (a) + " " + OPS[op] + " " + show (b) + ": " + r);
		       });
  printf ("EVAL %lu\nNONTRIVIAL %lu\n", g_rand_evals, g_rand_nontriv);
  return ok ? 0 : 1;
}

int
main (int argc, char **argv)
{
  if (argc >= 2 && strcmp (argv[1], "lattice") == 0)
    return do_lattice ();
  if (argc >= 3 && strcmp (argv[1], "random") == 0)
    return do_random (atoi (argv[2]));
  if (argc >= 7 && strcmp (argv[1], "one") == 0)
    {
      int op = -1;
      for (int i = 0; i < NOPS; ++i)
	if (strcmp (OPS[i], argv[2]) == 0)
	  op = i;
      if (op < 0)
	return 3;
      operand a {strtoull (argv[3], nullptr, 10), atoi (argv[4]) != 0};
      operand b {strtoull (argv[5], nullptr, 10), atoi (argv[6]) != 0};
      bool nt;
      std::string r = check (op, a, b, &nt);
      printf ("%s %s %s: %s\n", show (a).c_str (), OPS[op], show (b).c_str (),
	      r.empty () ? "ok" : r.c_str ());
      return r.empty () ? 0 : 1;
    }
  fprintf (stderr, "usage: h_int lattice | random N | one OP A SA B SB\n");
  return 3;
}
