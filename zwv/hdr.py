"""Independent parse of the system headers: numeric values of DW_* and ELF constants."""
import re

_cache = {}


def dwarf_constants():
    """{name: value} for every enumerator in /usr/include/dwarf.h."""
    if "dw" in _cache:
        return _cache["dw"]
    txt = open("/usr/include/dwarf.h").read()
    txt = re.sub(r"/\*.*?\*/", "", txt, flags=re.S)
    out = {}
    for m in re.finditer(r"\b(DW_[A-Za-z0-9_]+)\s*=\s*(0x[0-9a-fA-F]+|\d+)", txt):
        out[m.group(1)] = int(m.group(2), 0)
    _cache["dw"] = out
    return out


def elf_constants():
    if "elf" in _cache:
        return _cache["elf"]
    txt = open("/usr/include/elf.h").read()
    txt = re.sub(r"/\*.*?\*/", "", txt, flags=re.S)
    out = {}
    for m in re.finditer(r"^#\s*define\s+((?:STT|STB|STV|EM|SHN)_[A-Za-z0-9_]+)\s+(0x[0-9a-fA-F]+|\d+)\s*$", txt, re.M):
        out[m.group(1)] = int(m.group(2), 0)
    _cache["elf"] = out
    return out
