"""Independent parse of the system headers: numeric values of DW_* and ELF constants."""
import re

_cache = {}


def dwarf_constants():
    """{name: value} for every enumerator in /usr/include/dwarf.h."""
    if "dw" in _cache:
        return _cache["dw"]
    txt = open("/usr/include/dwarf.h").read()
    txt = re.sub(r"/\*.*?\*/", "", txt, flags=re.S)
    out = {}
    for m in re.finditer(r"\b(DW_[A-Za-z0-9_]+)\s*=\s*(0x[0-9a-fA-F]+|\d+)", txt):
        out[m.group(1)] = int(m.group(2), 0)
    _cache["dw"] = out
    return out


def elf_constants():
    if "elf" in _cache:
        return _cache["elf"]
    txt = open("/usr/include/elf.h").read()
    txt = re.sub(r"/\*.*?\*/", "", txt, flags=re.S)
    out = {}
    for m in re.finditer(r"^#\s*define\s+((?:STT|STB|STV|EM|SHN)_[A-Za-z0-9_]+)\s+(0x[0-9a-fA-F]+|\d+)\s*$", txt, re.M):
        out[m.group(1)] = int(m.group(2), 0)
    # #define STT_HP_OPAQUE (STT_LOOS + 0x1)
    for m in re.finditer(r"^#\s*define\s+((?:STT|STB|STV)_[A-Za-z0-9_]+)\s+\(\s*([A-Z_0-9]+)\s*\+\s*(0x[0-9a-fA-F]+|\d+)\s*\)\s*$", txt, re.M):
        if m.group(2) in out:
            out[m.group(1)] = out[m.group(2)] + int(m.group(3), 0)
    # #define STT_ARM_TFUNC STT_LOPROC
    for _ in range(3):
        for m in re.finditer(r"^#\s*define\s+((?:STT|STB|STV)_[A-Za-z0-9_]+)\s+((?:STT|STB|STV)_[A-Za-z0-9_]+)\s*$", txt, re.M):
            if m.group(2) in out and m.group(1) not in out:
                out[m.group(1)] = out[m.group(2)]
    _cache["elf"] = out
    return out
