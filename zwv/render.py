"""AST -> Zwerg source text.  Canonical rendering plus hooks for notation variants (C15)."""

ATOMIC = ("lit", "str", "word", "read", "elist", "cap", "sub", "scope", "block", "star", "plus", "opt")


def render_int(value, dom, style=0):
    neg = value < 0
    m = -value if neg else value
    if dom == "dec" or dom == "pos":
        body = str(m)
    elif dom == "hex":
        body = ("0x%x", "0X%X", "0x%X")[style % 3] % m
    elif dom == "oct":
        body = ("0o%o", "0%o", "0O%o")[style % 3] % m
        if style % 3 == 1 and m == 0:
            body = "00"
    elif dom == "bin":
        body = ("0b", "0B")[style % 2] + bin(m)[2:]
    else:
        raise ValueError(dom)
    return ("-" if neg else "") + body


_SIMPLE = {0x07: "\\a", 0x08: "\\b", 0x1b: "\\e", 0x09: "\\t", 0x0a: "\\n", 0x0b: "\\v", 0x0c: "\\f", 0x0d: "\\r"}


def esc_bytes(data, style=0):
    """Render bytes inside a non-raw string literal.
    style 0: readable; 1: three-digit octal escapes for non-printables; 2: \\xNN for everything;
    3: three-digit octal for everything; 4: as 0 here -- the string renderer then shortens octal escapes
    to one or two digits where the next character allows it; 5: \\xNN with upper-case digits for everything;
    6: \\xNN with digits of either case."""
    out = []
    for b in data:
        if b == 0x22:
            out.append('\\"')
        elif b == 0x5c:
            out.append("\\\\")
        elif b == 0x25:
            out.append("%%")
        elif style == 3:
            out.append("\\%03o" % b)
        elif style == 2:
            out.append("\\x%02x" % b)
        elif style == 5:
            out.append("\\x%02X" % b)
        elif style == 6:
            h = "%02x" % b
            out.append("\\x" + (h[0].upper() if (b + len(out)) % 2 else h[0]) + (h[1] if (b + len(out)) % 3 else h[1].upper()))
        elif 0x20 <= b < 0x7f:
            out.append(chr(b))
        elif style == 1:
            out.append("\\%03o" % b)
        elif b in _SIMPLE:
            out.append(_SIMPLE[b])
        else:
            out.append("\\x%02x" % b)
    return "".join(out)


SUGAR = {
    (): "%s",
}


def _is_word(n, name):
    return n[0] == "word" and n[1] == name


def splice_sugar(node):
    """%s %d %x %o %b if NODE is exactly their documented expansion, else None."""
    if node == ("nop",) or node == ("cat", []):
        return "%s"
    if _is_word(node, "value"):
        return "%d"
    if node[0] == "cat" and len(node[1]) == 2 and _is_word(node[1][0], "value"):
        w = node[1][1]
        for nm, d in (("hex", "%x"), ("oct", "%o"), ("bin", "%b")):
            if _is_word(w, nm):
                return d
    return None


class Renderer:
    """opts: dict of notation switches; all default to the canonical form.

    sugar:    use %s/%d/... where applicable (default True)
    intstyle: radix-prefix variant
    escstyle: escape variant for string bytes
    ws:       callable(i) -> whitespace/comment string inserted between tokens
    parens:   wrap every plain sub-expression of a cat in redundant parentheses
    split:    split string literals with "\\ " continuation at given chunk size
    nops:     callable() -> list of spellings of the empty expression ("()", "(() ())") inserted between the
              statements of every concatenation
    """

    def __init__(self, **opts):
        self.o = opts
        self.ntok = 0
        self.in_splice = 0

    def sp(self):
        ws = self.o.get("ws")
        self.ntok += 1
        if ws:
            try:
                return ws(self.ntok, self.in_splice)
            except TypeError:
                return ws(self.ntok)
        return " "

    def r(self, n):
        k = n[0]
        return getattr(self, "r_" + k)(n)

    def wrap(self, n, allowed):
        s = self.r(n)
        if n[0] in allowed:
            return s
        return "(" + s + ")"

    def stmt(self, n):
        """Render N so that it parses as one Statement."""
        s = self.r(n)
        if n[0] in ATOMIC or (n[0] == "cat" and len(n[1]) == 1 and n[1][0][0] in ATOMIC):
            return s
        return "(" + s + ")"

    def r_nop(self, n):
        return ""

    def r_lit(self, n):
        return render_int(n[1], n[2], self.o.get("intstyle", 0))

    def r_word(self, n):
        return n[1]

    def r_read(self, n):
        return n[1]

    def r_elist(self, n):
        return "[]"

    def r_str(self, n):
        """n[2]: False -- an ordinary literal; True -- a raw literal (r"..."; "works the same as normal formatting
        strings, but escape sequences are left intact": %% and the directives keep their meaning); "mixed" --
        a continued literal whose segments are alternately raw and ordinary ("a"\ r"b"\ "c")."""
        parts, raw = n[1], n[2]
        st = self.o.get("escstyle", 0)
        atoms = []          # (text inside a raw segment, text inside an ordinary segment); never split inside one
        for pi, p in enumerate(parts):
            if isinstance(p, bytes):
                i = 0
                while i < len(p):
                    # in a raw segment a backslash and the byte after it are lexed (and kept) as a pair
                    k = 2 if (raw and p[i] == 0x5c and i + 1 < len(p)) else 1
                    piece = p[i:i + k]
                    plain = "".join(esc_bytes(piece[j:j + 1], st) for j in range(len(piece)))
                    if st == 4 and k == 1 and (piece[0] < 0x20 or piece[0] >= 0x7f):
                        # the shortest octal escape (\0, \7, \12, \177) wherever no octal digit follows it
                        nxt = p[i + 1] if i + 1 < len(p) else None
                        last_of_part = nxt is None and (pi + 1 >= len(parts) or not isinstance(parts[pi + 1], bytes))
                        if last_of_part or (nxt is not None and 0x20 <= nxt < 0x7f and chr(nxt) not in "01234567"):
                            plain = "\\%o" % piece[0]
                        else:
                            plain = "\\%03o" % piece[0]
                    atoms.append(("".join("%%" if b == 0x25 else chr(b) for b in piece), plain))
                    i += k
            else:
                sug = splice_sugar(p) if self.o.get("sugar", True) else None
                if sug:
                    atoms.append((sug, sug))
                else:
                    self.in_splice += 1
                    try:
                        t = "%(" + self.sp() + self.r(p) + self.sp() + "%)"
                    finally:
                        self.in_splice -= 1
                    atoms.append((t, t))
        split = self.o.get("split")
        if raw == "mixed" and not split:
            split = lambda i: i % 2 == 0
        segs = [[]]
        for i, a in enumerate(atoms):
            if i and split and len(atoms) > 1 and split(i):
                segs.append([])
            segs[-1].append(a)
        out = ""
        for k, seg in enumerate(segs):
            israw = raw is True or (raw == "mixed" and k % 2 == self.o.get("mixphase", 0))
            if k:
                out += '"\\' + self.o.get("splitws", " ")
            out += ('r"' if israw else '"') + "".join(a[0 if israw else 1] for a in seg)
        return out + '"'

    def r_cat(self, n):
        parts = []
        nf = self.o.get("nops")     # callable() -> list of empty-expression spellings to insert here
        for c in n[1]:
            if nf:
                parts.extend(nf())
            if c[0] in ("alt", "or", "infix"):
                s = "(" + self.r(c) + ")"
            elif self.o.get("parens") and c[0] not in ("let",):
                s = "(" + self.r(c) + ")"
            else:
                s = self.r(c)
            if s != "":
                parts.append(s)
        if nf and n[1]:
            parts.extend(nf())
        out = ""
        for i, p in enumerate(parts):
            if i:
                out += self.sp()
            out += p
        return out

    def r_alt(self, n):
        parts = ["(" + self.r(c) + ")" if c[0] == "alt" else self.r(c) for c in n[1]]
        return (self.sp() + "," + self.sp()).join(parts)

    def r_or(self, n):
        parts = ["(" + self.r(c) + ")" if c[0] in ("alt", "or") else self.r(c) for c in n[1]]
        return (self.sp() + "||" + self.sp()).join(parts)

    def r_infix(self, n):
        def side(c):
            if c[0] in ("alt", "or", "infix"):
                return "(" + self.r(c) + ")"
            return self.r(c)
        return side(n[1]) + self.sp() + n[2] + self.sp() + side(n[3])

    def ids(self, ids):
        if not ids:
            return ""
        return "|" + " ".join(ids) + "|" + self.sp()

    def r_cap(self, n):
        body = self.r(n[2])
        if body == "" and not n[1]:
            body = "()"
        return "[" + self.ids(n[1]) + body + "]"

    def r_sub(self, n):
        return ("?(" if n[1] else "!(") + self.ids(n[2]) + self.r(n[3]) + ")"

    def r_let(self, n):
        return "let " + " ".join(n[1]) + self.sp() + ":=" + self.sp() + self.r(n[2]) + self.sp() + ";"

    def r_scope(self, n):
        return "(" + self.ids(n[1]) + self.r(n[2]) + ")"

    def r_if(self, n):
        return ("if" + self.sp() + self.stmt_or_paren(n[1]) + self.sp() + "then" + self.sp()
                + self.stmt_or_paren(n[2]) + self.sp() + "else" + self.sp() + self.stmt_or_paren(n[3]))

    def stmt_or_paren(self, n):
        s = self.r(n)
        # A postfix * + ? would bind to the branch; and `if` itself is greedy.
        if n[0] in ("lit", "str", "word", "read", "elist", "cap", "sub", "scope", "block"):
            return s
        return "(" + s + ")"

    def postfix(self, n, op):
        inner = n[1]
        s = self.r(inner)
        if inner[0] in ("word", "read", "lit", "str", "elist", "cap", "sub", "scope", "block"):
            return s + op
        return "(" + s + ")" + op

    def r_star(self, n):
        return self.postfix(n, "*")

    def r_plus(self, n):
        return self.postfix(n, "+")

    def r_opt(self, n):
        return self.postfix(n, "?")

    def r_block(self, n):
        return n[1] + "{" + self.ids(n[2]) + self.r(n[3]) + "}"


def render(node, **opts):
    return Renderer(**opts).r(node)
