"""Reference interpreter of the Zwerg core language.

Written from doc/syntax.rst and the docstrings of the core vocabulary (init.cc,
value-*.cc, builtin-*.cc), not from op.cc.  A direct list-monad semantics over
*streams*: ev(node, items) maps a list of (stack, env) items to a Stream of
such items.  The stream carries an `ordered` flag: the documentation fixes the
order of results only for a construct fed one stack, so the flag is cleared
where the engine may legally interleave (an ALT-list fed more than one stack,
closures, format strings whose splices do not yield exactly once).

Values carry `pos` (None = not fixed by the documentation).  Things the
documentation leaves open raise Inconclusive; the caller counts and drops
those cases.
"""
import re

I64_MIN = -(1 << 63)
U64_MAX = (1 << 64) - 1

ARITH = ("dec", "hex", "oct", "bin", "pos")
PLAIN = ("dec", "pos")


class Inconclusive(Exception):
    pass


class CompileError(Exception):
    def __init__(self, kind, name=None):
        Exception.__init__(self, "%s %s" % (kind, name))
        self.kind = kind
        self.name = name


class HardError(Exception):
    pass


# ---------------------------------------------------------------- values

class VConst:
    __slots__ = ("value", "dom", "pos", "force_signed", "via_clone")
    t = "c"

    def __init__(self, value, dom="dec", pos=0, force_signed=False):
        self.value = value
        self.dom = dom
        self.pos = pos
        self.force_signed = force_signed
        self.via_clone = False      # input stacks only: position given through zw_value_clone

    def with_pos(self, pos):
        return VConst(self.value, self.dom, pos)

    def __repr__(self):
        return "C(%d,%s,p%s)" % (self.value, self.dom, self.pos)


class VStr:
    __slots__ = ("data", "pos", "via_clone")
    t = "s"

    def __init__(self, data, pos=0):
        self.data = data
        self.pos = pos
        self.via_clone = False

    def with_pos(self, pos):
        return VStr(self.data, pos)

    def __repr__(self):
        return "S(%r,p%s)" % (self.data, self.pos)


class VSeq:
    __slots__ = ("items", "pos", "bag")
    t = "q"

    def __init__(self, items, pos=0, bag=False):
        self.items = list(items)
        self.pos = pos
        self.bag = bag

    def with_pos(self, pos):
        return VSeq(self.items, pos, self.bag)

    def __repr__(self):
        return "Q(%r,p%s%s)" % (self.items, self.pos, ",bag" if self.bag else "")


class VClosure:
    __slots__ = ("body", "env", "pos", "ids", "kind")
    t = "k"

    def __init__(self, body, env, ids, kind, pos=0):
        self.body = body
        self.env = env
        self.ids = ids
        self.kind = kind
        self.pos = pos

    def with_pos(self, pos):
        return VClosure(self.body, self.env, self.ids, self.kind, pos)

    def __repr__(self):
        return "K(p%s)" % (self.pos,)


TYPE_NAMES = {"c": "T_CONST", "s": "T_STR", "q": "T_SEQ", "k": "T_CLOSURE"}


def is_arith(dom):
    return dom in ARITH


def in_range(v):
    return I64_MIN <= v <= U64_MAX


# ------------------------------------------------ comparison (documented)

def cmp_values(a, b):
    """-1/0/1 for same-typed values; Inconclusive where the order is not documented."""
    if a.t != b.t:
        raise Inconclusive("order across types")
    if a.t == "c":
        if is_arith(a.dom) and is_arith(b.dom):
            return (a.value > b.value) - (a.value < b.value)
        if a.dom == b.dom:
            return (a.value > b.value) - (a.value < b.value)
        raise Inconclusive("order across unrelated domains")
    if a.t == "s":
        return (a.data > b.data) - (a.data < b.data)
    if a.t == "q":
        if a.bag or b.bag:
            raise Inconclusive("bag compared")
        if len(a.items) != len(b.items):
            return (len(a.items) > len(b.items)) - (len(a.items) < len(b.items))
        if any(x.t != y.t for x, y in zip(a.items, b.items)):
            raise Inconclusive("order of sequences with differently typed elements")
        for x, y in zip(a.items, b.items):
            c = cmp_values(x, y)
            if c:
                return c
        return 0
    raise Inconclusive("closure compared")


def eq_values(a, b):
    """Equality is documented more widely than order."""
    if a.t != b.t:
        return False
    if a.t == "c":
        if is_arith(a.dom) and is_arith(b.dom):
            return a.value == b.value
        if a.dom == b.dom:
            return a.value == b.value
        return False
    if a.t == "s":
        return a.data == b.data
    if a.t == "q":
        if a.bag or b.bag:
            raise Inconclusive("bag compared")
        if len(a.items) != len(b.items):
            return False
        return all(eq_values(x, y) for x, y in zip(a.items, b.items))
    raise Inconclusive("closure compared")


# ------------------------------------------------------------ rendering

def render_const(value, dom):
    """Full-form rendering of a constant (what "%s" and the CLI print)."""
    if dom in ("dec", "pos"):
        return str(value)
    neg = value < 0
    m = -value if neg else value
    if dom == "hex":
        body = "0x%x" % m if m else "0"
    elif dom == "oct":
        body = "0%o" % m if m else "0"
    elif dom == "bin":
        body = "0b" + bin(m)[2:] if m else "0"
    elif dom == "bool":
        return "true" if value != 0 else "false"
    elif dom == "T_*":
        for k, n in (("c", 2), ("s", 3), ("q", 4), ("k", 5)):
            pass
        raise Inconclusive("slot type rendering")
    else:
        raise Inconclusive("rendering of domain " + dom)
    return ("-" if neg and m else "") + body


def show_value(v):
    """String conversion used by format strings (value::show)."""
    if v.t == "c":
        if v.dom == "T_*":
            return {2: b"T_CONST", 3: b"T_STR", 4: b"T_SEQ", 5: b"T_CLOSURE"}.get(v.value) or _inc("slot type")
        return render_const(v.value, v.dom).encode()
    if v.t == "s":
        return v.data
    if v.t == "q":
        if v.bag:
            raise Inconclusive("bag rendered")
        out = []
        for e in v.items:
            s = show_value(e)
            out.append(s if isinstance(s, bytes) else s.encode())
        return b"[" + b", ".join(out) + b"]"
    raise Inconclusive("closure rendered")


def _inc(msg):
    raise Inconclusive(msg)


# ---------------------------------------------------------------- streams

class Stream:
    __slots__ = ("items", "ordered")

    def __init__(self, items, ordered=True):
        self.items = items
        self.ordered = ordered


class Ctx:
    """Per-run bookkeeping: soft errors, labels, budget."""

    def __init__(self, budget=200000):
        self.soft_certain = 0
        self.soft_maybe = 0
        self.lazy = 0
        self.labels = {}
        self.budget = budget
        self.fed = {}       # id(node) -> max number of stacks fed at once
        self.feeds = {}     # id(node) -> total number of stacks fed
        self.varied = set() # id(node) of nodes that yielded != 1 times for some input
        self.word_unordered = False

    def soft(self, what):
        if self.lazy:
            self.soft_maybe += 1
        else:
            self.soft_certain += 1
        self.label("soft:" + what)

    def label(self, l):
        self.labels[l] = self.labels.get(l, 0) + 1

    def tick(self, n=1):
        self.budget -= n
        if self.budget < 0:
            raise Inconclusive("model budget")


# ------------------------------------------------------------------ AST
# Nodes are tuples: (kind, ...).  See gen.py/render.py for construction.
#   ("lit", value, dom)              integer literal
#   ("str", [part...], raw)          part = bytes | node (splice)
#   ("word", name)
#   ("cat", [nodes])
#   ("alt", [nodes])
#   ("or", [nodes])
#   ("cap", ids, node)               [|ids| node]
#   ("elist",)                       []
#   ("sub", positive, ids, node)     ?(|ids| node) / !( )
#   ("infix", lhs, op, rhs)
#   ("let", ids, node)
#   ("scope", ids, node)             (|ids| node); ids == () => plain parens
#   ("if", c, t, e)
#   ("star", node) ("plus", node) ("opt", node)
#   ("block", kind, ids, node)       kind in "", "?", "!"
#   ("read", name)
#   ("nop",)

INFIX_WORD = {"==": "?eq", "!=": "?ne", "<": "?lt", "<=": "?le", ">": "?gt", ">=": "?ge",
              "=~": "?match", "!~": "!match"}

CMP_WORDS = {
    "?eq": ("eq", True), "!eq": ("eq", False), "?ne": ("eq", False), "!ne": ("eq", True),
    "?lt": ("lt", True), "!lt": ("lt", False), "?ge": ("lt", False), "!ge": ("lt", True),
    "?gt": ("gt", True), "!gt": ("gt", False), "?le": ("gt", False), "!le": ("gt", True),
    "==": ("eq", True), "!=": ("eq", False), "<": ("lt", True), ">=": ("lt", False),
    ">": ("gt", True), "<=": ("gt", False),
}

BUILTIN_NAMES = set("""add sub mul div mod length elem relem value hex dec oct bin type pos
dup over swap rot drop apply true false T_CONST T_STR T_SEQ T_CLOSURE
?empty !empty ?find !find ?starts !starts ?ends !ends ?match !match =~ !~""".split()) | set(CMP_WORDS)


# --------------------------------------------------- static scope checking

_ERRORS = None


def all_scope_errors(node):
    """Every (kind, name) scope error of NODE, in a fixed traversal order."""
    global _ERRORS
    _ERRORS = []
    try:
        _scopes(node, [set()])
        return list(_ERRORS)
    finally:
        _ERRORS = None


def check_scopes(node, bound_chain=None):
    """Raise CompileError for unbound reads / rebinding, per syntax.rst.

    bound_chain: list of sets, innermost last.  `let` exports into the innermost
    scope of its context."""
    if bound_chain is None:
        bound_chain = [set()]
    _scopes(node, bound_chain)


def _bind(chain, name):
    if name in chain[-1]:
        if _ERRORS is not None:
            _ERRORS.append(("rebound", name))
            return
        raise CompileError("rebound", name)
    chain[-1].add(name)


def _bind_ids(chain, ids):
    # tree_for_id_block binds the rightmost identifier first.
    for n in reversed(ids):
        _bind(chain, n)


def _scopes(node, chain):
    k = node[0]
    if k in ("lit", "elist", "nop"):
        return
    if k == "word":
        return
    if k == "read":
        name = node[1]
        if any(name in s for s in chain):
            return
        if name in BUILTIN_NAMES:
            return
        if _ERRORS is not None:
            _ERRORS.append(("unbound", name))
            return
        raise CompileError("unbound", name)
    if k == "str":
        for p in node[1]:
            if not isinstance(p, bytes):
                _scopes(p, chain)       # plain context, no scope
        return
    if k == "cat":
        for c in node[1]:
            _scopes(c, chain)
        return
    if k in ("alt", "or"):
        for c in node[1]:
            _scopes(c, chain + [set()])
        return
    if k == "opt":
        _scopes(node[1], chain + [set()])
        return
    if k == "cap":
        inner = chain + [set()]
        _bind_ids(inner, node[1])
        _scopes(node[2], inner + [set()])
        return
    if k == "sub":
        inner = chain + [set()]
        _bind_ids(inner, node[2])
        _scopes(node[3], inner)
        return
    if k == "infix":
        _scopes(node[1], chain + [set()])
        _scopes(node[3], chain + [set()])
        return
    if k == "let":
        _scopes(node[2], chain + [set()])
        _bind_ids(chain, node[1])
        return
    if k == "scope":
        if node[1]:
            inner = chain + [set()]
            _bind_ids(inner, node[1])
            _scopes(node[2], inner)
        else:
            _scopes(node[2], chain)
        return
    if k == "if":
        for c in node[1:4]:
            _scopes(c, chain + [set()])
        return
    if k in ("star", "plus"):
        _scopes(node[1], chain + [set()])
        return
    if k == "block":
        inner = chain + [set()]
        _bind_ids(inner, node[2])
        _scopes(node[3], inner)
        return
    raise ValueError("unknown node " + repr(k))


# --------------------------------------------------------------- evaluator

def need(stk, n):
    if len(stk) < n:
        raise HardError("stack underflow")


def ev(node, items, ctx):
    """items: list of (stack tuple, env dict).  Returns Stream."""
    ctx.tick(1 + len(items))
    k = node[0]
    fn = _EV[k]
    nid = id(node)
    ctx.fed[nid] = max(ctx.fed.get(nid, 0), len(items))
    ctx.feeds[nid] = ctx.feeds.get(nid, 0) + len(items)
    res = fn(node, items, ctx)
    if len(res.items) != len(items):
        ctx.varied.add(nid)
    return res


def _each(node, items, ctx, f, ordered=True):
    out = []
    for stk, env in items:
        out.extend(f(stk, env))
    return Stream(out, ordered)


def ev_lit(node, items, ctx):
    v = VConst(node[1], node[2], 0)
    return Stream([(stk + (v,), env) for stk, env in items])


def ev_elist(node, items, ctx):
    return Stream([(stk + (VSeq([], 0),), env) for stk, env in items])


def ev_nop(node, items, ctx):
    return Stream(list(items))


def ev_cat(node, items, ctx):
    s = Stream(list(items))
    for c in node[1]:
        r = ev(c, s.items, ctx)
        s = Stream(r.items, s.ordered and r.ordered)
    return s


def ev_alt(node, items, ctx):
    # Fed one stack: alternatives left to right.  Fed several: the union, in
    # an order that is not fixed.
    out = []
    ordered = len(items) <= 1
    for it in items:
        for c in node[1]:
            r = ev(c, [it], ctx)
            ordered = ordered and r.ordered
            # Bindings made inside a branch do not leak: restore env.
            out.extend((stk, it[1]) for stk, _ in r.items)
    if len(items) > 1:
        ctx.label("alt-multi-input")
    return Stream(out, ordered)


def ev_opt(node, items, ctx):
    # E? is (E,)
    return ev_alt(("alt", [node[1], ("nop",)]), items, ctx)


def ev_or(node, items, ctx):
    out = []
    ordered = True
    for it in items:
        for c in node[1]:
            r = ev(c, [it], ctx)
            if r.items:
                ordered = ordered and r.ordered
                out.extend((stk, it[1]) for stk, _ in r.items)
                break
    return Stream(out, ordered)


def _pop_ids(stk, env, ids):
    need(stk, len(ids))
    env = dict(env)
    n = len(ids)
    if n:
        vals = stk[len(stk) - n:]
        stk = stk[:len(stk) - n]
        for name, v in zip(ids, vals):
            env[name] = v
    return stk, env


def ev_cap(node, items, ctx):
    ids, body = node[1], node[2]
    out = []
    for stk, env in items:
        s2, e2 = _pop_ids(stk, env, ids)
        r = ev(body, [(s2, e2)], ctx)
        elems = []
        for rs, _ in r.items:
            need(rs, 1)
            elems.append(rs[-1])
        out.append((s2 + (VSeq(elems, 0, bag=not r.ordered),), env))
    return Stream(out)


def ev_sub(node, items, ctx):
    positive, ids, body = node[1], node[2], node[3]
    out = []
    for stk, env in items:
        s2, e2 = _pop_ids(stk, env, ids)
        ctx.lazy += 1
        try:
            r = ev(body, [(s2, e2)], ctx)
        finally:
            ctx.lazy -= 1
        if bool(r.items) == positive:
            out.append((stk, env))
    return Stream(out)


def ev_infix(node, items, ctx):
    lhs, op, rhs = node[1], node[2], node[3]
    out = []
    for stk, env in items:
        ctx.lazy += 1
        try:
            ra = ev(lhs, [(stk, env)], ctx)
            rb = ev(rhs, [(stk, env)], ctx)
            hold = False
            for sa, _ in ra.items:
                need(sa, 1)
                for sb, _ in rb.items:
                    need(sb, 1)
                    if op in env:
                        raise Inconclusive("infix operator shadowed by a binding")
                    res = apply_pred(op, (sa[-1], sb[-1]), ctx)
                    if res is True:
                        hold = True
        finally:
            ctx.lazy -= 1
        if hold:
            out.append((stk, env))
    return Stream(out)


def ev_let(node, items, ctx):
    ids, body = node[1], node[2]
    out = []
    ordered = True
    for stk, env in items:
        r = ev(body, [(stk, env)], ctx)
        ordered = ordered and r.ordered
        for rs, _ in r.items:
            need(rs, len(ids))
            e2 = dict(env)
            vals = rs[len(rs) - len(ids):]
            for name, v in zip(ids, vals):
                e2[name] = v
            out.append((stk, e2))
    return Stream(out, ordered)


def ev_scope(node, items, ctx):
    ids, body = node[1], node[2]
    if not ids:
        return ev(body, items, ctx)   # plain parentheses: no scope
    pre = []
    for stk, env in items:
        s2, e2 = _pop_ids(stk, env, ids)
        pre.append((s2, e2, env))
    out = []
    ordered = True
    # Evaluate per input so that the outer environment can be restored.
    if len(pre) == 1:
        r = ev(body, [(pre[0][0], pre[0][1])], ctx)
        return Stream([(s, pre[0][2]) for s, _ in r.items], r.ordered)
    # Several inputs: the body is one pipeline fed a stream.
    r = ev(body, [(s2, dict(e2, **{"\0outer": outer})) for s2, e2, outer in pre], ctx)
    for s, e in r.items:
        out.append((s, e["\0outer"]))
    return Stream(out, r.ordered)


def ev_if(node, items, ctx):
    c, t, e = node[1], node[2], node[3]
    out = []
    ordered = True
    for stk, env in items:
        ctx.lazy += 1
        try:
            rc = ev(c, [(stk, env)], ctx)
        finally:
            ctx.lazy -= 1
        r = ev(t if rc.items else e, [(stk, env)], ctx)
        ordered = ordered and r.ordered
        out.extend((s, env) for s, _ in r.items)
    return Stream(out, ordered)


def stack_key(stk):
    """Key identifying a stack up to ==."""
    return tuple(value_key(v) for v in stk)


def value_key(v):
    if v.t == "c":
        if is_arith(v.dom):
            return ("c", "arith", v.value)
        return ("c", v.dom, v.value)
    if v.t == "s":
        return ("s", v.data)
    if v.t == "q":
        if v.bag:
            raise Inconclusive("bag in closure key")
        return ("q", tuple(value_key(e) for e in v.items))
    raise Inconclusive("closure in closure key")


def ev_closure(node, items, ctx, plus):
    body = node[1]
    out = []
    for stk, env in items:
        seen = {}
        order = []
        if plus:
            frontier = [s for s, _ in ev(body, [(stk, env)], ctx).items]
        else:
            frontier = [stk]
        work = []
        for s in frontier:
            kk = stack_key(s)
            if kk not in seen:
                seen[kk] = s
                order.append(s)
                work.append(s)
        while work:
            ctx.tick()
            cur = work.pop()
            for s, _ in ev(body, [(cur, env)], ctx).items:
                kk = stack_key(s)
                if kk not in seen:
                    seen[kk] = s
                    order.append(s)
                    work.append(s)
            if len(seen) > 5000:
                raise Inconclusive("closure too large")
        out.extend((s, env) for s in order)
    ctx.label("closure")
    # Which representative of an ==-class is yielded, and in which order, is
    # not documented.
    return Stream(out, False)


def ev_star(node, items, ctx):
    return ev_closure(node, items, ctx, False)


def ev_plus(node, items, ctx):
    return ev_closure(node, items, ctx, True)


def ev_str(node, items, ctx):
    parts = node[1]
    out = []
    ordered = True
    for stk, env in items:
        # Directives are resolved right to left; each may yield several times.
        partial = [(stk, env, b"")]
        for p in reversed(parts):
            if isinstance(p, bytes):
                partial = [(s, e, p + acc) for s, e, acc in partial]
                continue
            nxt = []
            for s, e, acc in partial:
                r = ev(p, [(s, e)], ctx)
                if len(r.items) != 1 or not r.ordered:
                    ordered = False
                for rs, re_ in r.items:
                    need(rs, 1)
                    txt = show_value(rs[-1])
                    nxt.append((rs[:-1], re_, txt + acc))
            partial = nxt
        n = 0
        for s, e, acc in partial:
            out.append((s + (VStr(acc, n if ordered else None),), env))
            n += 1
    return Stream(out, ordered)


def ev_block(node, items, ctx):
    kind, ids, body = node[1], node[2], node[3]
    return Stream([(stk + (VClosure(body, env, ids, kind, 0),), env) for stk, env in items])


def apply_closure(clo, stk, ctx):
    """Run closure CLO on stack STK; returns Stream of stacks."""
    env = dict(clo.env)
    if clo.kind == "":
        s2, e2 = _pop_ids(stk, env, clo.ids)
        return ev(clo.body, [(s2, e2)], ctx)
    # ?{...} / !{...}: the body is an assertion.
    s2, e2 = _pop_ids(stk, env, clo.ids)
    ctx.lazy += 1
    try:
        r = ev(clo.body, [(s2, e2)], ctx)
    finally:
        ctx.lazy -= 1
    if bool(r.items) == (clo.kind == "?"):
        return Stream([(stk, env)])
    return Stream([])


def ev_read(node, items, ctx):
    name = node[1]
    out = []
    ordered = True
    for stk, env in items:
        if name in env:
            v = env[name]
            if v.t == "k":
                r = apply_closure(v, stk, ctx)
                ordered = ordered and r.ordered
                out.extend((s, env) for s, _ in r.items)
            else:
                # Whether a read keeps the position of the bound value is not
                # documented.
                out.append((stk + (v.with_pos(None),), env))
        elif name in BUILTIN_NAMES:
            r = ev(("word", name), [(stk, env)], ctx)
            ordered = ordered and r.ordered
            out.extend(r.items)
        else:
            raise CompileError("unbound", name)
    return Stream(out, ordered)


# ------------------------------------------------------------------ words

def apply_pred(name, operands, ctx):
    """True / False / None (error: neither ?X nor !X holds)."""
    if name in CMP_WORDS:
        rel, want = CMP_WORDS[name]
        a, b = operands
        if a.t == "k" or b.t == "k":
            raise Inconclusive("closure compared")
        if rel == "eq":
            return eq_values(a, b) == want
        c = cmp_values(a, b)
        return ((c < 0) if rel == "lt" else (c > 0)) == want
    base = name.lstrip("?!")
    positive = name[0] == "?" or name == "=~"
    if name in ("=~", "!~"):
        base = "match"
    if base == "empty":
        (a,) = operands
        if a.t == "s":
            return (len(a.data) == 0) == positive
        if a.t == "q":
            return (len(a.items) == 0) == positive
        ctx.soft(name)
        return None
    a, b = operands
    if base in ("find", "starts", "ends"):
        if a.t == "s" and b.t == "s":
            hay, nee = a.data, b.data
            if base == "find":
                r = nee in hay
            elif base == "starts":
                r = hay.startswith(nee)
            else:
                r = hay.endswith(nee)
            return r == positive
        if a.t == "q" and b.t == "q":
            if a.bag or b.bag:
                raise Inconclusive("bag searched")
            hay, nee = a.items, b.items

            def eqs(x, y):
                if x.t == "k" or y.t == "k":
                    raise Inconclusive("closure compared")
                return eq_values(x, y)

            def at(i):
                return all(eqs(hay[i + j], nee[j]) for j in range(len(nee)))
            if len(nee) > len(hay):
                r = False
            elif base == "find":
                r = any(at(i) for i in range(len(hay) - len(nee) + 1))
            elif base == "starts":
                r = at(0)
            else:
                r = at(len(hay) - len(nee))
            return r == positive
        ctx.soft(name)
        return None
    if base == "match":
        if a.t == "s" and b.t == "s":
            if b"\0" in a.data or b"\0" in b.data:
                raise Inconclusive("NUL in regex operands")
            try:
                rx = re.compile(translate_ere(b.data), re.DOTALL)
            except re.error:
                raise Inconclusive("regex outside the common subset")
            return (rx.search(a.data) is not None) == positive
        ctx.soft(name)
        return None
    raise ValueError("unknown predicate " + name)


_ERE_OK = re.compile(rb"^[A-Za-z0-9 .*+?^$|()\[\]_-]*$")


def translate_ere(pat):
    """POSIX ERE (unanchored search, tests.sh pins this) -> Python re, for a subset on
    which both agree."""
    if not _ERE_OK.match(pat):
        raise Inconclusive("regex outside the common subset")
    if b"[" in pat or b"]" in pat or b"()" in pat or b"**" in pat or b"++" in pat \
            or b"*+" in pat or b"+*" in pat or b"??" in pat or b"*?" in pat or b"+?" in pat \
            or b"?*" in pat or b"?+" in pat or b"|*" in pat or b"(*" in pat or b"|+" in pat \
            or b"(+" in pat or b"|?" in pat or b"(?" in pat or b"^*" in pat or b"^+" in pat \
            or b"^?" in pat or b"$*" in pat or b"$+" in pat or b"$?" in pat or b"||" in pat \
            or b"(|" in pat or b"|)" in pat or pat.startswith((b"*", b"+", b"?", b"|")) \
            or pat.endswith(b"|") or b"{" in pat:
        raise Inconclusive("regex outside the common subset")
    return pat.replace(b"$", b"\\Z")


PRED_ARITY = {"empty": 1, "find": 2, "starts": 2, "ends": 2, "match": 2}


def ev_word(node, items, ctx):
    name = node[1]
    out = []
    ordered = True
    for stk, env in items:
        if name in env:
            # A binding named like a built-in word shadows it.
            r = ev_read(("read", name), [(stk, env)], ctx)
            ordered = ordered and r.ordered
            out.extend(r.items)
            continue
        ctx.word_unordered = False
        r = word1(name, stk, env, ctx)
        if ctx.word_unordered:
            ordered = False
        out.extend((s, env) for s in r)
    return Stream(out, ordered)


def _arith(name, a, b, ctx):
    if not (is_arith(a.dom) and is_arith(b.dom)):
        raise Inconclusive("arithmetic on named constants")
    x, y = a.value, b.value
    if name in ("div", "mod") and y == 0:
        ctx.soft("div0")
        return None
    if name == "add":
        r = x + y
    elif name == "sub":
        r = x - y
    elif name == "mul":
        r = x * y
    elif name == "div":
        r = x // y
    else:
        r = x - y * (x // y)
    if not in_range(r):
        ctx.soft("overflow")
        return None
    if a.dom in PLAIN:
        dom = b.dom
    elif b.dom in PLAIN or b.dom == a.dom:
        dom = a.dom
    else:
        raise Inconclusive("result domain of two different radix domains")
    if dom == "pos":
        # A "pos" constant is decimal for all documented purposes.
        pass
    return VConst(r, dom, 0)


def word1(name, stk, env, ctx):
    """Apply a core word to one stack; returns list of stacks."""
    if name in ("true", "false"):
        return [stk + (VConst(1 if name == "true" else 0, "bool", 0),)]
    if name in ("T_CONST", "T_STR", "T_SEQ", "T_CLOSURE"):
        code = {"T_CONST": 2, "T_STR": 3, "T_SEQ": 4, "T_CLOSURE": 5}[name]
        return [stk + (VConst(code, "T_*", 0),)]
    if name == "drop":
        need(stk, 1)
        return [stk[:-1]]
    if name == "dup":
        need(stk, 1)
        return [stk + (stk[-1].with_pos(None),)]
    if name == "over":
        need(stk, 2)
        return [stk + (stk[-2].with_pos(None),)]
    if name == "swap":
        need(stk, 2)
        return [stk[:-2] + (stk[-1], stk[-2])]
    if name == "rot":
        need(stk, 3)
        return [stk[:-3] + (stk[-2], stk[-1], stk[-3])]
    if name == "type":
        need(stk, 1)
        code = {"c": 2, "s": 3, "q": 4, "k": 5}[stk[-1].t]
        return [stk[:-1] + (VConst(code, "T_*", 0),)]
    if name == "pos":
        need(stk, 1)
        if stk[-1].pos is None:
            raise Inconclusive("pos of a value whose position is not documented")
        return [stk[:-1] + (VConst(stk[-1].pos, "pos", 0),)]
    if name and name[0] in "?!" and name[1:].isdigit():
        need(stk, 1)
        if stk[-1].pos is None:
            raise Inconclusive("?N on a value whose position is not documented")
        return [stk] if (stk[-1].pos == int(name[1:])) == (name[0] == "?") else []
    if name in ("hex", "dec", "oct", "bin"):
        need(stk, 1)
        v = stk[-1]
        if v.t != "c":
            ctx.soft(name)
            return []
        if v.dom == "T_*":
            raise Inconclusive("numeric value of a slot type constant")
        return [stk[:-1] + (VConst(v.value, name, 0),)]
    if name == "value":
        need(stk, 1)
        v = stk[-1]
        if v.t != "c":
            ctx.soft(name)
            return []
        if v.dom == "T_*":
            raise Inconclusive("numeric value of a slot type constant")
        return [stk[:-1] + (VConst(v.value, "dec", 0),)]
    if name == "length":
        need(stk, 1)
        v = stk[-1]
        if v.t == "s":
            return [stk[:-1] + (VConst(len(v.data), "dec", 0),)]
        if v.t == "q":
            return [stk[:-1] + (VConst(len(v.items), "dec", 0),)]
        ctx.soft(name)
        return []
    if name in ("elem", "relem"):
        need(stk, 1)
        v = stk[-1]
        if v.t == "s":
            chars = [v.data[i:i + 1] for i in range(len(v.data))]
            if name == "relem":
                chars.reverse()
            return [stk[:-1] + (VStr(c, i),) for i, c in enumerate(chars)]
        if v.t == "q":
            if v.bag:
                raise Inconclusive("elem of a bag")
            its = list(v.items)
            if name == "relem":
                its.reverse()
            return [stk[:-1] + (e.with_pos(i),) for i, e in enumerate(its)]
        ctx.soft(name)
        return []
    if name in ("add", "sub", "mul", "div", "mod"):
        need(stk, 2)
        a, b = stk[-2], stk[-1]
        if a.t == "c" and b.t == "c":
            r = _arith(name, a, b, ctx)
            return [] if r is None else [stk[:-2] + (r,)]
        if name == "add" and a.t == "s" and b.t == "s":
            return [stk[:-2] + (VStr(a.data + b.data, 0),)]
        if name == "add" and a.t == "q" and b.t == "q":
            if a.bag or b.bag:
                raise Inconclusive("bag concatenated")
            return [stk[:-2] + (VSeq(a.items + b.items, 0),)]
        ctx.soft(name)
        return []
    if name == "apply":
        need(stk, 1)
        v = stk[-1]
        if v.t != "k":
            ctx.soft(name)
            return []
        r = apply_closure(v, stk[:-1], ctx)
        if not r.ordered:
            ctx.word_unordered = True
        return [s for s, _ in r.items]
    if name in CMP_WORDS:
        need(stk, 2)
        res = apply_pred(name, (stk[-2], stk[-1]), ctx)
        return [stk] if res is True else []
    base = name.lstrip("?!")
    if name in ("=~", "!~"):
        base = "match"
    if base in PRED_ARITY:
        n = PRED_ARITY[base]
        need(stk, n)
        res = apply_pred(name, stk[len(stk) - n:], ctx)
        return [stk] if res is True else []
    raise ValueError("model: unknown word " + name)


_EV = {
    "lit": ev_lit, "elist": ev_elist, "nop": ev_nop, "cat": ev_cat, "alt": ev_alt,
    "or": ev_or, "opt": ev_opt, "cap": ev_cap, "sub": ev_sub, "infix": ev_infix,
    "let": ev_let, "scope": ev_scope, "if": ev_if, "star": ev_star, "plus": ev_plus,
    "str": ev_str, "block": ev_block, "read": ev_read, "word": ev_word,
}


def run(node, stack=(), budget=200000):
    """Evaluate NODE on one input stack.  Returns (Stream of stacks, ctx).

    Raises CompileError (scope errors), HardError (underflow), Inconclusive."""
    check_scopes(node)
    ctx = Ctx(budget)
    r = ev(node, [(tuple(stack), {})], ctx)
    return Stream([s for s, _ in r.items], r.ordered), ctx


STATEFUL = ("alt", "or", "cap", "sub", "infix", "let", "star", "plus", "opt", "if", "str")


def stateful_nested_refed(node, ctx):
    """C01's non-trivial rule: some construct with per-input state is nested inside another
    construct, was fed >= 2 stacks during the run, and yielded != 1 times for some input."""
    found = []

    def walk(n, nested):
        k = n[0]
        stateful = k in STATEFUL and not (k == "str" and all(isinstance(p, bytes) for p in n[1]))
        if stateful and nested and ctx.feeds.get(id(n), 0) >= 2 and id(n) in ctx.varied:
            found.append(k)
        inner = nested or stateful or k == "block" or (k == "scope" and n[1])
        for c in n[1:]:
            if isinstance(c, tuple) and c and isinstance(c[0], str) and c[0] in _EV:
                walk(c, inner)
            elif isinstance(c, list):
                for e in c:
                    if isinstance(e, tuple) and e and isinstance(e[0], str) and e[0] in _EV:
                        walk(e, inner)
    walk(node, False)
    return found
