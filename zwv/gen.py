"""Typed generator of well-formed Zwerg core programs (construction, not rejection).

Every fragment is generated against an abstract stack (a list of type tags) so
that the stack never underflows, branches of `,`/`||`/`if` have equal stack
effect and closure bodies have effect 0.  Type tags are hints that make most
programs meaningful; mismatches are deliberately produced with a small
probability (soft errors are part of the documented behaviour).

rnd is anything with randint/choice/random (random.Random, or Hypothesis's
st.randoms(use_true_random=False) so that shrinking and replay work).
"""

C, S, Q, U, N = "c", "s", "q", "u", "n"   # N: named constant (bool, T_*)


class Cfg:
    def __init__(self, **kw):
        self.max_depth = 4
        self.names = True
        self.blocks = True
        self.closures = True
        self.strings = True
        self.soft = 0.06
        self.scope_errors = 0.0
        self.match = True
        self.pos_words = True
        self.radix = True
        self.big_ints = 0.05
        self.name_weight = 1
        self.splice_escapes = False     # keep backslashes and quotes in string literals nested inside %( %)
        self.__dict__.update(kw)


INT_POOL = [0, 1, 2, 3, 5, 7, 10, -1, -2, 255]
BIG_POOL = [(1 << 63) - 1, 1 << 63, (1 << 64) - 1, -(1 << 63), (1 << 32), -(1 << 31)]
STR_POOL = [b"", b"a", b"ab", b"abc", b"ba", b"foo", b"foobar", b"bar", b"a\0b", b"\xff\x80", b"x%y", b'q"q', b"b\\s", b"\n",
            b"\\x41", b"\\101z", b"\\0", b"c\\t", b"\x01z", b"\x03", b"\x1f8", b"\x027", b"foo\\\nbar", b"\\\n", b"a\tb\\\nc"]
RE_POOL = [b"a", b"^a", b"b$", b"a.c", b"fo*", b"o+b", b"^$", b"ab|ba", b"(ab)+", b"x?y", b"^foo", b"."]
NAME_POOL = ["A", "B", "C", "X", "Y", "Z", "A", "B", "X", "add", "length", "T"]


class Scope:
    def __init__(self, parent=None):
        self.parent = parent
        self.names = {}

    def lookup(self, n):
        s = self
        while s is not None:
            if n in s.names:
                return s.names[n]
            s = s.parent
        return None

    def visible(self):
        out = {}
        s = self
        chain = []
        while s is not None:
            chain.append(s)
            s = s.parent
        for s in reversed(chain):
            out.update(s.names)
        return out


class Gen:
    def __init__(self, rnd, cfg=None):
        self.r = rnd
        self.cfg = cfg or Cfg()
        self.labels = {}
        self.fresh = 0
        self.no_let = 0
        self.expect_compile_error = None

    def label(self, l):
        self.labels[l] = self.labels.get(l, 0) + 1

    def chance(self, p):
        return self.r.random() < p

    # ---- values ---------------------------------------------------------
    def lit(self):
        if self.chance(self.cfg.big_ints):
            v = self.r.choice(BIG_POOL)
        else:
            v = self.r.choice(INT_POOL)
        dom = "dec"
        if self.cfg.radix and self.chance(0.25):
            dom = self.r.choice(["hex", "oct", "bin"])
        return ("lit", v, dom)

    def small_lit(self):
        return ("lit", self.r.choice([0, 1, 2, 3]), "dec")

    def strlit(self, pool=STR_POOL):
        return ("str", [self.r.choice(pool)], False)

    # ---- main entry ---------------------------------------------------
    def program(self, in_types=(), depth=None):
        """Returns (node, out_types)."""
        scope = Scope()
        d = self.cfg.max_depth if depth is None else depth
        node, out = self.seq(list(in_types), scope, d, self.r.randint(1, 5))
        return node, out

    def seq(self, st, scope, depth, n):
        """A concatenation of up to n statements."""
        parts = []
        for _ in range(n):
            node, st = self.stmt(st, scope, depth)
            parts.append(node)
        if len(parts) == 1:
            return parts[0], st
        return ("cat", parts), st

    # effect-constrained expression: returns node with stack effect exactly
    # `eff` relative to st (len(out) == len(st) + eff), never touching more than
    # what st offers.
    def expr_eff(self, st, scope, depth, eff, tries=0):
        """Generate an expression whose net effect is exactly eff."""
        node, out = self.seq(list(st), Scope(scope), depth, self.r.randint(1, 3))
        cur = len(out) - len(st)
        fix = []
        # Repair the effect by pushing literals or dropping.
        while cur < eff:
            lit, out = self.push_atom(out, scope)
            fix.append(lit)
            cur += 1
        while cur > eff:
            if not out:
                break
            fix.append(("word", "drop"))
            out = out[:-1]
            cur -= 1
        if cur != eff:
            # Cannot drop below empty: start over with plain pushes.
            parts = []
            out = list(st)
            for _ in range(eff):
                lit, out = self.push_atom(out, scope)
                parts.append(lit)
            return ("cat", parts), out
        if fix:
            if node[0] == "cat":
                node = ("cat", node[1] + fix)
            else:
                node = ("cat", [node] + fix)
        return node, out

    def push_atom(self, st, scope):
        c = self.r.randint(0, 9)
        if c <= 4:
            return self.lit(), st + [C]
        if c <= 6 and self.cfg.strings:
            return self.strlit(), st + [S]
        if c == 7:
            return ("elist",), st + [Q]
        if c == 8:
            k = self.r.randint(1, 3)
            return ("cap", (), ("alt", [self.lit() for _ in range(k)]) if k > 1 else self.lit()), st + [Q]
        return ("word", self.r.choice(["true", "false"])), st + [N]

    # ---- statements -------------------------------------------------------
    def stmt(self, st, scope, depth):
        r = self.r
        choices = []
        n = len(st)
        top = st[-1] if st else None

        def add(w, f):
            choices.append((w, f))

        add(6, self.s_push)
        if n >= 1:
            add(2, self.s_shuffle)
            add(3, self.s_unary)
        if n >= 2:
            add(3, self.s_binary)
            if not (st[-1].startswith("k") or st[-2].startswith("k")):
                add(2, self.s_cmpword)
        if depth > 0:
            add(3, self.s_alt)
            add(2, self.s_or)
            add(2, self.s_capture)
            add(2, self.s_sub)
            add(2, self.s_infix)
            add(2, self.s_if)
            add(1, self.s_opt)
            if self.cfg.strings:
                add(2, self.s_format)
            if self.cfg.closures:
                add(2, self.s_closure)
            nw = self.cfg.name_weight
            if self.cfg.names and not self.no_let:
                add(3 * nw, self.s_let)
            if self.cfg.names and n >= 1:
                add(2 * nw, self.s_scope)
            if self.cfg.blocks:
                add(1 * nw, self.s_block)
            add(1, self.s_paren)
        if self.cfg.names and scope.visible():
            add(4 * self.cfg.name_weight, self.s_read)
        if self.cfg.scope_errors and self.chance(self.cfg.scope_errors):
            add(30, self.s_scope_error)
        tot = sum(w for w, _ in choices)
        x = r.randint(1, tot)
        for w, f in choices:
            x -= w
            if x <= 0:
                return f(st, scope, depth)
        raise AssertionError

    def s_push(self, st, scope, depth):
        return self.push_atom(st, scope)

    def s_shuffle(self, st, scope, depth):
        n = len(st)
        opts = ["dup", "drop"]
        if n >= 2:
            opts += ["swap", "over"]
        if n >= 3:
            opts += ["rot"]
        w = self.r.choice(opts)
        if w == "dup":
            out = st + [st[-1]]
        elif w == "drop":
            out = st[:-1]
        elif w == "swap":
            out = st[:-2] + [st[-1], st[-2]]
        elif w == "over":
            out = st + [st[-2]]
        else:
            out = st[:-3] + [st[-2], st[-1], st[-3]]
        self.label("shuffle")
        return ("word", w), out

    def pick_typed(self, top, table):
        """table: {type: [words]}; pick a fitting word, or (rarely) a mismatching one."""
        if self.chance(self.cfg.soft) or top not in table:
            allw = [w for ws in table.values() for w in ws]
            return self.r.choice(allw)
        return self.r.choice(table[top])

    def s_unary(self, st, scope, depth):
        top = st[-1]
        table = {
            C: ["hex", "dec", "oct", "bin", "value", "type"] if self.cfg.radix else ["value", "type"],
            N: ["type", "dup"],
            S: ["length", "elem", "relem", "?empty", "!empty", "type"],
            Q: ["length", "elem", "relem", "?empty", "!empty", "type"],
        }
        w = self.pick_typed(top, table)
        if top.startswith("k"):
            w = self.r.choice(["type", "drop"])
        if w == "type":
            out = st[:-1] + [N]
        elif w in ("hex", "dec", "oct", "bin", "value", "length"):
            out = st[:-1] + [C]
        elif w in ("elem", "relem"):
            out = st[:-1] + [S if top == S else U]
            self.label("multi-yield-word")
            node = ("word", w)
            if self.cfg.pos_words and self.chance(0.25):
                if self.chance(0.5):
                    return ("cat", [node, ("word", "pos")]), st[:-1] + [C]
                k = self.r.randint(0, 2)
                return ("cat", [node, ("word", ("?%d" if self.chance(0.6) else "!%d") % k)]), out
            return node, out
        elif w == "drop":
            out = st[:-1]
        else:
            out = st
        return ("word", w), out

    def s_binary(self, st, scope, depth):
        a, b = st[-2], st[-1]
        if a == C and b == C:
            w = self.r.choice(["add", "sub", "mul", "div", "mod", "add"])
            if self.chance(self.cfg.soft):
                w = self.r.choice(["?find", "?starts"])
        elif a == b and a in (S, Q):
            w = self.r.choice(["add", "?find", "!find", "?starts", "!starts", "?ends", "!ends"])
        else:
            w = self.r.choice(["add", "?find", "?ends", "sub"])
            self.label("binary-mismatch")
        if w in ("add", "sub", "mul", "div", "mod"):
            out = st[:-2] + [a if a == b else U]
        else:
            out = st
        return ("word", w), out

    def s_cmpword(self, st, scope, depth):
        if st[-1] == st[-2] and st[-1] in (C, S):
            w = self.r.choice(["?eq", "!eq", "?ne", "!ne", "?lt", "!lt", "?gt", "!gt", "?le", "!le", "?ge", "!ge"])
        else:
            w = self.r.choice(["?eq", "!eq", "?ne", "!ne"])
        return ("word", w), st

    def branches(self, st, scope, depth, k, eff=None):
        if eff is None:
            eff = self.r.choice([0, 0, 1, 1, 1, -1 if len(st) >= 1 else 0])
        outs = []
        nodes = []
        for _ in range(k):
            nd, out = self.expr_eff(st, scope, depth - 1, eff)
            nodes.append(nd)
            outs.append(out)
        merged = []
        for col in zip(*outs):
            merged.append(col[0] if all(c == col[0] for c in col) else U)
        return nodes, merged

    def s_alt(self, st, scope, depth):
        k = self.r.choice([2, 2, 2, 3])
        nodes, out = self.branches(st, scope, depth, k)
        if self.chance(0.15):
            nodes[self.r.randint(0, k - 1)] = self.never(st, out)
        self.label("alt")
        return ("alt", nodes), out

    def never(self, st, out):
        """A branch with the right effect that yields nothing."""
        eff = len(out) - len(st)
        parts = [("sub", False, (), ("nop",))]
        parts += [("lit", 0, "dec")] * max(eff, 0)
        parts += [("word", "drop")] * max(-eff, 0)
        return ("cat", parts)

    def s_or(self, st, scope, depth):
        k = self.r.choice([2, 2, 3])
        nodes, out = self.branches(st, scope, depth, k)
        # Make early branches fail sometimes so that later ones are reached.
        for i in range(k - 1):
            if self.chance(0.5):
                nodes[i] = self.maybe_fail(nodes[i], st)
        self.label("or")
        return ("or", nodes), out

    def maybe_fail(self, node, st):
        """Prefix NODE with an assertion that holds for some inputs only."""
        guard = self.guard(st)
        return ("cat", [guard] + (node[1] if node[0] == "cat" else [node]))

    def guard(self, st):
        c = self.r.randint(0, 3)
        if c == 0 or not st:
            return ("sub", self.chance(0.5), (), ("nop",)) if self.chance(0.3) else \
                ("infix", self.lit(), self.r.choice(["==", "<", "!="]), self.lit())
        if st[-1] == C:
            return ("infix", ("nop",), self.r.choice(["==", "!=", "<", ">", "<=", ">="]), self.small_lit())
        if st[-1] == N:
            return ("infix", ("nop",), self.r.choice(["==", "!="]), ("word", self.r.choice(["true", "false", "T_CONST", "T_STR"])))
        if st[-1] in (S, Q):
            return ("word", self.r.choice(["?empty", "!empty"]))
        return ("infix", ("word", "type"), self.r.choice(["==", "!="]),
                ("word", self.r.choice(["T_CONST", "T_STR", "T_SEQ"])))

    def s_capture(self, st, scope, depth):
        ids = ()
        inner_scope = Scope(scope)
        st2 = list(st)
        if self.cfg.names and st and self.chance(0.25):
            ids, st2 = self.bind_ids(st, inner_scope)
        node, out = self.seq(st2, Scope(inner_scope), depth - 1, self.r.randint(1, 3))
        if len(out) == 0:
            lit, out = self.push_atom(out, scope)
            node = ("cat", [node, lit])
        self.label("capture")
        return ("cap", ids, node), st2 + [Q]

    def bind_ids(self, st, scope):
        k = self.r.randint(1, min(2, len(st)))
        names = []
        while len(names) < k:
            nm = self.r.choice(NAME_POOL)
            if nm not in names:
                names.append(nm)
        for nm, t in zip(names, st[len(st) - k:]):
            scope.names[nm] = t
        return tuple(names), st[:len(st) - k]

    def s_sub(self, st, scope, depth):
        ids = ()
        inner = Scope(scope)
        st2 = list(st)
        if self.cfg.names and st and self.chance(0.2):
            ids, st2 = self.bind_ids(st, inner)
        node, _ = self.seq(st2, inner, depth - 1, self.r.randint(1, 3))
        if self.chance(0.4):
            node = ("cat", [self.guard(st2), node])
        self.label("sub")
        return ("sub", self.chance(0.6), ids, node), st

    def one_value(self, st, scope, depth):
        """Expression leaving >= 1 value (for infix operands)."""
        node, out = self.seq(list(st), Scope(scope), max(depth - 1, 0), self.r.randint(0, 2)) \
            if self.chance(0.6) else (("nop",), list(st))
        if not out:
            lit, out = self.push_atom(out, scope)
            node = ("cat", [node, lit]) if node != ("nop",) else lit
        return node, out

    def s_infix(self, st, scope, depth):
        lhs, lo = self.one_value(st, scope, depth)
        rhs, ro = self.one_value(st, scope, depth)
        if lo[-1] == S and ro[-1] == S and self.cfg.match and self.chance(0.4):
            op = self.r.choice(["=~", "!~"])
            rhs = self.strlit(RE_POOL)
        elif lo[-1] == ro[-1] and lo[-1] in (C, S):
            op = self.r.choice(["==", "!=", "<", "<=", ">", ">=", "==", "!="])
        else:
            op = self.r.choice(["==", "!="])
        if lo[-1].startswith("k") or ro[-1].startswith("k"):
            # Closures are excluded from comparison (and a read would apply them).
            lhs, rhs = self.lit(), self.lit()
        self.label("infix")
        return ("infix", lhs, op, rhs), st

    def s_if(self, st, scope, depth):
        cond, _ = self.seq(list(st), Scope(scope), depth - 1, self.r.randint(1, 2))
        if self.chance(0.7):
            cond = ("cat", [self.guard(st), cond])
        nodes, out = self.branches(st, scope, depth, 2)
        self.label("if")
        return ("if", cond, nodes[0], nodes[1]), out

    def s_opt(self, st, scope, depth):
        nd, out = self.expr_eff(st, scope, depth - 1, 0)
        self.label("opt")
        return ("opt", nd), [a if a == b else U for a, b in zip(st, out)]

    def s_paren(self, st, scope, depth):
        node, out = self.seq(st, scope, depth - 1, self.r.randint(1, 3))
        return ("scope", (), node), out

    def s_format(self, st, scope, depth):
        nsp = self.r.randint(0, min(3, len(st) + 2))
        parts = []
        cur = list(st)
        splices = []
        # Directives are resolved right to left: generate in that order.
        for _ in range(nsp):
            c = self.r.randint(0, 5)
            if cur and c <= 1:
                nd = ("nop",)
                if cur[-1].startswith("k"):
                    nd = ("cat", [("word", "drop"), self.lit()])
                    cur = cur[:-1] + [C]
            elif cur and cur[-1] == C and c == 2:
                nd = self.r.choice([("word", "value"),
                                    ("cat", [("word", "value"), ("word", "hex")]),
                                    ("cat", [("word", "value"), ("word", "oct")]),
                                    ("cat", [("word", "value"), ("word", "bin")])])
            else:
                # No let inside a splice: it is plain context and whether the
                # name is visible afterwards is not specified.
                self.no_let += 1
                try:
                    nd, out = self.seq(list(cur), Scope(scope), max(depth - 1, 0), self.r.randint(1, 2))
                    if not out or out[-1].startswith("k"):
                        lit, out = self.push_atom(out, scope)
                        nd = ("cat", [nd, lit])
                finally:
                    self.no_let -= 1
                cur = out
                splices.append(nd)
                cur = cur[:-1]
                continue
            splices.append(nd)
            cur = cur[:-1]
        # splices[0] is the rightmost directive.
        lits = [self.r.choice([b"", b"a", b"-", b" ", b"%", b"[", b"x\ny"]) for _ in range(nsp + 1)]
        parts = [lits[0]]
        for i, sp in enumerate(reversed(splices)):
            parts.append(sp)
            parts.append(lits[i + 1])
        parts = [p for p in parts if p != b""]
        if not parts:
            parts = [b""]
        self.label("format")
        return ("str", parts, False), cur + [S]

    def strip_backslash_strings(self, node):
        """String literals nested in a splice must not contain a backslash or a quote: the
        lexer's embedded-expression scanner tracks quotes textually."""
        if self.cfg.splice_escapes:
            return node          # (the embedded-expression scanner copes with escapes and quotes in nested literals)
        if node[0] == "str":
            parts = [p.replace(b"\\", b"/").replace(b'"', b"'") if isinstance(p, bytes)
                     else self.strip_backslash_strings(p) for p in node[1]]
            return ("str", parts, node[2])
        if node[0] in ("cat", "alt", "or"):
            return (node[0], [self.strip_backslash_strings(c) for c in node[1]])
        if node[0] in ("lit", "word", "read", "elist", "nop"):
            return node
        out = []
        for c in node:
            if isinstance(c, tuple) and c and isinstance(c[0], str) and c[0] in (
                    "lit", "str", "word", "cat", "alt", "or", "cap", "elist", "sub", "infix", "let",
                    "scope", "if", "star", "plus", "opt", "block", "read", "nop"):
                out.append(self.strip_backslash_strings(c))
            else:
                out.append(c)
        return tuple(out)

    # ---- closures over finite graphs -----------------------------------------
    def finite_body(self, st, scope, depth):
        """An effect-0 body whose reachable set from any start is finite."""
        top = st[-1] if st else None
        c = self.r.randint(0, 9)
        if top == C and c <= 4:
            m = self.r.choice([2, 3, 4, 5, 6, 7])
            steps = []
            k = self.r.randint(0, 3)
            if k == 0:
                steps = [("lit", self.r.choice([1, 2, 3]), "dec"), ("word", "add")]
            elif k == 1:
                steps = [("lit", self.r.choice([2, 3]), "dec"), ("word", "mul")]
            elif k == 2:
                steps = [("word", "dup"), ("word", "mul"), ("lit", 1, "dec"), ("word", "add")]
            else:
                steps = [("alt", [("cat", [("lit", 1, "dec"), ("word", "add")]),
                                  ("cat", [("lit", 2, "dec"), ("word", "mul")])])]
            body = ("cat", steps + [("lit", m, "dec"), ("word", "mod")])
            if self.chance(0.3):
                body = ("cat", body[1] + [("sub", True, (), ("cat", [("lit", self.r.randint(1, m), "dec"), ("word", "?lt")]))])
            self.label("closure-arith")
            return body
        if top == C and c <= 6:
            # successor table rendered with if/else
            n = self.r.randint(2, 6)
            table = {}
            for i in range(n):
                k = self.r.choice([0, 1, 1, 2])
                table[i] = [self.r.randint(0, n - 1) for _ in range(k)]

            def succ(lst):
                if not lst:
                    return ("sub", False, (), ("nop",))
                if len(lst) == 1:
                    return ("lit", lst[0], "dec")
                return ("alt", [("lit", v, "dec") for v in lst])
            node = ("sub", False, (), ("nop",))
            for i in reversed(range(n)):
                node = ("if", ("infix", ("read", "N"), "==", ("lit", i, "dec")), succ(table[i]), node)
            self.label("closure-table")
            return ("scope", ("N",), node)
        if len(st) >= 2 and c <= 7:
            self.label("closure-perm")
            return ("word", "swap")
        if len(st) >= 3 and c <= 8:
            self.label("closure-perm")
            return ("word", "rot")
        if top in (S, Q):
            self.label("closure-elem")
            if top == Q:
                return ("cat", [("sub", True, (), ("infix", ("word", "type"), "==", ("word", "T_SEQ"))), ("word", "elem")])
            return ("word", "elem")
        # generic: replace TOS by one of a few constants, or stop
        vals = [self.r.randint(0, 3) for _ in range(self.r.randint(1, 3))]
        self.label("closure-const")
        if not st:
            return ("sub", self.chance(0.5), (), ("nop",))
        return ("cat", [("word", "drop"), ("alt", [("lit", v, "dec") for v in vals]) if len(vals) > 1 else ("lit", vals[0], "dec")])

    def s_closure(self, st, scope, depth):
        body = self.finite_body(st, scope, depth)
        kind = self.r.choice(["star", "star", "plus"])
        node = (kind, body)
        if self.chance(0.15):
            node = (self.r.choice(["star", "plus"]), node)   # E** / E+* collapse
        out = list(st)
        if st and body[0] == "word" and body[1] == "elem":
            out = st[:-1] + [S]
        elif st and st[-1] == Q:
            out = st[:-1] + [U]
        self.label("closure")
        return node, out

    # ---- names ------------------------------------------------------------------
    def s_let(self, st, scope, depth):
        k = self.r.choice([1, 1, 2])
        names = []
        avail = [n for n in NAME_POOL if n not in scope.names]
        if len(avail) < k:
            return self.s_push(st, scope, depth)
        while len(names) < k:
            nm = self.r.choice(avail)
            if nm not in names:
                names.append(nm)
        body, out = self.seq(list(st), Scope(scope), depth - 1, self.r.randint(1, 3))
        while len(out) < k:
            lit, out = self.push_atom(out, scope)
            body = ("cat", [body, lit])
        for nm, t in zip(names, out[len(out) - k:]):
            scope.names[nm] = t
        self.label("let")
        return ("let", tuple(names), body), st

    def s_scope(self, st, scope, depth):
        inner = Scope(scope)
        ids, st2 = self.bind_ids(st, inner)
        node, out = self.seq(st2, inner, depth - 1, self.r.randint(1, 3))
        self.label("scope")
        return ("scope", ids, node), out

    def s_read(self, st, scope, depth):
        vis = scope.visible()
        nm = self.r.choice(sorted(vis))
        t = vis[nm]
        if t.startswith("k"):
            # Reading a name bound to a block applies it.
            eff, need = self.block_sig(t)
            if len(st) < need:
                return self.s_push(st, scope, depth)
            self.label("read-closure")
            return ("read", nm), st[:len(st) - need] + [U] * (need + eff)
        self.label("read")
        return ("read", nm), st + [t]

    @staticmethod
    def block_sig(t):
        _, eff, need = t.split(":")
        return int(eff), int(need)

    def s_block(self, st, scope, depth):
        # {|ids| body}: pushes a closure.  Its body runs on the stack found when applied,
        # of which it may use `need` slots.
        need = self.r.randint(0, min(2, len(st)))
        sub = st[len(st) - need:] if need else []
        inner = Scope(scope)
        ids = ()
        body_st = list(sub)
        if need and self.chance(0.5):
            ids, body_st = self.bind_ids(sub, inner)
        kind = self.r.choice(["", "", "", "?", "!"])
        body, out = self.seq(body_st, inner, depth - 1, self.r.randint(1, 3))
        if kind:
            eff = 0
        else:
            # Never go below the slots the block owns.
            eff = len(out) - need
        tag = "k:%d:%d" % (eff, need)
        node = ("block", kind, ids, body)
        self.label("block")
        c = self.r.randint(0, 2)
        if c == 0:
            # apply right away
            return ("cat", [node, ("word", "apply")]), st[:len(st) - need] + [U] * (need + eff)
        if c == 1 and self.cfg.names and not self.no_let:
            avail = [n for n in NAME_POOL if n not in scope.names]
            if avail:
                nm = self.r.choice(avail)
                scope.names[nm] = tag
                return ("let", (nm,), node), st
        return node, st + [tag]

    def s_scope_error(self, st, scope, depth):
        vis = scope.visible()
        if scope.names and self.chance(0.5):
            nm = self.r.choice(sorted(scope.names))
            self.expect_compile_error = ("rebound", nm)
            return ("let", (nm,), self.lit()), st
        nm = self.r.choice([n for n in ["Zed", "Q", "W"] if n not in vis])
        self.expect_compile_error = ("unbound", nm)
        return ("read", nm), st + [U]


def count_nodes(node):
    if not isinstance(node, tuple):
        return 0
    n = 1 if node and isinstance(node[0], str) else 0
    for c in node[1:] if n else node:
        if isinstance(c, tuple):
            n += count_nodes(c)
        elif isinstance(c, list):
            for e in c:
                if isinstance(e, tuple):
                    n += count_nodes(e)
    return n


def kinds(node, acc=None, path=()):
    """Set of (outer kind, inner kind) nesting pairs and kinds present."""
    if acc is None:
        acc = set()
    if not isinstance(node, tuple) or not node or not isinstance(node[0], str):
        return acc
    k = node[0]
    acc.add(k)
    for p in path:
        acc.add((p, k))
    for c in node[1:]:
        if isinstance(c, tuple):
            kinds(c, acc, path + (k,))
        elif isinstance(c, list):
            for e in c:
                if isinstance(e, tuple):
                    kinds(e, acc, path + (k,))
    return acc


def name_stats(node):
    """Static facts for C03's non-trivial rule: shadowing, up-values per block, reads that
    cross a sub-expression boundary."""
    st = {"shadow": 0, "max_upvalues": 0, "cross_reads": 0, "binders": 0, "blocks": 0, "reads": 0}

    def walk(n, chain, ctx):
        # chain: list of (dict name -> ctx id) scopes; ctx: id of current sub-expression context
        k = n[0]

        def bind(names, chain):
            for nm in names:
                st["binders"] += 1
                if any(nm in s for s in chain[:-1]) or nm in chain[-1]:
                    st["shadow"] += 1
                chain[-1][nm] = ctx

        def lookup(nm):
            for s in reversed(chain):
                if nm in s:
                    return s[nm]
            return None
        if k in ("read", "word"):
            c = lookup(n[1])
            if c is not None:
                st["reads"] += 1
                if c != ctx:
                    st["cross_reads"] += 1
            return
        if k == "str":
            for p in n[1]:
                if not isinstance(p, bytes):
                    walk(p, chain, ctx)
            return
        if k == "cat":
            for c in n[1]:
                walk(c, chain, ctx)
            return
        if k in ("alt", "or"):
            for c in n[1]:
                walk(c, chain + [{}], ctx)
            return
        if k == "opt":
            walk(n[1], chain + [{}], ctx)
            return
        if k == "cap":
            ch = chain + [{}]
            bind(n[1], ch)
            walk(n[2], ch + [{}], id(n))
            return
        if k == "sub":
            ch = chain + [{}]
            bind(n[2], ch)
            walk(n[3], ch, id(n))
            return
        if k == "infix":
            walk(n[1], chain + [{}], id(n))
            walk(n[3], chain + [{}], id(n) + 1)
            return
        if k == "let":
            walk(n[2], chain + [{}], id(n))
            bind(n[1], chain)
            return
        if k == "scope":
            if n[1]:
                ch = chain + [{}]
                bind(n[1], ch)
                walk(n[2], ch, ctx)
            else:
                walk(n[2], chain, ctx)
            return
        if k == "if":
            walk(n[1], chain + [{}], id(n))
            walk(n[2], chain + [{}], ctx)
            walk(n[3], chain + [{}], ctx)
            return
        if k in ("star", "plus"):
            walk(n[1], chain + [{}], id(n))
            return
        if k == "block":
            st["blocks"] += 1
            before = st["cross_reads"]
            free = set()
            # count distinct outer names read inside
            def free_names(m, bound):
                kk = m[0]
                if kk in ("read", "word"):
                    if m[1] not in bound and any(m[1] in s for s in chain):
                        free.add(m[1])
                    return
                b2 = set(bound)
                for c in m[1:]:
                    if isinstance(c, tuple) and c and isinstance(c[0], str):
                        if kk in ("let",) and c is m[2]:
                            free_names(c, b2)
                        else:
                            free_names(c, b2)
                    elif isinstance(c, list):
                        for e in c:
                            if isinstance(e, tuple) and e and isinstance(e[0], str):
                                free_names(e, b2)
                            elif isinstance(e, bytes):
                                pass
                if kk == "let":
                    pass
            free_names(n[3], set(n[2]))
            st["max_upvalues"] = max(st["max_upvalues"], len(free))
            ch = chain + [{}]
            bind(n[2], ch)
            walk(n[3], ch, id(n))
            return
    walk(node, [{}], 0)
    return st
