"""Random DIE forests (well-formed DWARF by construction) and the model functions that say what
dwgrep's raw and cooked views must report for them."""
from .dwgen import (Attr, Die, Unit, Forest, AbbrevTable, TAG, AT, FORM, ATE, TAG_NAME, AT_NAME, FORM_NAME, line_table)

PLAIN_TAGS = ["subprogram", "variable", "base_type", "structure_type", "member", "typedef", "lexical_block", "namespace",
              "pointer_type", "formal_parameter", "enumeration_type", "enumerator", "const_type", "array_type",
              "subrange_type", "union_type", "class_type", "label", "inlined_subroutine"]


class FCfg:
    def __init__(self, **kw):
        self.max_units = 5
        self.max_depth = 5
        self.max_arity = 4
        self.max_dies = 60
        self.partial = 0.5        # probability that the file has partial units
        self.refs = True          # specification / abstract_origin chains
        self.import_compile_units = True
        self.line_tables = True
        self.type_units = 0.25    # chance of DWARF 5 type units (and, rarely, a skeleton unit) among the units
        self.long_chains = 0.0    # chance of an extra unit holding one chain of 15-40 links (C06 sets it)
        self.odd_tags = 0.0       # chance that an ordinary DIE carries a unit tag (valid to store, never emitted by compilers; C02 sets it)
        self.alt = 0.0            # chance of a dwz-style supplementary file with links into it (C06 sets it)
        self.debug_types = 0.0    # chance of DWARF 4 type units in .debug_types reached through DW_FORM_ref_sig8 links
        self.bulk = 0.2           # chance of a unit padded with a long string (offsets beyond 0x400 / 0x10000)
        self.versions = (2, 3, 4, 5)
        self.shared_abbrevs = 0.4
        self.__dict__.update(kw)


class ForestGen:
    def __init__(self, rnd, cfg=None):
        self.r = rnd
        self.cfg = cfg or FCfg()
        self.labels = {}
        self.ndies = 0

    def label(self, l, n=1):
        self.labels[l] = self.labels.get(l, 0) + n

    def chance(self, p):
        return self.r.random() < p

    # -- attributes ----------------------------------------------------------------
    def name_attr(self, version, text=None):
        text = text if text is not None else self.r.choice([b"a", b"foo", b"x1", b"T", b"main", b"", b"n\xc3\xa9", b"long_name_" * 3])
        forms = ["string", "strp"] + (["line_strp"] if version >= 5 else [])
        return Attr(AT["name"], FORM[self.r.choice(forms)], text)

    def int_attr(self, version, name):
        c = self.r.randint(0, 6)
        v = self.r.choice([0, 1, 2, 7, 100, 127, 128, 255, 256, 65535])
        if c == 0:
            return Attr(AT[name], FORM["data1"], v & 0xff)
        if c == 1:
            return Attr(AT[name], FORM["data2"], v)
        if c == 2:
            return Attr(AT[name], FORM["data4"], v)
        if c == 3:
            return Attr(AT[name], FORM["udata"], v)
        if c == 4:
            return Attr(AT[name], FORM["sdata"], v)
        if c == 5 and version >= 5:
            return Attr(AT[name], FORM["implicit_const"], v)
        return Attr(AT[name], FORM["data8"], v)

    def random_attrs(self, version, die_pool, unit_dies):
        out = []
        used = set()

        def add(a):
            if a.name not in used:
                used.add(a.name)
                if self.chance(0.06) and a.form != FORM["implicit_const"]:
                    a.indirect = True
                    self.label("form-indirect")
                out.append(a)
        n = self.r.choice([0, 1, 1, 2, 2, 3, 4])
        for _ in range(n):
            c = self.r.randint(0, 9)
            if c <= 1:
                add(self.name_attr(version))
            elif c == 2:
                add(self.int_attr(version, self.r.choice(["decl_line", "decl_column", "byte_size", "call_line"])))
            elif c == 3:
                if version >= 4 and self.chance(0.5):
                    add(Attr(AT["external"], FORM["flag_present"]))
                else:
                    add(Attr(AT[self.r.choice(["external", "artificial", "prototyped"])], FORM["flag"], self.r.choice([0, 1])))
            elif c == 4:
                add(Attr(AT["low_pc"], FORM["addr"], self.r.choice([0, 0x1000, 0x400000, (1 << 63) + 8])))
            elif c == 5 and unit_dies:
                # type reference inside the unit
                tgt = self.r.choice(unit_dies)
                form = self.r.choice(["ref4", "ref4", "ref1", "ref2", "ref8", "ref_udata"])
                add(Attr(AT["type"], FORM[form], tgt))
                self.label("form-" + form)
            elif c == 6 and die_pool:
                tgt = self.r.choice(die_pool)
                add(Attr(AT["type"], FORM["ref_addr"], tgt))
                self.label("form-ref_addr")
            elif c == 7:
                add(Attr(AT["declaration"], FORM["flag"], 1))
            elif c == 8:
                add(Attr(AT["accessibility"], FORM["data1"], self.r.choice([1, 2, 3])))
            elif self.chance(0.5):
                add(Attr(AT["linkage_name"], FORM["string"], self.r.choice([b"_Z3foov", b"_ZN1A1bE"])))
            else:
                # vendor attributes (codes from DW_AT_lo_user up): inherited, shadowed and de-duplicated like any other
                k = self.r.randint(0, 2)
                if k == 0:
                    add(Attr(AT["MIPS_linkage_name"], FORM["string"], self.r.choice([b"_Z3foov", b"_ZN1A1bE", b"_Z1gi"])))
                elif k == 1:
                    add(Attr(AT[self.r.choice(["GNU_all_call_sites", "GNU_all_tail_call_sites"])], FORM["flag"], 1))
                else:
                    add(Attr(AT["GNU_deleted"], FORM["flag"], self.r.choice([0, 1])))
                self.label("vendor-attribute")
        return out

    # -- trees -------------------------------------------------------------------------
    def subtree(self, version, depth, die_pool, unit_dies, budget):
        tag = TAG[self.r.choice(PLAIN_TAGS)]
        if self.cfg.odd_tags and self.chance(self.cfg.odd_tags):
            # what makes a DIE the root of a unit is where it stands, not its tag
            tag = TAG[self.r.choice(["compile_unit", "partial_unit", "type_unit", "skeleton_unit"])]
            self.label("unit-tag-on-an-inner-die")
        d = Die(tag, self.random_attrs(version, die_pool, unit_dies))
        unit_dies.append(d)
        self.ndies += 1
        if depth > 0 and budget[0] > 0 and self.chance(0.55):
            k = self.r.randint(1, self.cfg.max_arity)
            for _ in range(k):
                if budget[0] <= 0:
                    break
                budget[0] -= 1
                d.children.append(self.subtree(version, depth - 1, die_pool, unit_dies, budget))
            d.has_children = True
        elif self.chance(0.12):
            d.has_children = True            # abbreviation claims children, there are none
            self.label("childless-with-children-flag")
        return d

    def add_siblings(self, d):
        """Correct DW_AT_sibling on some DIEs that have a following sibling."""
        for i, c in enumerate(d.children):
            if i + 1 < len(d.children) and self.chance(0.15) and not c.attr(AT["sibling"]):
                c.attrs.insert(0, Attr(AT["sibling"], FORM["ref4"], d.children[i + 1]))
                self.label("sibling-attribute")
            self.add_siblings(c)

    def forest(self):
        cfg = self.cfg
        nunits = self.r.randint(1, cfg.max_units)
        npartial = self.r.randint(1, 3) if self.chance(cfg.partial) else 0
        shared = AbbrevTable() if self.chance(cfg.shared_abbrevs) else None
        units = []
        die_pool = []        # DIEs of earlier units (targets of ref_addr)
        partial_units = []
        budget = [cfg.max_dies]

        def make_unit(kind):
            version = self.r.choice(cfg.versions)
            if kind in ("type", "skeleton"):
                version = 5          # DWARF 5 keeps type units (and skeleton units) in .debug_info
            unit_dies = []
            root_attrs = []
            if self.chance(0.8):
                root_attrs.append(self.name_attr(version, self.r.choice([b"a.c", b"b.cc", b"dir/c.c"])))
            if kind == "compile" and self.chance(0.6):
                root_attrs.append(Attr(AT["language"], FORM["data1"], self.r.choice([1, 2, 4, 12])))
            if self.chance(cfg.bulk):
                n = self.r.choice([300, 1100, 1100, 5000]) if self.r.random() < 0.9 else 66000
                root_attrs.append(Attr(AT["producer"], FORM["string"], b"p" * n))
                self.label("bulky-unit")
            root = Die(TAG[{"compile": "compile_unit", "partial": "partial_unit", "type": "type_unit", "skeleton": "skeleton_unit"}[kind]], root_attrs)
            if kind in ("type", "skeleton"):
                self.label(kind + "-unit")
            shape = self.r.randint(0, 9)
            if kind == "skeleton":
                shape = 0            # a skeleton unit is a lone root
            elif kind == "type" and shape == 0:
                shape = 1            # a type unit holds at least the type
            if shape == 0:
                self.label("empty-unit")
                root.has_children = self.chance(0.3)
            else:
                k = self.r.randint(1, cfg.max_arity + 1)
                if kind == "type" and budget[0] <= 0:
                    budget[0] = 1        # the type a type unit is about must be there
                for _ in range(k):
                    if budget[0] <= 0:
                        break
                    budget[0] -= 1
                    root.children.append(self.subtree(version, self.r.randint(0, cfg.max_depth - 1), die_pool, unit_dies, budget))
                root.has_children = bool(root.children) or self.chance(0.2)
            # imports of earlier partial units (acyclic by construction)
            importable = list(partial_units)
            if cfg.import_compile_units and self.chance(0.2):
                # DW_AT_import may name a "normal or partial compilation unit" (DWARF 4, 3.1.2)
                importable += [x for x in units if x.root.tag == TAG["compile_unit"]]
            if importable and kind in ("compile", "partial") and (kind == "compile" or self.chance(0.5)):
                for pu in self.r.sample(importable, self.r.randint(1, min(2, len(importable)))):
                    if not pu.partial:
                        self.label("import-of-compile-unit")
                    times = 2 if self.chance(0.15) else 1
                    for _ in range(times):
                        imp = Die(TAG["imported_unit"], [Attr(AT["import_"], FORM["ref_addr"], pu.root)])
                        # mostly directly under the root, sometimes nested
                        hosts = [root] + ([d for d in unit_dies if d.has_children] if self.chance(0.25) else [])
                        host = self.r.choice(hosts)
                        host.children.insert(self.r.randint(0, len(host.children)), imp)
                        host.has_children = True
                        self.label("import-edge")
                        if times == 2:
                            self.label("double-import")
                        if host is not root:
                            self.label("nested-import-host")
            self.add_siblings(root)
            u = Unit(root, version, shared if (shared is not None and self.chance(0.7)) else None)
            if u.abbrevs is shared:
                self.label("shared-abbrev-unit")
            units.append(u)
            die_pool.extend(unit_dies)
            self.label("unit-v%d" % version)
            return u

        order = ["partial"] * npartial + ["compile"] * nunits
        if 5 in cfg.versions and self.chance(cfg.type_units):
            order += ["type"] * self.r.randint(1, 2)
            if self.chance(0.2):
                order.append("skeleton")
        # partial units first so that imports are acyclic; shuffle compile units among them
        # but only import units that already exist
        seq = []
        pcount = 0
        for k in order:
            seq.append(k)
        self.r.shuffle(seq)
        if "compile" not in seq:
            seq.append("compile")
        for k in seq:
            u = make_unit(k)
            if k == "partial":
                partial_units.append(u)
        if cfg.long_chains and self.chance(cfg.long_chains):
            # "chains of any length": one unit whose DIEs form a single specification / abstract_origin chain of
            # 15..40 links, the attributes sitting at its far end
            n = self.r.choice([15, 16, 17, 18, 25, 40])
            far = Die(TAG["subprogram"], [Attr(AT["name"], FORM["string"], b"far"), Attr(AT["decl_line"], FORM["data1"], 9),
                                          Attr(AT["external"], FORM["flag"], 1)])
            chain = [far]
            for k in range(n):
                chain.append(Die(TAG["subprogram"], [Attr(AT[self.r.choice(["specification", "abstract_origin"])],
                                                          FORM[self.r.choice(["ref4", "ref_udata", "ref4"])], chain[-1])]))
            units.append(Unit(Die(TAG["compile_unit"], [Attr(AT["name"], FORM["string"], b"chain.c")], chain), self.r.choice(cfg.versions)))
            self.label("long-chain")
        f = Forest(units)
        if cfg.line_tables and self.chance(0.6):
            # every unit gets a line table of its own with files named after the unit, and some of its DIEs a
            # DW_AT_decl_file: a file *index*, which means something only together with the unit of the DIE
            # that stores it (inherited across units through ref_addr links it must still name that unit's file)
            for k, u in enumerate(units):
                if self.chance(0.15):
                    continue
                u.files = [b"/src/u%d/f%d.c" % (k, j) for j in range(1, self.r.randint(2, 4))]
                off = len(f.line_section)
                f.line_section += line_table(u.files)
                u.root.attrs.append(Attr(AT["stmt_list"], FORM["sec_offset" if u.version >= 4 else "data4"], off))
                for d in u.dies()[1:]:
                    if d.tag != TAG["imported_unit"] and self.chance(0.3) and not d.attr(AT["decl_file"]):
                        d.attrs.append(Attr(AT["decl_file"], FORM["data1"], self.r.randint(1, len(u.files))))
                        self.label("decl-file")
            self.label("line-tables")
        if len(units) >= 2 and self.chance(0.5):
            f.table_shuffle = self.r.randint(0, 1 << 30)
            self.label("abbrev-tables-out-of-order")
        if cfg.refs:
            self.add_ref_chains(f)
            if f.line_section and self.chance(0.6):
                self.add_cross_unit_chain(f)
            if cfg.alt and self.chance(cfg.alt):
                self.add_alt(f)
            if cfg.debug_types and self.chance(cfg.debug_types):
                self.add_debug_types(f)
        return f

    LINKS = (AT["specification"], AT["abstract_origin"])

    def link_hosts(self, f, k):
        """Up to K DIEs of F that can take one more inheritance link: [(die, link name)]."""
        ok = [d for d in f.all_dies() if d.tag not in (TAG["compile_unit"], TAG["partial_unit"], TAG["type_unit"], TAG["skeleton_unit"], TAG["imported_unit"])
              and not (d.attr(self.LINKS[0]) and d.attr(self.LINKS[1]))]
        self.r.shuffle(ok)
        out = []
        for d in ok[:k]:
            free = [n for n in self.LINKS if not d.attr(n)]
            out.append((d, self.r.choice(free)))
        return out

    def small_unit(self, version, tagname, name, n):
        dies = []
        root = Die(TAG[tagname], [Attr(AT["name"], FORM["string"], name)])
        budget = [n]
        while budget[0] > 0:
            budget[0] -= 1
            root.children.append(self.subtree(version, self.r.randint(0, 2), [], dies, budget))
        root.has_children = True
        return Unit(root, version), dies

    def add_alt(self, f):
        """A supplementary file (what dwz -m produces): one or two units of its own, inheritance chains inside it,
        and DIEs of the main file that inherit from its DIEs through DW_FORM_GNU_ref_alt / DW_FORM_ref_sup4.  Offsets
        of the two files are unrelated number spaces; more often than not one link is arranged so that the DIE it
        names sits at the very offset (in its file) at which the linking DIE sits in the main file."""
        units, pool = [], []
        for k in range(self.r.randint(1, 2)):
            version = self.r.choice([v for v in self.cfg.versions if v >= 3] or [4])
            if k == 0 and f.units[0].version >= 3 and self.chance(0.7):
                version = f.units[0].version      # the first units of both files then have their roots at the same offset
            u, dies = self.small_unit(version, self.r.choice(["partial_unit", "partial_unit", "compile_unit"]),
                                      b"common%d" % k, self.r.randint(2, 12))
            units.append(u)
            pool.append(dies)
        alt = Forest(units)
        self.add_ref_chains(alt)
        alt.layout()
        hosts = self.link_hosts(f, self.r.randint(1, 4))
        if not hosts:
            return
        f.alt = alt
        # what dwz -m does: units of the main file import (partial) units of the supplementary file -- directly, and
        # from partial units that are themselves imported, so that the chain of imports crosses the file boundary
        imported_main = set(id(DieT) for DieT in (import_target(d) for d in f.all_dies()) if DieT is not None)
        for u in units:
            if not (u.partial or self.cfg.import_compile_units) or not self.chance(0.7):
                continue
            nested = [m for m in f.units if id(m.root) in imported_main]
            hostu = self.r.choice(nested) if nested and self.chance(0.6) else self.r.choice([m for m in f.units if m.root.tag in (TAG["compile_unit"], TAG["partial_unit"])])
            if u is units[0] and f.units[0] in nested and self.chance(0.7):
                hostu = f.units[0]
            imp = Die(TAG["imported_unit"], [Attr(AT["import_"], FORM["GNU_ref_alt"], u.root)])
            inner = [d for d in hostu.dies()[1:] if d.has_children and d.tag != TAG["imported_unit"]] if self.chance(0.25) else []
            host = self.r.choice([hostu.root] + inner)
            at = self.r.randint(0, len(host.children))
            host.children.insert(at, imp)
            host.has_children = True
            if at > 0 and host.children[at - 1].attr(AT["sibling"]):
                host.children[at - 1].attr(AT["sibling"]).value = imp        # (DW_AT_sibling names the next sibling, which is the import now)
            self.label("alt-import")
            if id(hostu.root) in imported_main:
                self.label("alt-import-nested")
                if hostu.header_size() == u.header_size() and hostu is f.units[0] and u is units[0]:
                    self.label("alt-import-nested-same-root-offset")
        links = []
        for d, ln in hosts:
            form = "ref_sup4" if (d.unit is not None and d.unit.version >= 5 and self.chance(0.5)) else "GNU_ref_alt"
            a = Attr(ln, FORM[form], self.r.choice(self.r.choice(pool)))
            d.attrs.append(a)
            links.append((d, a))
            self.label("alt-link")
        f.layout()                # offsets of the main file (a link is 4 bytes whatever it names)
        if self.chance(0.7):
            d, a = self.r.choice(links)
            cands = [t for t in pool[0] if t.offset + 1 <= d.offset]
            if cands:
                t = self.r.choice(cands)
                pad = d.offset - t.offset       # >= 1: a string of pad-1 bytes and its NUL
                filler = Attr(AT["producer"], FORM["string"], b"P" * (pad - 1))
                units[0].root.attrs.append(filler)
                for _ in range(4):              # (a ref_udata inside the file may grow by a byte on the way)
                    alt.layout()
                    n = len(filler.value) + d.offset - t.offset
                    if t.offset == d.offset or n < 0:
                        break
                    filler.value = b"P" * n
                if t.offset == d.offset:
                    a.value = t
                    self.label("alt-link-same-offset")

    def add_debug_types(self, f):
        """DWARF 4 type units in .debug_types, whose types DIEs of the main forest name as their DW_AT_specification
        by signature; .debug_types counts its offsets from 0 again, and one type is usually placed at the offset
        at which the DIE that names it sits in .debug_info."""
        hosts = self.link_hosts(f, self.r.randint(1, 3))
        if not hosts:
            return
        f.layout()
        units = []
        place = self.chance(0.7)
        pos = 0
        for k, (d, ln) in enumerate(hosts):
            u, dies = self.small_unit(4, "compile_unit", b"", self.r.randint(1, 4))
            root = Die(TAG["type_unit"], [Attr(AT["language"], FORM["data1"], 4)], u.root.children, True)
            t = root.children[0]
            t.tag = TAG[self.r.choice(["structure_type", "class_type", "union_type", "enumeration_type"])]
            t.attrs = [a for a in t.attrs if a.name not in self.LINKS + (AT["name"], AT["byte_size"], AT["declaration"], AT["sibling"])]
            t.attrs += [Attr(AT["name"], FORM["string"], b"T%d" % k), Attr(AT["byte_size"], FORM["data1"], 4 + k)]
            # root at pos+23: abbreviation code (1 byte), DW_AT_language (1 byte), then a name of chosen length
            want = d.offset - (pos + 23 + 2)
            if place and k == 0 and want >= 1:
                root.attrs.append(Attr(AT["name"], FORM["string"], b"t" * (want - 1)))
            tu = Unit(root, 4, types_section=True)
            units.append(tu)
            d.attrs.append(Attr(ln, FORM["ref_sig8"], t))
            self.label("sig8-link")
            tf = Forest(units)
            tf.layout()
            pos = tu.offset + tu.size
        f.types = Forest(units)
        f.types.layout()
        f.layout()
        if hosts[0][0].offset == units[0].root.children[0].offset:
            self.label("sig8-link-same-offset")

    def add_ref_chains(self, f):
        """DW_AT_specification / DW_AT_abstract_origin chains (acyclic: references point to DIEs that
        come earlier in creation order within the same unit via ref4, or anywhere via ref_addr)."""
        for u in f.units:
            dies = [d for d in u.dies() if d.tag not in (TAG["compile_unit"], TAG["partial_unit"], TAG["imported_unit"])]
            for i, d in enumerate(dies):
                if i == 0 or not self.chance(0.25):
                    continue
                which = self.r.choice(["specification", "abstract_origin"])
                if d.attr(AT[which]):
                    continue
                tgt = self.r.choice(dies[:i])
                d.attrs.append(Attr(AT[which], FORM[self.r.choice(["ref4", "ref_addr", "ref_udata"])], tgt))
                self.label("inherit-link")
                if self.chance(0.1) and not d.attr(AT["abstract_origin" if which == "specification" else "specification"]):
                    tgt2 = self.r.choice(dies[:i])
                    d.attrs.append(Attr(AT["abstract_origin" if which == "specification" else "specification"], FORM["ref4"], tgt2))
                    self.label("both-links")
            if len(dies) >= 4 and self.chance(0.5):
                self.add_link_tree(dies)

    def add_cross_unit_chain(self, f):
        """A --ref_addr--> B --> C with A in a later unit, B and C in an earlier one, only C carrying
        DW_AT_decl_file (and DW_AT_decl_line): the file index must be read against C's unit whichever
        word integrates it, also two links away."""
        us = [u for u in f.units if u.files]
        if len(us) < 2:
            return
        ui, uj = sorted(self.r.sample(range(len(us)), 2))
        ok = lambda d: d.tag not in (TAG["compile_unit"], TAG["partial_unit"], TAG["imported_unit"])
        di = [d for d in us[ui].dies() if ok(d)]
        dj = [d for d in us[uj].dies() if ok(d)]
        if len(di) < 2 or not dj:
            return
        ci, bi = sorted(self.r.sample(range(len(di)), 2))
        c_, b_, a_ = di[ci], di[bi], self.r.choice(dj)
        LINKS = (AT["specification"], AT["abstract_origin"])
        for x in (a_, b_, c_):
            x.attrs = [t for t in x.attrs if t.name not in LINKS + (AT["decl_file"], AT["decl_line"])]
        c_.attrs.append(Attr(AT["decl_file"], FORM["data1"], self.r.randint(1, len(us[ui].files))))
        c_.attrs.append(Attr(AT["decl_line"], FORM["data1"], 42))
        b_.attrs.append(Attr(AT[self.r.choice(["specification", "abstract_origin"])], FORM[self.r.choice(["ref4", "ref_udata"])], c_))
        a_.attrs.append(Attr(AT[self.r.choice(["specification", "abstract_origin"])], FORM["ref_addr"], b_))
        self.label("cross-unit-chain")

    def add_link_tree(self, dies):
        """A DIE with *both* links whose first target has a further link, and two leaves that supply
        different values for attributes the inner DIEs lack: every implementation of integration
        (`attribute`, @AT_x, `name`) has to walk this little tree in the same order."""
        idx = sorted(self.r.sample(range(len(dies)), 4))
        d_, c_, b_, a_ = (dies[i] for i in idx)          # references point backwards in creation order
        if self.chance(0.5):
            c_, d_ = d_, c_
        la, lb, lc = self.r.choice([("abstract_origin", "specification", "specification"),
                                    ("specification", "abstract_origin", "abstract_origin"),
                                    ("abstract_origin", "specification", "abstract_origin"),
                                    ("specification", "abstract_origin", "specification")])
        LINKS = (AT["specification"], AT["abstract_origin"])
        for x in (a_, b_, c_, d_):
            x.attrs = [t for t in x.attrs if t.name not in LINKS + (AT["name"], AT["decl_line"])]
        a_.attrs.append(Attr(AT[la], FORM["ref4"], b_))
        a_.attrs.append(Attr(AT[lb], FORM["ref4"], c_))
        b_.attrs.append(Attr(AT[lc], FORM[self.r.choice(["ref4", "ref_udata"])], d_))
        for n, x in enumerate((c_, d_)):
            if self.chance(0.85):
                x.attrs.append(Attr(AT["name"], FORM["string"], b"leaf%d" % n))
            if self.chance(0.85):
                x.attrs.append(Attr(AT["decl_line"], FORM["data1"], 3 + n))
        self.label("link-tree")


# ------------------------------------------------------------------ model of the views

def files_of(f):
    """The forest and, after it, its supplementary forest: dwgrep walks the units of both (dwmods.cc: all_dwarfs)."""
    return [f] + ([f.alt] if getattr(f, "alt", None) is not None else [])


def raw_units(f):
    return [u for g in files_of(f) for u in g.units]


def raw_entries(f):
    out = []
    for u in raw_units(f):
        out += u.dies()
    return out


def import_target(die):
    """Root DIE of the unit imported by a DW_TAG_imported_unit DIE, or None."""
    if die.tag != TAG["imported_unit"]:
        return None
    a = die.attr(AT["import_"])
    return a.value if a is not None else None


def cooked_children(die, chain=()):
    """[(child, chain)]: raw children with every imported_unit replaced, recursively and in place,
    by the children of the imported unit's root.  chain: tuple of import DIEs, innermost first."""
    out = []
    for c in die.children:
        tgt = import_target(c)
        if tgt is not None:
            out += cooked_children(tgt, (c,) + chain)
        else:
            out.append((c, chain))
    return out


def cooked_preorder(die, chain=()):
    out = [(die, chain)]
    for c, ch in cooked_children(die, chain):
        out += cooked_preorder(c, ch)
    return out


def cooked_units(f):
    return [u for u in raw_units(f) if not u.partial]


def cooked_entries(f):
    out = []
    for u in cooked_units(f):
        out += cooked_preorder(u.root)
    return out


def cooked_parent(die, chain):
    """(parent, chain) in the cooked view; None for a root."""
    p = die.parent
    ch = chain
    while p is not None and ch and import_target(ch[0]) is p:
        imp = ch[0]
        ch = ch[1:]
        p = imp.parent
    if p is None:
        return None
    return (p, ch)


def cooked_root(die, chain):
    d = chain[-1] if chain else die
    return d.unit.root


def inherited_attrs(die):
    """Cooked `attribute`: own attributes in stored order, then those of DIEs reachable through
    DW_AT_specification / DW_AT_abstract_origin that are not yet seen, never sibling/declaration.
    Returns (own list, inherited list of (attr, source die)) -- the order among inherited ones is
    not fixed by the statement; compare as a set keyed by name."""
    own = list(die.attrs)
    seen = set(a.name for a in own)
    inherited = []
    visited = set([id(die)])
    stack = [a.value for a in own if a.name in (AT["specification"], AT["abstract_origin"])]
    # Which link is followed first when both supply a name is implementation-defined: report
    # candidates per name.
    cand = {}
    order = []
    while stack:
        d = stack.pop()
        if id(d) in visited:
            continue
        visited.add(id(d))
        for a in d.attrs:
            if a.name in (AT["specification"], AT["abstract_origin"]):
                stack.append(a.value)
            if a.name in (AT["sibling"], AT["declaration"]):
                continue
            if a.name in seen:
                continue
            cand.setdefault(a.name, []).append((a, d))
            if a.name not in order:
                order.append(a.name)
    return own, cand
