"""Helpers shared by the DWARF properties (C02, C05, C06, C07, C17): write a generated forest to a
scratch file, open it in the driver, dump values."""
import os, subprocess, tempfile

from .drv import BUILD
from .dwgen import build_file

SCRATCH = os.path.join(BUILD, "run")


class TempElf:
    def __init__(self, data):
        os.makedirs(SCRATCH, exist_ok=True)
        fd, self.path = tempfile.mkstemp(prefix="gen-", suffix=".o", dir=SCRATCH)
        with os.fdopen(fd, "wb") as f:
            f.write(data)

    def __enter__(self):
        return self.path

    def __exit__(self, *a):
        try:
            os.unlink(self.path)
        except OSError:
            pass


class TempElfSet:
    """The main file plus the files it refers to by name (a dwz supplementary file), in a directory of their own."""

    def __init__(self, data, others=()):
        os.makedirs(SCRATCH, exist_ok=True)
        self.dir = tempfile.mkdtemp(prefix="gen-", dir=SCRATCH)
        self.path = os.path.join(self.dir, "main.o")
        with open(self.path, "wb") as f:
            f.write(data)
        for name, d in others:
            with open(os.path.join(self.dir, name), "wb") as f:
                f.write(d)

    def __enter__(self):
        return self.path

    def __exit__(self, *a):
        import shutil
        shutil.rmtree(self.dir, ignore_errors=True)


def forest_files(f):
    """(main file bytes, [(name, bytes)] of the files that go with it) for a dwgen.Forest."""
    from .dwgen import build_file, build_alt_file
    data = build_file(f)
    others = [(f.alt_name.decode(), build_alt_file(f))] if f.alt is not None else []
    return data, others


def dwarfdump_dies(path):
    """Independent reader: [(offset, tag name, [(attr name, form name)])] via llvm-dwarfdump -v."""
    import re
    out = subprocess.run(["llvm-dwarfdump-14", "-v", "--debug-info", path], stdout=subprocess.PIPE,
                         stderr=subprocess.PIPE).stdout.decode("latin-1")
    dies = []
    for line in out.splitlines():
        m = re.match(r"^0x([0-9a-f]+):\s+(DW_TAG_\w+)", line)
        if m:
            dies.append((int(m.group(1), 16), m.group(2), []))
            continue
        m = re.match(r"^\s+(DW_AT_\w+)\s+\[(DW_FORM_\w+)", line)
        if m and dies:
            dies[-1][2].append((m.group(1), m.group(2)))
    return dies
