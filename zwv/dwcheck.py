"""Helpers shared by the DWARF properties (C02, C05, C06, C07, C17): write a generated forest to a
scratch file, open it in the driver, dump values."""
import os, subprocess, tempfile

from .drv import BUILD
from .dwgen import build_file

SCRATCH = os.path.join(BUILD, "run")


class TempElf:
    def __init__(self, data):
        os.makedirs(SCRATCH, exist_ok=True)
        fd, self.path = tempfile.mkstemp(prefix="gen-", suffix=".o", dir=SCRATCH)
        with os.fdopen(fd, "wb") as f:
            f.write(data)

    def __enter__(self):
        return self.path

    def __exit__(self, *a):
        try:
            os.unlink(self.path)
        except OSError:
            pass


def dwarfdump_dies(path):
    """Independent reader: [(offset, tag name, [(attr name, form name)])] via llvm-dwarfdump -v."""
    import re
    out = subprocess.run(["llvm-dwarfdump-14", "-v", "--debug-info", path], stdout=subprocess.PIPE,
                         stderr=subprocess.PIPE).stdout.decode("latin-1")
    dies = []
    for line in out.splitlines():
        m = re.match(r"^0x([0-9a-f]+):\s+(DW_TAG_\w+)", line)
        if m:
            dies.append((int(m.group(1), 16), m.group(2), []))
            continue
        m = re.match(r"^\s+(DW_AT_\w+)\s+\[(DW_FORM_\w+)", line)
        if m and dies:
            dies[-1][2].append((m.group(1), m.group(2)))
    return dies
