"""Greedy structural shrinker for program ASTs (used outside Hypothesis: exhaustive and
bulk-random tiers).  fails(node) -> bool must be deterministic."""

KINDS = ("lit", "str", "word", "cat", "alt", "or", "cap", "elist", "sub", "infix", "let",
         "scope", "if", "star", "plus", "opt", "block", "read", "nop")


def is_node(x):
    return isinstance(x, tuple) and len(x) > 0 and isinstance(x[0], str) and x[0] in KINDS


def children(node):
    """Yield (path, child) for direct sub-nodes; path = (index,) or (index, listindex)."""
    for i, c in enumerate(node):
        if i == 0:
            continue
        if is_node(c):
            yield (i,), c
        elif isinstance(c, list):
            for j, e in enumerate(c):
                if is_node(e):
                    yield (i, j), e


def replace_at(node, path, new):
    lst = list(node)
    if len(path) == 1:
        lst[path[0]] = new
    else:
        inner = list(lst[path[0]])
        if new is None:
            del inner[path[1]]
        else:
            inner[path[1]] = new
        lst[path[0]] = inner
    return tuple(lst)


def candidates(node):
    """Smaller variants of NODE (top level only)."""
    k = node[0]
    # Replace by a direct child.
    for _, c in children(node):
        yield c
    if k in ("cat", "alt", "or"):
        n = len(node[1])
        for j in range(n):
            if n > 1 or k == "cat":
                yield (k, node[1][:j] + node[1][j + 1:])
        if n == 1:
            yield node[1][0]
    if k == "str":
        parts = node[1]
        for j in range(len(parts)):
            if len(parts) > 1:
                yield ("str", parts[:j] + parts[j + 1:], node[2])
            if isinstance(parts[j], bytes) and len(parts[j]) > 1:
                yield ("str", parts[:j] + [parts[j][:1]] + parts[j + 1:], node[2])
    if k == "lit" and node[1] not in (0, 1):
        yield ("lit", 1, "dec")
    if k == "lit" and node[2] != "dec":
        yield ("lit", node[1], "dec")
    if k not in ("lit", "nop"):
        yield ("lit", 1, "dec")
        yield ("nop",)
    if k in ("cap", "sub", "scope", "block") and node[-2]:
        lst = list(node)
        lst[-2] = ()
        yield tuple(lst)


def shrink(node, fails, max_steps=4000):
    steps = [0]

    def try_(n):
        steps[0] += 1
        if steps[0] > max_steps:
            return False
        try:
            return fails(n)
        except Exception:
            return False

    improved = True
    while improved and steps[0] <= max_steps:
        improved = False
        # Top-level candidates.
        for c in candidates(node):
            if c != node and try_(c):
                node = c
                improved = True
                break
        if improved:
            continue
        # Recurse into children.
        for path, child in children(node):
            def sub_fails(c, path=path):
                return fails(replace_at(node, path, c))
            small = shrink_once(child, sub_fails, try_)
            if small is not None:
                node = replace_at(node, path, small)
                improved = True
                break
    return node


def shrink_once(node, fails, try_):
    """One successful reduction somewhere inside NODE, or None."""
    for c in candidates(node):
        if c != node:
            try:
                ok = try_wrap(fails, c)
            except Exception:
                ok = False
            if ok:
                return c
    for path, child in children(node):
        def sub_fails(c, path=path):
            return fails(replace_at(node, path, c))
        small = shrink_once(child, sub_fails, try_)
        if small is not None:
            return replace_at(node, path, small)
    return None


def try_wrap(fails, c):
    return fails(c)
