"""Greedy structural shrinker for program ASTs (used outside Hypothesis: exhaustive and
bulk-random tiers).  fails(node) -> bool must be deterministic."""

KINDS = ("lit", "str", "word", "cat", "alt", "or", "cap", "elist", "sub", "infix", "let",
         "scope", "if", "star", "plus", "opt", "block", "read", "nop")


def is_node(x):
    return isinstance(x, tuple) and len(x) > 0 and isinstance(x[0], str) and x[0] in KINDS


def children(node):
    """Yield (path, child) for direct sub-nodes; path = (index,) or (index, listindex)."""
    for i, c in enumerate(node):
        if i == 0:
            continue
        if is_node(c):
            yield (i,), c
        elif isinstance(c, list):
            for j, e in enumerate(c):
                if is_node(e):
                    yield (i, j), e


def replace_at(node, path, new):
    lst = list(node)
    if len(path) == 1:
        lst[path[0]] = new
    else:
        inner = list(lst[path[0]])
        if new is None:
            del inner[path[1]]
        else:
            inner[path[1]] = new
        lst[path[0]] = inner
    return tuple(lst)


def candidates(node):
    """Smaller variants of NODE (top level only)."""
    k = node[0]
    # Replace by a direct child.
    for _, c in children(node):
        yield c
    if k in ("cat", "alt", "or"):
        n = len(node[1])
        for j in range(n):
            if n > 1 or k == "cat":
                yield (k, node[1][:j] + node[1][j + 1:])
        if n == 1:
            yield node[1][0]
    if k == "str":
        parts = node[1]
        for j in range(len(parts)):
            if len(parts) > 1:
                yield ("str", parts[:j] + parts[j + 1:], node[2])
            if isinstance(parts[j], bytes) and len(parts[j]) > 1:
                yield ("str", parts[:j] + [parts[j][:1]] + parts[j + 1:], node[2])
    if k == "lit" and node[1] not in (0, 1):
        yield ("lit", 1, "dec")
    if k == "lit" and node[2] != "dec":
        yield ("lit", node[1], "dec")
    if k not in ("lit", "nop"):
        yield ("lit", 1, "dec")
        yield ("nop",)
    if k in ("cap", "sub", "scope", "block") and node[-2]:
        lst = list(node)
        lst[-2] = ()
        yield tuple(lst)


# Shrinking effort is bounded twice: by a number of candidate evaluations per failure, and by wall time
# per worker process -- on a badly broken tree thousands of cases fail and every candidate may run
# into the engine's step budget.  (Time only limits how small the replay file gets, never the verdict.)
BUDGET_S = 25.0
_spent = [0.0]


class _Budget:
    def __init__(self, max_steps):
        import time
        self.left = max_steps if _spent[0] < BUDGET_S else 0
        self.t0 = time.time()

    def ok(self):
        import time
        self.left -= 1
        return self.left >= 0 and time.time() - self.t0 < BUDGET_S

    def close(self):
        import time
        _spent[0] += time.time() - self.t0


def shrink(node, fails, max_steps=4000):
    b = _Budget(max_steps)

    def guarded(f):
        def g(n):
            if not b.ok():
                return False
            try:
                return f(n)
            except Exception:
                return False
        return g

    try:
        improved = True
        while improved and b.left > 0:
            improved = False
            small = shrink_once(node, guarded(fails), guarded)
            if small is not None and small != node:
                node = small
                improved = True
    finally:
        b.close()
    return node


def shrink_once(node, fails, guarded):
    """One successful reduction somewhere inside NODE (top level first), or None."""
    for c in candidates(node):
        if c != node and fails(c):
            return c
    for path, child in children(node):
        def sub_fails(c, path=path):
            return fails(replace_at(node, path, c))
        small = shrink_once(child, sub_fails, guarded)
        if small is not None:
            return replace_at(node, path, small)
    return None
