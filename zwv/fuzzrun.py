"""libFuzzer campaign runner for drv/fuzz_query (C13, C14)."""
import glob, json, os, re, shutil, subprocess, time

from .drv import BUILD, VERIF, Driver

FUZZ = os.path.join(BUILD, "bin", "fuzz_query")
TOKENS = ["(", ")", "?(", "!(", "[", "]", "{", "}", "?{", "!{", "*", "+", "?", ",", "||", "|", ":", ";", ":=",
          "if", "then", "else", "let", "\\dbg", "\"", "r\"", "%(", "%)", "%s", "%d", "%x", "%o", "%b", "%%",
          "\\\"", "\"\\ \"", "==", "!=", "<", "<=", ">", ">=", "=~", "!~", "//", "#", "/*", "*/", "0x", "0b", "0o",
          "-1", "0xffffffffffffffff", "-0x8000000000000000", "|A|", "|A B|", "A", "B", "`[", "?0", "!1"]


def seeds_from_tests():
    try:
        return json.load(open(os.path.join(VERIF, "corpus", "tests_sh_queries.json")))
    except (OSError, ValueError):
        return []


def write_dict(path, words):
    with open(path, "w") as f:
        for w in words:
            esc = "".join(c if 0x20 <= ord(c) < 0x7f and c not in '"\\' else "\\x%02x" % ord(c) for c in w)
            f.write('"%s"\n' % esc)


def prepare(workdir, with_seeds, vocab_sample=260):
    shutil.rmtree(workdir, ignore_errors=True)
    os.makedirs(os.path.join(workdir, "corpus"))
    os.makedirs(os.path.join(workdir, "artifacts"))
    drv = Driver()
    words = drv.vocab("core") + drv.vocab("dw")
    drv.kill()
    # all core words, and an evenly spaced sample of the DWARF vocabulary
    core = [w for w in words if not w.startswith(("DW_", "?DW_", "!DW_", "@DW_", "?AT_", "!AT_", "@AT_", "?TAG_", "!TAG_",
                                                  "?FORM", "!FORM", "?OP_", "!OP_", "?LANG", "!LANG", "?ATE", "!ATE",
                                                  "STT_", "STB_", "STV_", "?ST", "!ST"))]
    rest = [w for w in words if w not in core]
    step = max(1, len(rest) // vocab_sample)
    write_dict(os.path.join(workdir, "dict"), TOKENS + core + rest[::step])
    n = 0
    if with_seeds:
        for q in seeds_from_tests():
            for mode in (0, 1, 2):
                with open(os.path.join(workdir, "corpus", "s%04d" % n), "wb") as f:
                    f.write(q.encode("latin-1") + bytes([8, mode]))
                n += 1
    return n


def run_campaign(workdir, seconds, workers, seed, dw_file, max_len=160):
    """Runs libFuzzer in fork mode.  Returns dict(stats, crashes=[paths])."""
    env = dict(os.environ)
    env["ZW_FUZZ_DW"] = dw_file
    env["ASAN_OPTIONS"] = "detect_leaks=1:malloc_context_size=15:allocator_may_return_null=0:max_allocation_size_mb=1024"
    env["UBSAN_OPTIONS"] = "print_stacktrace=1:halt_on_error=1"
    cmd = [FUZZ, "-fork=%d" % workers, "-max_total_time=%d" % seconds, "-max_len=%d" % max_len,
           "-seed=%d" % (seed + 1), "-dict=" + os.path.join(workdir, "dict"), "-close_fd_mask=2",
           "-rss_limit_mb=2500", "-malloc_limit_mb=1024", "-timeout=25", "-ignore_ooms=1", "-ignore_timeouts=1",
           "-ignore_crashes=1", "-artifact_prefix=" + os.path.join(workdir, "artifacts") + "/",
           "-print_final_stats=1", os.path.join(workdir, "corpus")]
    t0 = time.time()
    p = subprocess.run(cmd, stdout=subprocess.PIPE, stderr=subprocess.STDOUT, env=env, cwd=workdir,
                       timeout=seconds + 600)
    out = p.stdout.decode("latin-1")
    stats = {"wall_s": round(time.time() - t0, 1), "rc": p.returncode}
    m = re.findall(r"#(\d+): cov: (\d+) ft: (\d+) corp: (\d+) exec/s:? (\d+)", out)
    if m:
        last = m[-1]
        stats.update(execs=int(last[0]), cov=int(last[1]), ft=int(last[2]), corp=int(last[3]), exec_s=int(last[4]))
    crashes = sorted(glob.glob(os.path.join(workdir, "artifacts", "crash-*")) +
                     glob.glob(os.path.join(workdir, "artifacts", "leak-*")))
    noise = len(glob.glob(os.path.join(workdir, "artifacts", "oom-*"))) + \
        len(glob.glob(os.path.join(workdir, "artifacts", "timeout-*"))) + \
        len(glob.glob(os.path.join(workdir, "artifacts", "slow-unit-*")))
    stats["load_noise_artifacts"] = noise
    return {"stats": stats, "crashes": crashes, "log_tail": out[-3000:]}


def reproduce(artifact, dw_file, runs=3):
    """Re-run a saved input; returns (n_failures, last report)."""
    env = dict(os.environ)
    env["ZW_FUZZ_DW"] = dw_file
    env["ASAN_OPTIONS"] = "detect_leaks=1:malloc_context_size=15"
    env["UBSAN_OPTIONS"] = "print_stacktrace=1:halt_on_error=1"
    fails = 0
    rep = ""
    for _ in range(runs):
        p = subprocess.run([FUZZ, "-rss_limit_mb=2500", "-malloc_limit_mb=1024", "-timeout=25", artifact],
                           stdout=subprocess.PIPE, stderr=subprocess.STDOUT, env=env)
        if p.returncode != 0:
            fails += 1
            rep = p.stdout.decode("latin-1")[-4000:]
    return fails, rep
