"""Turn driver dumps into canonical values and compare them with model values."""
from collections import Counter
from . import model as M

SLOT_NAMES = {"T_CONST": 2, "T_STR": 3, "T_SEQ": 4, "T_CLOSURE": 5}


def from_dump(d):
    """Driver JSON value -> model value (core types only)."""
    t = d["t"]
    if t == "c":
        dom = d["d"]
        v = int(d["v"])
        if dom == "T_*":
            name = bytes.fromhex(d["f"]).decode()
            v = SLOT_NAMES.get(name, -1)
        return M.VConst(v, dom, d["p"])
    if t == "s":
        return M.VStr(bytes.fromhex(d["x"]), d["p"])
    if t == "q":
        return M.VSeq([from_dump(e) for e in d["e"]], d["p"])
    if t == "k":
        return M.VClosure(None, None, (), "", d["p"])
    raise ValueError("non-core value in dump: " + t)


def key(v, with_pos=True, mpos=None):
    """Canonical hashable key.  mpos: the model's pos (None = don't care)."""
    p = v.pos if with_pos else None
    if v.t == "c":
        return ("c", v.value, v.dom, p)
    if v.t == "s":
        return ("s", v.data, p)
    if v.t == "q":
        ks = [key(e, with_pos) for e in v.items]
        if v.bag:
            ks = sorted(ks, key=repr)
        return ("q", tuple(ks), p)
    return ("k", p)


def match_value(m, e):
    """Does engine value E equal model value M (pos None in the model = don't care)?"""
    if m.t != e.t:
        return False
    if m.pos is not None and m.pos != e.pos:
        return False
    if m.t == "c":
        return m.value == e.value and m.dom == e.dom
    if m.t == "s":
        return m.data == e.data
    if m.t == "q":
        if len(m.items) != len(e.items):
            return False
        if not m.bag:
            return all(match_value(x, y) for x, y in zip(m.items, e.items))
        return match_multiset(m.items, e.items, match_value)
    return True


def match_stack(ms, es):
    return len(ms) == len(es) and all(match_value(a, b) for a, b in zip(ms, es))


def match_multiset(ms, es, f):
    """Is there a perfect matching between MS and ES under the compatibility predicate F?
    Augmenting paths (Kuhn): O(n^3) calls of F at worst -- a backtracking search is exponential
    exactly when the answer is no, i.e. on the broken trees this is meant to diagnose."""
    n = len(ms)
    if n != len(es):
        return False
    es = list(es)
    adj = [[j for j in range(n) if f(ms[i], es[j])] for i in range(n)]
    owner = [-1] * n           # es index -> ms index

    def augment(i, seen):
        for j in adj[i]:
            if j in seen:
                continue
            seen.add(j)
            if owner[j] < 0 or augment(owner[j], seen):
                owner[j] = i
                return True
        return False

    for i in range(n):
        if not adj[i] or not augment(i, set()):
            return False
    return True


def strip_pos(v):
    """Key ignoring pos everywhere (for cheap multiset prefilter)."""
    if v.t == "c":
        return ("c", v.value, v.dom)
    if v.t == "s":
        return ("s", v.data)
    if v.t == "q":
        ks = [strip_pos(e) for e in v.items]
        return ("q", tuple(sorted(ks, key=repr)))
    return ("k",)


def compare_results(model_stacks, ordered, engine_stacks):
    """Returns None if they agree, else a short reason."""
    if len(model_stacks) != len(engine_stacks):
        return "result count: model %d, engine %d" % (len(model_stacks), len(engine_stacks))
    if ordered:
        for i, (ms, es) in enumerate(zip(model_stacks, engine_stacks)):
            if not match_stack(ms, es):
                return "result #%d differs: model %r, engine %r" % (i, ms, es)
        return None
    a = Counter(tuple(strip_pos(v) for v in s) for s in model_stacks)
    b = Counter(tuple(strip_pos(v) for v in s) for s in engine_stacks)
    if a != b:
        return "result multisets differ: only model %r, only engine %r" % (
            list((a - b).elements())[:3], list((b - a).elements())[:3])
    if len(model_stacks) <= 200 and not match_multiset(model_stacks, engine_stacks, match_stack):
        return "result multisets differ in positions"
    return None


def show(v):
    """Compact human-readable form for samples."""
    if v.t == "c":
        return "%s:%d@%s" % (v.dom, v.value, v.pos)
    if v.t == "s":
        return "%r@%s" % (v.data, v.pos)
    if v.t == "q":
        return "[" + ", ".join(show(e) for e in v.items) + "]@%s" % v.pos
    return "closure"
