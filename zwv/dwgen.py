"""Pure-Python writer of ELF files with DWARF (.debug_info/.debug_abbrev/.debug_str/...) and
ELF symbol tables, together with the *forest model*: everything dwgrep should report is known
by construction (offsets, parents, units, abbreviation codes, attribute names/forms/values).

Only well-formed DWARF is produced.  32-bit DWARF format, address size 8 unless said otherwise.
"""
import struct

# byte order of the DWARF sections being written: set by Forest.layout from the forest's `big` attribute (the
# ELF header written by build_file says the same)
_BIG = False


def _E():
    return ">" if _BIG else "<"


def _BO():
    return "big" if _BIG else "little"


# ---- DWARF constants (numbers from the DWARF standard; names only for readability) ----
TAG = dict(array_type=0x01, class_type=0x02, enumeration_type=0x04, formal_parameter=0x05, imported_declaration=0x08,
           label=0x0a, lexical_block=0x0b, member=0x0d, pointer_type=0x0f, reference_type=0x10, compile_unit=0x11,
           string_type=0x12, structure_type=0x13, subroutine_type=0x15, typedef=0x16, union_type=0x17,
           unspecified_parameters=0x18, variant=0x19, inlined_subroutine=0x1d, subrange_type=0x21, base_type=0x24,
           const_type=0x26, enumerator=0x28, subprogram=0x2e, template_value_parameter=0x30, variable=0x34,
           volatile_type=0x35, namespace=0x39, imported_unit=0x3d, partial_unit=0x3c, unspecified_type=0x3b,
           template_type_parameter=0x2f, restrict_type=0x37, type_unit=0x41, skeleton_unit=0x4a)
AT = dict(sibling=0x01, location=0x02, name=0x03, ordering=0x09, byte_size=0x0b, bit_size=0x0d, stmt_list=0x10,
          low_pc=0x11, high_pc=0x12, language=0x13, discr_value=0x16, visibility=0x17, import_=0x18, string_length=0x19,
          const_value=0x1c, containing_type=0x1d, default_value=0x1e, inline=0x20, is_optional=0x21, lower_bound=0x22,
          producer=0x25, prototyped=0x27, return_addr=0x2a, start_scope=0x2c, bit_stride=0x2e, upper_bound=0x2f,
          abstract_origin=0x31, accessibility=0x32, address_class=0x33, artificial=0x34, base_types=0x35,
          calling_convention=0x36, count=0x37, data_member_location=0x38, decl_column=0x39, decl_file=0x3a,
          decl_line=0x3b, declaration=0x3c, encoding=0x3e, external=0x3f, frame_base=0x40, identifier_case=0x42,
          specification=0x47, type=0x49, virtuality=0x4c, data_location=0x50, byte_stride=0x51, entry_pc=0x52,
          ranges=0x55, endianity=0x65, decimal_sign=0x5e, object_pointer=0x64, linkage_name=0x6e, alignment=0x88,
          defaulted=0x8b, comp_dir=0x1b, call_line=0x59, call_column=0x57, call_file=0x58, explicit=0x63, rank=0x71,
          enum_class=0x6d, main_subprogram=0x6a, macro_info=0x43, MIPS_linkage_name=0x2007, GNU_all_tail_call_sites=0x2116, GNU_all_call_sites=0x2117, GNU_deleted=0x211a, segment=0x46, static_link=0x48, use_location=0x4a, vtable_elem_location=0x4d, data_bit_offset=0x6b, const_expr=0x6c, noreturn=0x87)
FORM = dict(addr=0x01, block2=0x03, block4=0x04, data2=0x05, data4=0x06, data8=0x07, string=0x08, block=0x09,
            block1=0x0a, data1=0x0b, flag=0x0c, sdata=0x0d, strp=0x0e, udata=0x0f, ref_addr=0x10, ref1=0x11, ref2=0x12,
            ref4=0x13, ref8=0x14, ref_udata=0x15, indirect=0x16, sec_offset=0x17, exprloc=0x18, flag_present=0x19,
            strx=0x1a, addrx=0x1b, ref_sup4=0x1c, strp_sup=0x1d, data16=0x1e, line_strp=0x1f, ref_sig8=0x20,
            implicit_const=0x21, loclistx=0x22, rnglistx=0x23, GNU_ref_alt=0x1f20)
ATE = dict(address=1, boolean=2, complex_float=3, float=4, signed=5, signed_char=6, unsigned=7, unsigned_char=8,
           imaginary_float=9, packed_decimal=0xa, numeric_string=0xb, edited=0xc, signed_fixed=0xd, unsigned_fixed=0xe,
           decimal_float=0xf, UTF=0x10, UCS=0x11, ASCII=0x12)
UT_compile, UT_type, UT_partial, UT_skeleton = 1, 2, 3, 4

TAG_NAME = {v: k for k, v in TAG.items()}
AT_NAME = {v: k for k, v in AT.items()}
FORM_NAME = {v: k for k, v in FORM.items()}


def uleb(v):
    assert v >= 0
    out = bytearray()
    while True:
        b = v & 0x7f
        v >>= 7
        if v:
            out.append(b | 0x80)
        else:
            out.append(b)
            return bytes(out)


def sleb(v):
    out = bytearray()
    while True:
        b = v & 0x7f
        v >>= 7
        if (v == 0 and not b & 0x40) or (v == -1 and b & 0x40):
            out.append(b)
            return bytes(out)
        out.append(b | 0x80)


class RefOverflow(Exception):
    def __init__(self, attr):
        Exception.__init__(self, "reference does not fit its form")
        self.attr = attr


class Attr:
    """name, form: ints.  value: meaning depends on form:
       int for data/udata/sdata/addr/flag/sec_offset/implicit_const; bytes for string/strp/line_strp/block*/exprloc/data16;
       Die for ref forms; None for flag_present.  indirect=True wraps the form in DW_FORM_indirect."""

    def __init__(self, name, form, value=None, indirect=False):
        self.name = name
        self.form = form
        self.value = value
        self.indirect = indirect

    @property
    def abbrev_form(self):
        return FORM["indirect"] if self.indirect else self.form

    def __repr__(self):
        return "Attr(%s,%s,%r)" % (AT_NAME.get(self.name, hex(self.name)), FORM_NAME.get(self.form, hex(self.form)),
                                   self.value if not isinstance(self.value, Die) else "DIE")


class Die:
    def __init__(self, tag, attrs=None, children=None, has_children=None):
        self.tag = tag
        self.attrs = list(attrs or [])
        self.children = list(children or [])
        # The abbreviation's children flag; may claim children where there are none.
        self.has_children = bool(self.children) if has_children is None else has_children
        assert self.has_children or not self.children
        self.offset = None
        self.unit = None
        self.parent = None
        self.abbrev_code = None

    def attr(self, name):
        for a in self.attrs:
            if a.name == name:
                return a
        return None

    def walk(self):
        yield self
        for c in self.children:
            for d in c.walk():
                yield d


class AbbrevTable:
    """May be shared by several units."""

    def __init__(self):
        self.entries = []     # (code, tag, has_children, [(name, form, implicit value or None)])
        self.index = {}
        self.offset = None
        self.entry_offsets = {}

    def code_for(self, die):
        key = (die.tag, die.has_children, tuple((a.name, a.abbrev_form, a.value if a.form == FORM["implicit_const"] and not a.indirect else None)
                                                for a in die.attrs))
        if key not in self.index:
            code = len(self.entries) + 1
            self.index[key] = code
            self.entries.append((code, die.tag, die.has_children, list(key[2])))
        return self.index[key]

    def encode(self):
        out = bytearray()
        for code, tag, ch, attrs in self.entries:
            self.entry_offsets[code] = len(out)
            out += uleb(code) + uleb(tag) + bytes([1 if ch else 0])
            for name, form, imp in attrs:
                out += uleb(name) + uleb(form)
                if form == FORM["implicit_const"]:
                    out += sleb(imp)
            out += b"\0\0"
        out += b"\0"
        return bytes(out)


class Unit:
    def __init__(self, root, version=4, abbrevs=None, address_size=8, types_section=False):
        assert root.tag in (TAG["compile_unit"], TAG["partial_unit"], TAG["type_unit"], TAG["skeleton_unit"])
        # a DWARF 4 type unit lives in .debug_types (a Forest of its own: Forest.types), a DWARF 5 one in .debug_info
        assert types_section == (version == 4 and root.tag == TAG["type_unit"])
        assert version >= 5 or root.tag in (TAG["compile_unit"], TAG["partial_unit"]) or types_section
        self.types_section = types_section
        self.signature = None   # type units: set by the layout
        self.root = root
        self.version = version
        self.abbrevs = abbrevs or AbbrevTable()
        self.address_size = address_size
        self.offset = None
        self.size = None
        self.files = []         # absolute file names (bytes) of this unit's line table: DW_AT_decl_file N names files[N-1]

    @property
    def partial(self):
        return self.root.tag == TAG["partial_unit"]

    @property
    def unit_type(self):
        return {TAG["compile_unit"]: UT_compile, TAG["partial_unit"]: UT_partial, TAG["type_unit"]: UT_type,
                TAG["skeleton_unit"]: UT_skeleton}[self.root.tag]

    def header_size(self):
        if self.types_section:
            return 23
        if self.version < 5:
            return 11
        return 12 + {UT_type: 12, UT_skeleton: 8}.get(self.unit_type, 0)

    def dies(self):
        return list(self.root.walk())


class Forest:
    def __init__(self, units):
        self.units = units
        self.strtab = bytearray(b"\0")
        self.stroff = {}
        self.line_strtab = bytearray(b"\0")
        self.line_stroff = {}
        # None: abbreviation tables are stored in the order in which units first use them (what compilers
        # do); a number: stored in an order shuffled with that seed, so that units refer to them out of order
        self.table_shuffle = None
        # .debug_line: line_table()s of the units that have files (Unit.files; their roots carry DW_AT_stmt_list)
        self.line_section = bytearray()
        # dwz-style supplementary file: a Forest of its own (own offsets, own sections), written as a second ELF
        # file ALT_NAME next to the main one; DW_FORM_GNU_ref_alt / DW_FORM_ref_sup4 attributes of this forest
        # hold DIEs of it.  The two files are tied by .gnu_debugaltlink / .note.gnu.build-id.
        self.alt = None
        self.alt_name = b"supplementary.dwz"
        self.build_id = bytes.fromhex("c06c06a170071122") + b"\x5a" * 12
        # DWARF 4 type units: a Forest whose units go to .debug_types of the same file (offsets of that section
        # start at 0 again); DW_FORM_ref_sig8 attributes hold the type DIE (first child of the root) of one
        self.types = None
        self.abbrev_base = 0    # where this forest's abbreviation tables start in the file's .debug_abbrev

    def all_dies(self):
        out = []
        for u in self.units:
            out += u.dies()
        return out

    def str_offset(self, s, line=False):
        tab, idx = (self.line_strtab, self.line_stroff) if line else (self.strtab, self.stroff)
        if s not in idx:
            idx[s] = len(tab)
            tab += s + b"\0"
        return idx[s]

    # ---- layout ----------------------------------------------------------------
    def ref_size(self, unit, form):
        if form == FORM["ref_addr"]:
            return unit.address_size if unit.version == 2 else 4
        return {FORM["ref1"]: 1, FORM["ref2"]: 2, FORM["ref4"]: 4, FORM["ref8"]: 8}[form]

    def enc_attr(self, unit, a, final):
        f = a.form
        v = a.value
        pre = uleb(f) if a.indirect else b""
        F = FORM
        if f == F["addr"]:
            return pre + v.to_bytes(unit.address_size, _BO())
        if f in (F["data1"], F["data2"], F["data4"], F["data8"]):
            n = {F["data1"]: 1, F["data2"]: 2, F["data4"]: 4, F["data8"]: 8}[f]
            return pre + (v & ((1 << (8 * n)) - 1)).to_bytes(n, _BO())
        if f == F["data16"]:
            assert len(v) == 16
            return pre + v
        if f == F["sdata"]:
            return pre + sleb(v)
        if f == F["udata"]:
            return pre + uleb(v)
        if f == F["string"]:
            assert b"\0" not in v
            return pre + v + b"\0"
        if f == F["strp"]:
            return pre + struct.pack(_E() + "I", self.str_offset(v))
        if f == F["line_strp"]:
            return pre + struct.pack(_E() + "I", self.str_offset(v, True))
        if f == F["flag"]:
            return pre + bytes([v & 0xff])
        if f == F["flag_present"]:
            return pre
        if f == F["implicit_const"]:
            return pre
        if f == F["sec_offset"]:
            return pre + struct.pack(_E() + "I", v)
        if f == F["block1"]:
            return pre + bytes([len(v)]) + v
        if f == F["block2"]:
            return pre + struct.pack(_E() + "H", len(v)) + v
        if f == F["block4"]:
            return pre + struct.pack(_E() + "I", len(v)) + v
        if f in (F["block"], F["exprloc"]):
            return pre + uleb(len(v)) + v
        if f in (F["GNU_ref_alt"], F["ref_sup4"]):
            assert not final or v.offset is not None, "the supplementary forest is laid out first"
            return pre + struct.pack(_E() + "I", v.offset or 0)
        if f == F["ref_sig8"]:
            assert not final or (v.unit.signature is not None and v is v.unit.root.children[0])
            return pre + struct.pack(_E() + "Q", (v.unit.signature or 0) if v.unit is not None else 0)
        if f in (F["ref1"], F["ref2"], F["ref4"], F["ref8"], F["ref_addr"], F["ref_udata"]):
            target = v.offset if (isinstance(v, Die) and v.offset is not None) else 0
            if f == F["ref_addr"]:
                val = target
            else:
                if final:
                    assert v.unit is unit, "CU-relative reference across units"
                val = target - (unit.offset or 0) if isinstance(v, Die) and v.offset is not None else 0
            if f == F["ref_udata"]:
                return pre + uleb(max(val, 0))
            n = self.ref_size(unit, f)
            if final and not 0 <= val < (1 << (8 * n)):
                raise RefOverflow(a)
            return pre + (val & ((1 << (8 * n)) - 1)).to_bytes(n, _BO())
        raise ValueError("form %#x" % f)

    def layout(self):
        """Assign offsets, parents, units and abbreviation codes; returns (.debug_info, .debug_abbrev).
        A ref1/ref2 whose target turns out too far away is widened to ref4."""
        global _BIG
        _BIG = bool(getattr(self, "big", False))
        while True:
            try:
                return self._layout_once()
            except RefOverflow as e:
                e.attr.form = FORM["ref4"]
                for u in self.units:
                    u.abbrevs.entries = []
                    u.abbrevs.index = {}
                    u.abbrevs.entry_offsets = {}
                    u.offset = None
                for d in self.all_dies():
                    d.offset = None

    def _layout_once(self):
        tables = []
        for u in self.units:
            if u.abbrevs not in tables:
                tables.append(u.abbrevs)
            for d in u.dies():
                d.unit = u
            for d in u.dies():
                d.abbrev_code = u.abbrevs.code_for(d)
                for c in d.children:
                    c.parent = d
            u.root.parent = None
        # abbrev section
        if self.table_shuffle is not None:
            import random as _random
            _random.Random(self.table_shuffle).shuffle(tables)
        ab = bytearray()
        for t in tables:
            t.offset = self.abbrev_base + len(ab)
            ab += t.encode()
        # iterate to a fixpoint (ref_udata sizes depend on offsets)
        for _ in range(8):
            changed = False
            pos = 0
            for u in self.units:
                if u.offset != pos:
                    u.offset = pos
                    changed = True
                pos += u.header_size()
                pos, ch = self._layout_die(u, u.root, pos)
                changed = changed or ch
                u.size = pos - u.offset
            if not changed:
                break
        info = bytearray()
        for u in self.units:
            if u.types_section:
                u.signature = 0x7700000000000000 + self.units.index(u)
        for u in self.units:
            body = bytearray()
            self._emit_die(u, u.root, body)
            if u.types_section:
                u.signature = 0x7700000000000000 + self.units.index(u)
                kid = u.root.children[0].offset - u.offset
                hdr = struct.pack(_E() + "HIB", u.version, u.abbrevs.offset, u.address_size) + struct.pack(_E() + "QI", u.signature, kid)
            elif u.version >= 5:
                hdr = struct.pack(_E() + "HBBI", u.version, u.unit_type, u.address_size, u.abbrevs.offset)
                if u.unit_type == UT_type:
                    # type signature, and the offset (within the unit) of the DIE that is the type: the first child
                    kid = u.root.children[0].offset - u.offset if u.root.children else 0
                    u.signature = 0x1122334455660000 + (u.offset & 0xffff)
                    hdr += struct.pack(_E() + "QI", u.signature, kid)
                elif u.unit_type == UT_skeleton:
                    hdr += struct.pack(_E() + "Q", 0x0badc0de00000000 + (u.offset & 0xffff))
            else:
                hdr = struct.pack(_E() + "HIB", u.version, u.abbrevs.offset, u.address_size)
            unit = struct.pack(_E() + "I", len(hdr) + len(body)) + hdr + body
            assert len(info) == u.offset and len(unit) == u.size, (len(info), u.offset, len(unit), u.size)
            info += unit
        return bytes(info), bytes(ab)

    def _layout_die(self, u, d, pos):
        changed = d.offset != pos
        d.offset = pos
        pos += len(uleb(d.abbrev_code))
        for a in d.attrs:
            pos += len(self.enc_attr(u, a, False))
        if d.has_children:
            for c in d.children:
                pos, ch = self._layout_die(u, c, pos)
                changed = changed or ch
            pos += 1
        return pos, changed

    def _emit_die(self, u, d, out):
        assert u.offset + u.header_size() + len(out) == d.offset
        out += uleb(d.abbrev_code)
        for a in d.attrs:
            out += self.enc_attr(u, a, True)
        if d.has_children:
            for c in d.children:
                self._emit_die(u, c, out)
            out += b"\0"


# ---------------------------------------------------------------- ELF writer

SHT_NULL, SHT_PROGBITS, SHT_SYMTAB, SHT_STRTAB, SHT_NOTE = 0, 1, 2, 3, 7


class Sym:
    def __init__(self, name=b"", value=0, size=0, typ=0, bind=0, vis=0, shndx=0, other_hi=0):
        self.name, self.value, self.size, self.typ, self.bind, self.vis, self.shndx = name, value, size, typ, bind, vis, shndx
        self.other_hi = other_hi


def write_elf(sections, symbols=None, machine=62, bits=64, big=False, etype=1, osabi=0):
    """sections: list of (name bytes, data bytes).  symbols: list of Sym or None.
    Returns file bytes.  ET_REL, no program headers, no relocations."""
    E = ">" if big else "<"
    secs = [(b"", b"", SHT_NULL, 0, 0, 0)]
    for sec in sections:
        name, data = sec[0], sec[1]
        secs.append((name, data, sec[2] if len(sec) > 2 else SHT_PROGBITS, 0, 0, 0))
    if symbols is not None:
        strtab = bytearray(b"\0")
        symdata = bytearray()
        for s in symbols:
            if s.name:
                off = len(strtab)
                strtab += s.name + b"\0"
            else:
                off = 0
            info = ((s.bind & 0xf) << 4) | (s.typ & 0xf)
            other = (s.vis & 3) | (s.other_hi & 0xfc)
            if bits == 64:
                symdata += struct.pack(E + "IBBHQQ", off, info, other, s.shndx, s.value, s.size)
            else:
                symdata += struct.pack(E + "IIIBBH", off, s.value & 0xffffffff, s.size & 0xffffffff, info, other, s.shndx)
        strndx = len(secs) + 1
        nlocal = 0
        for i, s in enumerate(symbols):
            if s.bind == 0:
                nlocal = i + 1
        secs.append((b".symtab", bytes(symdata), SHT_SYMTAB, strndx, nlocal, 24 if bits == 64 else 16))
        secs.append((b".strtab", bytes(strtab), SHT_STRTAB, 0, 0, 0))
    shstr = bytearray(b"\0")
    nameoff = []
    for s in secs:
        if s[0]:
            nameoff.append(len(shstr))
            shstr += s[0] + b"\0"
        else:
            nameoff.append(0)
    shstrndx = len(secs)
    nameoff.append(len(shstr))
    shstr += b".shstrtab\0"
    secs.append((b".shstrtab", bytes(shstr), SHT_STRTAB, 0, 0, 0))
    ehsize = 64 if bits == 64 else 52
    shentsize = 64 if bits == 64 else 40
    body = bytearray()
    offs = []
    pos = ehsize
    for s in secs:
        pad = (-pos) % 8
        body += b"\0" * pad
        pos += pad
        offs.append(pos)
        body += s[1]
        pos += len(s[1])
    pad = (-pos) % 8
    body += b"\0" * pad
    pos += pad
    shoff = pos
    ident = b"\x7fELF" + bytes([2 if bits == 64 else 1, 2 if big else 1, 1, osabi]) + b"\0" * 8
    if bits == 64:
        hdr = ident + struct.pack(E + "HHIQQQIHHHHHH", etype, machine, 1, 0, 0, shoff, 0, ehsize, 0, 0, shentsize, len(secs), shstrndx)
    else:
        hdr = ident + struct.pack(E + "HHIIIIIHHHHHH", etype, machine, 1, 0, 0, shoff, 0, ehsize, 0, 0, shentsize, len(secs), shstrndx)
    sh = bytearray()
    for i, s in enumerate(secs):
        name, data, typ, link, info, entsize = s
        off = offs[i] if typ != SHT_NULL else 0
        if bits == 64:
            sh += struct.pack(E + "IIQQQQIIQQ", nameoff[i], typ, 0, 0, off, len(data), link, info, 1 if typ else 0, entsize)
        else:
            sh += struct.pack(E + "IIIIIIIIII", nameoff[i], typ, 0, 0, off, len(data), link, info, 1 if typ else 0, entsize)
    return bytes(hdr) + bytes(body) + bytes(sh)


def line_table(files):
    """A DWARF 4 line number program header with FILES (absolute names, bytes) as files 1..n and an
    empty program.  Good for every unit version: the table carries its own version."""
    std_lengths = bytes([0, 1, 1, 1, 1, 0, 0, 0, 1, 0, 0, 1])
    after = bytes([1, 1, 1, 0xfb, 14, 13]) + std_lengths        # min_inst, max_ops, default_is_stmt, line_base, line_range, opcode_base
    after += b"\0"                                                # no include directories
    for f in files:
        after += f + b"\0" + b"\0\0\0"                            # name, dir 0, mtime 0, length 0
    after += b"\0"
    prog = bytes([0, 1, 1])                                       # DW_LNE_end_sequence
    body = struct.pack(_E() + "H", 4) + struct.pack(_E() + "I", len(after)) + after + prog
    return struct.pack(_E() + "I", len(body)) + body


def build_alt_file(forest):
    """The supplementary file of FOREST (forest.alt), to be stored as forest.alt_name in the directory of the
    main file."""
    alt = forest.alt
    info, ab = alt.layout()
    note = struct.pack("<III", 4, len(forest.build_id), 3) + b"GNU\0" + forest.build_id
    return write_elf([(b".debug_info", info), (b".debug_abbrev", ab), (b".debug_str", bytes(alt.strtab)),
                      (b".note.gnu.build-id", note, SHT_NOTE)], [Sym()])


def build_file(forest, extra_sections=None, symbols=None):
    if forest.alt is not None:
        forest.alt.layout()         # its offsets are what DW_FORM_GNU_ref_alt attributes store
    if forest.types is not None:
        forest.types.layout()       # signatures
    info, ab = forest.layout()
    if forest.types is not None:
        t = forest.types
        t.strtab, t.stroff = forest.strtab, forest.stroff
        t.abbrev_base = len(ab)
        tinfo, tab = t.layout()
        ab += tab
    secs = [(b".debug_info", info), (b".debug_abbrev", ab), (b".debug_str", bytes(forest.strtab))]
    if forest.types is not None:
        secs.append((b".debug_types", tinfo))
    if forest.alt is not None:
        secs.append((b".gnu_debugaltlink", forest.alt_name + b"\0" + forest.build_id))
    if len(forest.line_strtab) > 1:
        secs.append((b".debug_line_str", bytes(forest.line_strtab)))
    if forest.line_section:
        secs.append((b".debug_line", bytes(forest.line_section)))
        extra_sections = [x for x in (extra_sections or []) if x[0] != b".debug_line"]
    for s in extra_sections or []:
        secs.append(s)
    if symbols is None:
        symbols = [Sym()]
    if getattr(forest, "big", False):
        return write_elf(secs, symbols, machine=21, big=True)       # a big-endian file (EM_PPC64)
    return write_elf(secs, symbols)
