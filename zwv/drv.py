"""Client for the persistent zwdrv process (see /verif/drv/zwdrv.cc)."""
import json, os, select, signal, subprocess, tempfile, time

VERIF = os.path.dirname(os.path.dirname(os.path.abspath(__file__)))
BUILD = os.environ.get("VERIF_BUILD", os.path.join(VERIF, "build"))
ZWDRV = os.path.join(BUILD, "bin", "zwdrv")
RUNDIR = os.path.join(BUILD, "run")

SAN_ENV = {
    "ASAN_OPTIONS": "abort_on_error=1:detect_leaks=1:malloc_context_size=12:"
                    "handle_abort=0:allocator_may_return_null=0:detect_stack_use_after_return=0:"
                    "max_allocation_size_mb=2048:symbolize=1",
    "UBSAN_OPTIONS": "print_stacktrace=1:abort_on_error=1:halt_on_error=1",
    "LSAN_OPTIONS": "exitcode=23",
}


class DriverCrash(Exception):
    """The driver died (sanitizer report, assert, hook abort, signal)."""

    def __init__(self, request, report, rc):
        Exception.__init__(self, "driver died rc=%s on %r\n%s" % (rc, request[:200], report[-3000:]))
        self.request = request
        self.report = report
        self.rc = rc


class DriverTimeout(Exception):
    def __init__(self, request):
        Exception.__init__(self, "driver watchdog on %r" % request[:200])
        self.request = request


def hexs(b):
    if isinstance(b, str):
        b = b.encode("latin-1")
    return b.hex() if b else "-"


class Driver:
    def __init__(self, timeout=30.0, env=None):
        self.timeout = timeout
        self.env = env
        self.p = None
        self.requests = 0
        self.restarts = 0
        self.start()

    def start(self):
        os.makedirs(RUNDIR, exist_ok=True)
        self.errf = tempfile.TemporaryFile(dir=RUNDIR)
        env = dict(os.environ)
        env.update(SAN_ENV)
        if self.env:
            env.update(self.env)
        self.p = subprocess.Popen([ZWDRV], stdin=subprocess.PIPE, stdout=subprocess.PIPE,
                                  stderr=self.errf, env=env, bufsize=0)
        self.buf = b""

    def close(self):
        """Orderly shutdown; returns (rc, stderr text).  rc 23 = LSan found leaks at exit."""
        if self.p is None:
            return 0, ""
        try:
            self.p.stdin.write(b"quit\n")
            self.p.stdin.close()
        except OSError:
            pass
        try:
            rc = self.p.wait(timeout=60)
        except subprocess.TimeoutExpired:
            self.p.kill()
            rc = self.p.wait()
        self.errf.seek(0)
        txt = self.errf.read().decode("latin-1")
        self.errf.close()
        self.p = None
        return rc, txt

    def kill(self):
        if self.p is not None:
            try:
                self.p.kill()
                self.p.wait()
            except OSError:
                pass
            try:
                self.errf.close()
            except OSError:
                pass
            self.p = None

    def restart(self):
        self.kill()
        self.restarts += 1
        self.start()

    def _readline(self, request):
        deadline = time.time() + self.timeout
        fd = self.p.stdout.fileno()
        while b"\n" not in self.buf:
            left = deadline - time.time()
            if left <= 0:
                self.kill()
                self.restarts += 1
                self.start()
                raise DriverTimeout(request)
            r, _, _ = select.select([fd], [], [], min(left, 1.0))
            if not r:
                if self.p.poll() is not None:
                    break
                continue
            chunk = os.read(fd, 1 << 20)
            if not chunk:
                break
            self.buf += chunk
        if b"\n" not in self.buf:
            rc = self.p.wait()
            self.errf.seek(0)
            rep = self.errf.read().decode("latin-1")
            self.errf.close()
            self.p = None
            self.restarts += 1
            self.start()
            raise DriverCrash(request, rep, rc)
        line, _, self.buf = self.buf.partition(b"\n")
        return line

    def req(self, line):
        self.requests += 1
        try:
            self.p.stdin.write(line.encode("latin-1") + b"\n")
        except (BrokenPipeError, OSError):
            pass
        raw = self._readline(line)
        try:
            r = json.loads(raw.decode("latin-1"))
            if not isinstance(r, dict):
                raise ValueError("not an object")
        except ValueError:
            # Only the driver writes to stdout, one JSON object per request.  Anything else there was
            # written by the library (which must keep to stderr): report it like a crash on this request.
            self.kill()
            self.restarts += 1
            self.start()
            raise DriverCrash(line, "the library wrote to standard output while handling the request: %r" % raw[:200], -6)
        r["stderr"] = bytes.fromhex(r.get("stderr", ""))
        return r

    # -- convenience wrappers ------------------------------------------------
    def run(self, text, stack="", flags=0, limit=2000, steps=2000000):
        return self.req("run %d %d %d %s %s" % (flags, limit, steps, hexs(text), stack))

    def parse(self, text, flags=0):
        return self.req("parse %d %s" % (flags, hexs(text)))

    def tree(self, text):
        return self.req("tree %s" % hexs(text))

    def open(self, path, raw=False):
        r = self.req("open %s %d" % (hexs(path), 1 if raw else 0))
        if "h" not in r:
            raise RuntimeError("open %s: %s" % (path, r))
        return r["h"]

    def leak(self):
        return self.req("leak")

    def vocab(self, which):
        r = self.req("vocab " + which)
        return [bytes.fromhex(n).decode("latin-1") for n in r["names"]]


# ---- helpers to turn driver dumps into comparable Python values -------------

def spec_of(v):
    """Input-stack token(s) for a model value (see zwv.model)."""
    from . import model as M
    # a position other than 0 is passed along (constants and strings: through the init functions; with
    # via_clone: built at 0 and re-positioned with zw_value_clone)
    at = "@%d" % v.pos if isinstance(getattr(v, "pos", None), int) and v.pos > 0 else ""
    pre = "~" if at and getattr(v, "via_clone", False) and not isinstance(v, M.VSeq) else ""
    if isinstance(v, M.VConst):
        dom = v.dom
        tag = "J" if getattr(v, "force_signed", False) else "I"
        return "%s%s%s:%d%s" % (pre, tag, dom, v.value, at)
    if isinstance(v, M.VStr):
        return pre + "S" + (v.data.hex() if v.data else "") + at
    if isinstance(v, M.VSeq):
        return "[ " + " ".join(spec_of(e) for e in v.items) + " ]" + at
    raise ValueError("cannot pass %r on an input stack" % (v,))


def stack_spec(values):
    return " ".join(spec_of(v) for v in values)
