"""C12 -- a compiled query is a pure function of its input stack.

Histories over the C API: compile, execute (up to three result sets live at once, on the same
or different inputs, also from a second compilation of the same text), pull one, destroy,
destroy-and-recompile.  Oracle: for each (query text, input) the reference result sequence comes
from a fresh parse-and-run in a *fresh driver process*; every pull in a history must return the
next element of that sequence (exact order), end-of-results must coincide, and the input stack
is dumped before and after each execute and must be unchanged.

Exhaustive: all interleavings of two executions (pull A / pull B / destroy A / destroy B) up to
a length bound for a fixed list of programs covering every stateful construct and the DWARF
producers with caches.  Random: seeded longer histories with three live result sets; failing
histories are shrunk by deleting operations.
"""
import itertools, json, os, random, time

from ..drv import Driver, DriverCrash, DriverTimeout, hexs
from ..harness import Evidence, run_pool, finish

PID = "C12"
RULE = ("programs: 46 fixed queries (every construct with per-input state: , || [ ] ?( ) infix let if * + ? format-splice "
        "blocks/apply, elem/relem, arithmetic on bound sequences; DWARF producers with caches: entry parent, entry ?root, "
        "entry abbrev, child*, unit entry, symbol, @AT_location elem, attribute value) x inputs (empty, constants, strings, "
        "sequences, one DWARF value shared by all executions, raw and cooked).  Exhaustive: all sequences over {pull A, pull B, "
        "destroy A, destroy B} up to length 5 (quick) / 7 (thorough) for each program, A and B being two executions of one "
        "compiled query (same or different input, or of two compilations of the text).  Random: histories of 10-40 operations "
        "over 3 live result sets, 2 query objects per text, recompilation.  Non-trivial: two result sets of one query were pulled "
        "alternately at least twice, or a result set was abandoned mid-way and the query executed again.  Distinct by history.")

CORE_PROGRAMS = [
    "(1, 2, 3)", "(1, 2) (3, 4)", "(1, 2) ((3, 4) || 5)", "[1, 2, 3] elem", "\"abc\" relem", "(1, 2) [(3, 4)]",
    "(1, 2, 3) ?((2, 3) ?eq)", "(1, 2, 3) (== (1, 3))", "let A := (1, 2); A A add", "(1, 2) let A := (3, 4); A",
    "(1, 2, 3) if (== 2) then (10, 20) else 30", "0 (1 add 5 mod)*", "(0, 3) (1 add 4 mod)+", "(1, 2)?", "1 (2 add)? (3 mul)?",
    "(1, 2) \"a%sb\"", "(1, 2) \"%( (3, 4) %)-%s\"", "(1, 2) {10 add} apply", "let F := {(1, 2)}; F F",
    "[1, 2] [3] add elem", "let S := [1, 2]; S S add length", "(1, 2) (|A| A, A 10 add)", "[(1, 2) (3, 4) add]",
    "(1, 2, 3) !(== 2)", "\"ab\" elem \"cd\" elem add", "[[1, 2], [3]] elem elem", "(1, 2) ((3, 4) (5, 6) add)",
    "(1, (2, 3)) ((4 || 5), 6)", "[0, 1, 2] (|L| L elem (pos == 1))", "((1, 2) || 3) ((4, 5) || 6)",
    "dup add", "dup elem", "(dup, 1)", "?(drop) \"%s\"", "[dup] swap",
]
DW_PROGRAMS = [
    "entry", "entry parent", "entry ?root", "entry abbrev", "entry child*", "unit entry", "symbol", "entry attribute value",
    "entry @AT_name", "entry ?(@AT_location) @AT_location elem", "raw entry", "entry (|D| D child [D parent])",
]
CORE_INPUTS = ["", "Idec:5", "Idec:5 Shex".replace("Shex", "S6162"), "[ Idec:1 Idec:2 ]", "S616263", "Ihex:255 Idec:0"]
FILES = ["a1.out", "nontrivial-types.o", "dwz-partial2-1", "bitcount.o"]

STRIP = ("dw", "di", "id", "sh")


def canon(v):
    if isinstance(v, dict):
        return {k: canon(x) for k, x in v.items() if k not in STRIP}
    if isinstance(v, list):
        return [canon(x) for x in v]
    return v


def applicable(prog, inp):
    """Core programs need enough stack; keep to pairs that do not underflow trivially."""
    need = 1 if prog.startswith(("dup", "(dup", "?(drop", "[dup")) else 0
    depth = 0 if not inp else len([t for t in inp.split() if t not in ("]",) and not t.startswith("[")]) if "[" not in inp else 1
    return depth >= need


class Ref:
    """Reference sequences from a fresh driver process."""

    def __init__(self):
        self.cache = {}

    def get(self, prog, inp_kind, inp, files):
        key = (prog, inp_kind, inp)
        if key in self.cache:
            return self.cache[key]
        d = Driver(timeout=120)
        try:
            tok = inp
            if inp_kind.startswith("dw:"):
                _, fn, raw = inp_kind.split(":")
                tok = "V%d" % d.open(os.path.join("/repo/tests", fn), raw == "raw")
            r = d.run(prog, tok, limit=400, steps=20000000)
        finally:
            d.kill()
        if "cerror" in r:
            seq = None
        else:
            seq = {"res": [canon(s) for s in r["res"]], "end": bool(r.get("end")), "error": r.get("error")}
        self.cache[key] = seq
        return seq


class Session:
    """One driver process executing a history."""

    def __init__(self, prog, inputs, files_tok):
        self.drv = Driver(timeout=120)
        self.prog = prog
        self.q = []
        self.live = {}      # slot -> (rid, input index, pulls)
        self.tok = {}
        for kind, inp in inputs:
            if kind.startswith("dw:"):
                _, fn, raw = kind.split(":")
                self.tok[(kind, inp)] = "V%d" % self.drv.open(os.path.join("/repo/tests", fn), raw == "raw")
            else:
                self.tok[(kind, inp)] = inp

    def compile(self):
        r = self.drv.parse(self.prog)
        self.q.append(r["q"])
        return len(self.q) - 1

    def close(self):
        self.drv.kill()


def run_history(prog, inputs, ops, refs):
    """ops: list of tuples; returns None or a reason string.  inputs: list of (kind, inp)."""
    s = Session(prog, inputs, None)
    try:
        s.compile()
        s.compile()
        for op in ops:
            k = op[0]
            if k == "exec":
                _, slot, qi, ii = op
                if slot in s.live:
                    continue
                x = s.drv.req("exec %d %s" % (s.q[qi], s.tok[inputs[ii]]))
                if "r" not in x:
                    return "execute failed: %r" % x
                if x.get("inmod"):
                    return "zw_query_execute modified its input stack"
                s.live[slot] = [x["r"], ii, 0, False]
            elif k == "pull":
                _, slot = op
                if slot not in s.live or s.live[slot][3]:
                    continue
                rid, ii, n, _ = s.live[slot]
                y = s.drv.req("next %d 20000000" % rid)
                ref = refs[ii]
                if "stack" in y:
                    if n >= len(ref["res"]):
                        return "pull #%d of input %d yields a stack, the reference sequence has only %d" % (n, ii, len(ref["res"]))
                    if canon(y["stack"]) != ref["res"][n]:
                        return "pull #%d of input %d differs from the fresh run: got %s, reference %s" % (
                            n, ii, json.dumps(canon(y["stack"]))[:300], json.dumps(ref["res"][n])[:300])
                    s.live[slot][2] = n + 1
                elif "end" in y:
                    if n != len(ref["res"]) or not ref["end"]:
                        return "end of results after %d pulls, the reference yields %d" % (n, len(ref["res"]))
                    s.live[slot][3] = True
                else:
                    if ref["error"] is None or n != len(ref["res"]):
                        return "error %r after %d pulls, reference: %d results, error %r" % (y.get("error"), n, len(ref["res"]), ref["error"])
                    s.live[slot][3] = True
            elif k == "destroy":
                _, slot = op
                if slot in s.live:
                    s.drv.req("rdestroy %d" % s.live[slot][0])
                    del s.live[slot]
            elif k == "recompile":
                _, qi = op
                if any(True for v in s.live.values()):
                    continue
                s.drv.req("qdestroy %d" % s.q[qi])
                s.q[qi] = s.drv.parse(prog)["q"]
        for slot in list(s.live):
            s.drv.req("rdestroy %d" % s.live[slot][0])
        return None
    finally:
        s.close()


def nontrivial(ops):
    """Two result sets of one query pulled alternately at least twice, or a result set abandoned
    mid-way and the query executed again."""
    pulls = [op[1] for op in ops if op[0] == "pull"]
    alternations = sum(1 for a, b in zip(pulls, pulls[1:]) if a != b)
    destroyed = False
    for i, op in enumerate(ops):
        if op[0] == "destroy" and any(o[0] == "pull" and o[1] == op[1] for o in ops[:i]):
            destroyed = True
        if destroyed and op[0] == "exec":
            return True
    return alternations >= 2


def interleavings(maxlen):
    base = [("pull", "A"), ("pull", "B"), ("destroy", "A"), ("destroy", "B")]
    for n in range(1, maxlen + 1):
        for seq in itertools.product(base, repeat=n):
            # no pull after destroy of the same slot
            ok = True
            dead = set()
            for op in seq:
                if op[0] == "destroy":
                    if op[1] in dead:
                        ok = False
                        break
                    dead.add(op[1])
                elif op[1] in dead:
                    ok = False
                    break
            if ok:
                yield list(seq)


def program_inputs(tier):
    out = []
    for p in CORE_PROGRAMS:
        ins = [("core", i) for i in CORE_INPUTS if applicable(p, i)]
        out.append((p, ins[:2] if len(ins) >= 2 else ins * 2))
    for p in DW_PROGRAMS:
        for fn in (FILES if tier == "thorough" else FILES[:2]):
            raw = "raw" if p.startswith("raw") else "cooked"
            out.append((p, [("dw:%s:%s" % (fn, raw), ""), ("dw:%s:%s" % (fn, "raw" if raw == "cooked" else "cooked"), "")]))
    return out


def work_exh(task):
    prog, inputs, maxlen = task
    ev = Evidence()
    R = Ref()
    refs = [R.get(prog, k, i, None) for k, i in inputs]
    if any(r is None for r in refs):
        ev.inconc("program does not compile")
        return ev
    if all(len(r["res"]) == 0 for r in refs):
        ev.label("empty-reference")
    # Reusing one driver per history would let state leak between histories; a session per history
    # costs a process start, so group: one session executes many histories, each with fresh executes.
    s_ops = []
    count = 0
    try:
        for il in interleavings(maxlen):
            for variant in range(3):
                # A and B: same query+same input / same query+other input / second compilation
                if variant == 0:
                    ops = [("exec", "A", 0, 0), ("exec", "B", 0, 0)] + il
                elif variant == 1:
                    ops = [("exec", "A", 0, 0), ("exec", "B", 0, 1)] + il
                else:
                    ops = [("exec", "A", 0, 0), ("exec", "B", 1, 0)] + il
                # after the interleaving, execute again and drain: abandoned sets must not matter
                ops = ops + [("destroy", "A"), ("exec", "A", 0, 1)] + [("pull", "A")] * (len(refs[1]["res"]) + 1 if len(refs[1]["res"]) < 8 else 3)
                s_ops.append(ops)
                count += 1
        # run them in batches within sessions
        sess = None
        for bi in range(0, len(s_ops), 40):
            batch = s_ops[bi:bi + 40]
            flat = []
            for ops in batch:
                flat += ops + [("destroy", "A"), ("destroy", "B")]
            why = run_history(prog, inputs, flat, refs)
            for ops in batch:
                ev.case(key=(prog, repr(inputs), repr(ops)), nontrivial=nontrivial(ops))
            if why:
                # locate the failing history inside the batch
                culprit = None
                for ops in batch:
                    w2 = run_history(prog, inputs, ops, refs)
                    if w2:
                        culprit, why = ops, w2
                        break
                ev.violations.append({"property": PID, "query": prog, "inputs": inputs, "history": culprit or flat[:60],
                                      "reason": why, "signature": "C12:%s:%s" % (prog, why[:80])})
                break
        ev.label("exhaustive-program")
        ev.sample({"query": prog, "inputs": inputs, "interleavings": count, "reference_lengths": [len(r["res"]) for r in refs]}, cap=4)
    except DriverCrash as e:
        ev.violations.append({"property": PID, "query": prog, "inputs": inputs, "reason": "driver crashed: " + e.report[-3000:],
                              "signature": "C12:crash:" + prog})
    except DriverTimeout:
        ev.inconc("watchdog")
    return ev


def shrink_history(prog, inputs, ops, refs):
    cur = list(ops)
    changed = True
    while changed and len(cur) > 1:
        changed = False
        for i in range(len(cur)):
            cand = cur[:i] + cur[i + 1:]
            try:
                if run_history(prog, inputs, cand, refs):
                    cur = cand
                    changed = True
                    break
            except (DriverCrash, DriverTimeout):
                pass
    return cur


def work_random(task):
    seed, start, count, tier = task
    ev = Evidence()
    R = Ref()
    pis = program_inputs(tier)
    for i in range(start, start + count):
        rnd = random.Random((seed << 32) ^ (i * 2654435761 & 0xffffffff) ^ 0xC12)
        prog, inputs = rnd.choice(pis)
        try:
            refs = [R.get(prog, k, x, None) for k, x in inputs]
            if any(r is None for r in refs):
                continue
            ops = []
            for _ in range(rnd.randint(10, 40)):
                c = rnd.random()
                slot = rnd.choice("ABC")
                if c < 0.2:
                    ops.append(("exec", slot, rnd.randint(0, 1), rnd.randint(0, len(inputs) - 1)))
                elif c < 0.8:
                    ops.append(("pull", slot))
                elif c < 0.95:
                    ops.append(("destroy", slot))
                else:
                    ops.append(("recompile", rnd.randint(0, 1)))
            why = run_history(prog, inputs, ops, refs)
            ev.case(key=(prog, repr(inputs), repr(ops)), nontrivial=nontrivial(ops))
            ev.label("random-history")
            if why:
                small = shrink_history(prog, inputs, ops, refs)
                why2 = run_history(prog, inputs, small, refs) or why
                ev.violations.append({"property": PID, "query": prog, "inputs": inputs, "history": small, "reason": why2,
                                      "signature": "C12:%s:%s" % (prog, why2[:80])})
            elif nontrivial(ops) and rnd.random() < 0.02:
                ev.sample({"query": prog, "inputs": inputs, "history": ops[:20]})
        except DriverCrash as e:
            ev.violations.append({"property": PID, "query": prog, "inputs": inputs, "reason": "driver crashed: " + e.report[-3000:],
                                  "signature": "C12:crash:" + prog})
        except DriverTimeout:
            ev.inconc("watchdog")
    return ev


def main(tier, seed):
    t0 = time.time()
    maxlen = 5 if tier == "quick" else 7
    pis = program_inputs(tier)
    ev = Evidence()
    ev.merge(run_pool(work_exh, [(p, ins, maxlen) for p, ins in pis]))
    n = 2000 if tier == "quick" else 40000
    per = max(10, n // 48)
    ev.merge(run_pool(work_random, [(seed, s, min(per, n - s), tier) for s in range(0, n, per)]))
    ev.extra["programs"] = len(pis)
    ev.extra["interleaving_length_bound"] = maxlen
    return finish(PID, tier, seed, ev, RULE, t0, exhaustive=True,
                  assumptions=["single-threaded histories only; the API is not documented as thread-safe",
                               "destroying a query while one of its result sets is live is not exercised (not documented as allowed)",
                               "exhaustive=true: all interleavings up to the stated length for the fixed program list"],
                  health={"programs enumerated": ev.labels.get("exhaustive-program", 0) >= 30,
                          "random histories": ev.labels.get("random-history", 0) > 100})


def replay(path):
    rec = json.load(open(path))
    R = Ref()
    inputs = [tuple(x) for x in rec["inputs"]]
    refs = [R.get(rec["query"], k, i, None) for k, i in inputs]
    ops = [tuple(o) for o in rec["history"]]
    why = run_history(rec["query"], inputs, ops, refs)
    print(why)
    return 1 if why else 0
