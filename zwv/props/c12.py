"""C12 -- a compiled query is a pure function of its input stack.

Histories over the C API: compile, execute (up to three result sets live at once, on the same
or different inputs, also from a second compilation of the same text), pull one, destroy,
destroy-and-recompile.  Oracle: for each (query text, input) the reference result sequence comes
from a fresh parse-and-run in a *fresh driver process*; every pull in a history must return the
next element of that sequence (exact order), end-of-results must coincide, and the input stack
is dumped before and after each execute and must be unchanged.

Exhaustive: all interleavings of two executions (pull A / pull B / destroy A / destroy B) up to
a length bound for a fixed list of programs covering every stateful construct and the DWARF
producers with caches.  Random: seeded longer histories with three live result sets; failing
histories are shrunk by deleting operations.  Mixed: different queries executed one after the other in one
process (state that leaks between queries: libdw's error word, function-local statics, caches of the
Dwfl context), each compared with its own fresh-process reference.
"""
import itertools, json, os, random, time

from ..drv import Driver, DriverCrash, DriverTimeout, hexs
from ..harness import Evidence, run_pool, finish

PID = "C12"
RULE = ("programs: 46 fixed queries (every construct with per-input state: , || [ ] ?( ) infix let if * + ? format-splice "
        "blocks/apply, elem/relem, arithmetic on bound sequences; DWARF producers with caches: entry parent, entry ?root, "
        "entry abbrev, child*, unit entry, symbol, @AT_location elem, attribute value) x inputs (empty, constants, strings, "
        "sequences, one DWARF value shared by all executions, raw and cooked).  Exhaustive: all sequences over {pull A, pull B, "
        "destroy A, destroy B} up to length 5 (quick) / 7 (thorough) for each program, A and B being two executions of one "
        "compiled query (same or different input, or of two compilations of the text).  Random: histories of 10-40 operations "
        "over 3 live result sets, 2 query objects per text, recompilation.  Mixed: sequences of 3-12 *different* queries (or, in 40 % of them, of two queries compiled once and executed again and again on alternating inputs and files) (core, "
        "DWARF words incl. high/low/address/@AT_const_value/abbrev/symbol, on sample files, on an object compiled here and on pairs of generated twin files -- byte-identical .debug_info, every DIE at the same offset, but base types signed <-> unsigned and enumerators sdata <-> udata through .debug_abbrev) run one "
        "after the other in one process, each compared with its own fresh-process run.  Non-trivial: two result sets of one query were pulled "
        "alternately at least twice, or a result set was abandoned mid-way and the query executed again.  Distinct by history.")

CORE_PROGRAMS = [
    "(1, 2, 3)", "(1, 2) (3, 4)", "(1, 2) ((3, 4) || 5)", "[1, 2, 3] elem", "\"abc\" relem", "(1, 2) [(3, 4)]",
    "(1, 2, 3) ?((2, 3) ?eq)", "(1, 2, 3) (== (1, 3))", "let A := (1, 2); A A add", "(1, 2) let A := (3, 4); A",
    "(1, 2, 3) if (== 2) then (10, 20) else 30", "0 (1 add 5 mod)*", "(0, 3) (1 add 4 mod)+", "(1, 2)?", "1 (2 add)? (3 mul)?",
    "(1, 2) \"a%sb\"", "(1, 2) \"%( (3, 4) %)-%s\"", "(1, 2) {10 add} apply", "let F := {(1, 2)}; F F",
    "[1, 2] [3] add elem", "let S := [1, 2]; S S add length", "(1, 2) (|A| A, A 10 add)", "[(1, 2) (3, 4) add]",
    "(1, 2, 3) !(== 2)", "\"ab\" elem \"cd\" elem add", "[[1, 2], [3]] elem elem", "(1, 2) ((3, 4) (5, 6) add)",
    "(1, (2, 3)) ((4 || 5), 6)", "[0, 1, 2] (|L| L elem (pos == 1))", "((1, 2) || 3) ((4, 5) || 6)",
    "dup add", "dup elem", "(dup, 1)", "?(drop) \"%s\"", "[dup] swap",
    # words whose behaviour depends on data they might be tempted to remember: the pattern of a match comes from the stack
    "?match", "(|H P| H (=~ P))", "(|H P| H !(P ?match))", "(|A B| [A B add, A length])",
]
DW_PROGRAMS = [
    "entry", "entry parent", "entry ?root", "entry abbrev", "entry child*", "unit entry", "symbol", "entry attribute value",
    "entry @AT_name", "entry ?(@AT_location) @AT_location elem", "raw entry", "entry (|D| D child [D parent])",
]
CORE_INPUTS = ["", "Idec:5", "Idec:5 Shex".replace("Shex", "S6162"), "[ Idec:1 Idec:2 ]", "S616263", "Ihex:255 Idec:0"]
# haystack + pattern: a valid pattern, one that does not compile, another valid one
MATCH_INPUTS = ["S666f6f S5e66", "S666f6f S6628", "S666f6f S625b", "S626172 S5e62"]
FILES = ["a1.out", "nontrivial-types.o", "dwz-partial2-1", "bitcount.o"]

STRIP = ("dw", "di", "id", "sh")


# libdw stores a host pointer in Dwarf_Op::number2 for these operations (the block they carry)
PTR_OPS = (0x9e, 0xa3, 0xa4, 0xf3, 0xf4)


def canon(v):
    if isinstance(v, dict):
        if v.get("atom") in PTR_OPS:
            return {k: canon(x) for k, x in v.items() if k != "n2"}
        return {k: canon(x) for k, x in v.items() if k not in STRIP}
    if isinstance(v, list):
        return [canon(x) for x in v]
    return v


def applicable(prog, inp):
    """Core programs need enough stack; keep to pairs that do not underflow trivially."""
    need = 1 if prog.startswith(("dup", "(dup", "?(drop", "[dup")) else 0
    depth = 0 if not inp else len([t for t in inp.split() if t not in ("]",) and not t.startswith("[")]) if "[" not in inp else 1
    return depth >= need


class Ref:
    """Reference sequences from a fresh driver process."""

    def __init__(self):
        self.cache = {}

    def get(self, prog, inp_kind, inp, files):
        key = (prog, inp_kind, inp)
        if key in self.cache:
            return self.cache[key]
        d = Driver(timeout=120)
        try:
            tok = inp
            if inp_kind.startswith("dw:"):
                _, fn, raw = inp_kind.split(":")
                tok = "V%d" % d.open(os.path.join("/repo/tests", fn), raw == "raw")
            r = d.run(prog, tok, limit=400, steps=20000000)
        finally:
            d.kill()
        if "cerror" in r:
            seq = None
        else:
            seq = {"res": [canon(s) for s in r["res"]], "end": bool(r.get("end")), "error": r.get("error")}
        self.cache[key] = seq
        return seq


class Session:
    """One driver process executing a history."""

    def __init__(self, prog, inputs, files_tok):
        self.drv = Driver(timeout=120)
        self.prog = prog
        self.q = []
        self.live = {}      # slot -> (rid, input index, pulls)
        self.tok = {}
        for kind, inp in inputs:
            if kind.startswith("dw:"):
                _, fn, raw = kind.split(":")
                self.tok[(kind, inp)] = "V%d" % self.drv.open(os.path.join("/repo/tests", fn), raw == "raw")
            else:
                self.tok[(kind, inp)] = inp

    def compile(self):
        r = self.drv.parse(self.prog)
        self.q.append(r["q"])
        return len(self.q) - 1

    def close(self):
        self.drv.kill()


def run_history(prog, inputs, ops, refs):
    """ops: list of tuples; returns None or a reason string.  inputs: list of (kind, inp)."""
    s = Session(prog, inputs, None)
    try:
        s.compile()
        s.compile()
        for op in ops:
            k = op[0]
            if k == "exec":
                _, slot, qi, ii = op
                if slot in s.live:
                    continue
                x = s.drv.req("exec %d %s" % (s.q[qi], s.tok[inputs[ii]]))
                if "r" not in x:
                    return "execute failed: %r" % x
                if x.get("inmod"):
                    return "zw_query_execute modified its input stack"
                s.live[slot] = [x["r"], ii, 0, False]
            elif k == "pull":
                _, slot = op
                if slot not in s.live or s.live[slot][3]:
                    continue
                rid, ii, n, _ = s.live[slot]
                y = s.drv.req("next %d 20000000" % rid)
                ref = refs[ii]
                if "stack" in y:
                    if n >= len(ref["res"]):
                        return "pull #%d of input %d yields a stack, the reference sequence has only %d" % (n, ii, len(ref["res"]))
                    if canon(y["stack"]) != ref["res"][n]:
                        return "pull #%d of input %d differs from the fresh run: got %s, reference %s" % (
                            n, ii, json.dumps(canon(y["stack"]))[:300], json.dumps(ref["res"][n])[:300])
                    s.live[slot][2] = n + 1
                elif "end" in y:
                    if n != len(ref["res"]) or not ref["end"]:
                        return "end of results after %d pulls, the reference yields %d" % (n, len(ref["res"]))
                    s.live[slot][3] = True
                else:
                    if ref["error"] is None or n != len(ref["res"]):
                        return "error %r after %d pulls, reference: %d results, error %r" % (y.get("error"), n, len(ref["res"]), ref["error"])
                    s.live[slot][3] = True
            elif k == "destroy":
                _, slot = op
                if slot in s.live:
                    s.drv.req("rdestroy %d" % s.live[slot][0])
                    del s.live[slot]
            elif k == "recompile":
                _, qi = op
                if any(True for v in s.live.values()):
                    continue
                s.drv.req("qdestroy %d" % s.q[qi])
                s.q[qi] = s.drv.parse(prog)["q"]
        for slot in list(s.live):
            s.drv.req("rdestroy %d" % s.live[slot][0])
        return None
    finally:
        s.close()


def nontrivial(ops):
    """Two result sets of one query pulled alternately at least twice, or a result set abandoned
    mid-way and the query executed again."""
    pulls = [op[1] for op in ops if op[0] == "pull"]
    alternations = sum(1 for a, b in zip(pulls, pulls[1:]) if a != b)
    destroyed = False
    for i, op in enumerate(ops):
        if op[0] == "destroy" and any(o[0] == "pull" and o[1] == op[1] for o in ops[:i]):
            destroyed = True
        if destroyed and op[0] == "exec":
            return True
    return alternations >= 2


def interleavings(maxlen):
    base = [("pull", "A"), ("pull", "B"), ("destroy", "A"), ("destroy", "B")]
    for n in range(1, maxlen + 1):
        for seq in itertools.product(base, repeat=n):
            # no pull after destroy of the same slot
            ok = True
            dead = set()
            for op in seq:
                if op[0] == "destroy":
                    if op[1] in dead:
                        ok = False
                        break
                    dead.add(op[1])
                elif op[1] in dead:
                    ok = False
                    break
            if ok:
                yield list(seq)


# executions that hold a lot of state while they are suspended between two pulls: closure applications nested
# several hundred deep (each level a live sub-execution), results yielded from inside the nesting
DEEP_PROGRAMS = ["{ if (> 0) then (1 sub over apply) else () } swap over apply",
                 "{ if (> 0) then (1 sub over apply, 7) else () } swap over apply"]
DEEP_INPUTS = ["Idec:600", "Idec:450"]


def program_inputs(tier):
    out = []
    for p in DEEP_PROGRAMS:
        out.append((p, [("core", i) for i in DEEP_INPUTS]))
    for p in CORE_PROGRAMS:
        if "match" in p or "=~" in p or p.startswith("(|A B|"):
            # valid then invalid, invalid then valid, invalid then another invalid (each history ends by executing
            # the second input once more)
            for a, b in ((0, 1), (1, 0), (1, 2), (3, 1)):
                out.append((p, [("core", MATCH_INPUTS[a]), ("core", MATCH_INPUTS[b])]))
            continue
        ins = [("core", i) for i in CORE_INPUTS if applicable(p, i)]
        out.append((p, ins[:2] if len(ins) >= 2 else ins * 2))
    for p in DW_PROGRAMS:
        for fn in (FILES if tier == "thorough" else FILES[:2]):
            raw = "raw" if p.startswith("raw") else "cooked"
            out.append((p, [("dw:%s:%s" % (fn, raw), ""), ("dw:%s:%s" % (fn, "raw" if raw == "cooked" else "cooked"), "")]))
    return out


def work_exh(task):
    prog, inputs, maxlen = task
    ev = Evidence()
    R = Ref()
    refs = [R.get(prog, k, i, None) for k, i in inputs]
    if any(r is None for r in refs):
        ev.inconc("program does not compile")
        return ev
    if all(len(r["res"]) == 0 for r in refs):
        ev.label("empty-reference")
    # Reusing one driver per history would let state leak between histories; a session per history
    # costs a process start, so group: one session executes many histories, each with fresh executes.
    s_ops = []
    count = 0
    try:
        for il in interleavings(maxlen):
            for variant in range(3):
                # A and B: same query+same input / same query+other input / second compilation
                if variant == 0:
                    ops = [("exec", "A", 0, 0), ("exec", "B", 0, 0)] + il
                elif variant == 1:
                    ops = [("exec", "A", 0, 0), ("exec", "B", 0, 1)] + il
                else:
                    ops = [("exec", "A", 0, 0), ("exec", "B", 1, 0)] + il
                # after the interleaving, execute again and drain: abandoned sets must not matter
                ops = ops + [("destroy", "A"), ("exec", "A", 0, 1)] + [("pull", "A")] * (len(refs[1]["res"]) + 1 if len(refs[1]["res"]) < 8 else 3)
                s_ops.append(ops)
                count += 1
        # run them in batches within sessions
        sess = None
        for bi in range(0, len(s_ops), 40):
            batch = s_ops[bi:bi + 40]
            flat = []
            for ops in batch:
                flat += ops + [("destroy", "A"), ("destroy", "B")]
            why = run_history(prog, inputs, flat, refs)
            for ops in batch:
                ev.case(key=(prog, repr(inputs), repr(ops)), nontrivial=nontrivial(ops))
            if why:
                # locate the failing history inside the batch
                culprit = None
                for ops in batch:
                    w2 = run_history(prog, inputs, ops, refs)
                    if w2:
                        culprit, why = ops, w2
                        break
                ev.violations.append({"property": PID, "query": prog, "inputs": inputs, "history": culprit or flat[:60],
                                      "reason": why, "signature": "C12:%s:%s" % (prog, why[:80])})
                break
        ev.label("exhaustive-program")
        ev.sample({"query": prog, "inputs": inputs, "interleavings": count, "reference_lengths": [len(r["res"]) for r in refs]}, cap=4)
    except DriverCrash as e:
        ev.violations.append({"property": PID, "query": prog, "inputs": inputs, "reason": "driver crashed: " + e.report[-3000:],
                              "signature": "C12:crash:" + prog})
    except DriverTimeout:
        ev.inconc("watchdog")
    return ev


def shrink_history(prog, inputs, ops, refs):
    cur = list(ops)
    changed = True
    while changed and len(cur) > 1:
        changed = False
        for i in range(len(cur)):
            cand = cur[:i] + cur[i + 1:]
            try:
                if run_history(prog, inputs, cand, refs):
                    cur = cand
                    changed = True
                    break
            except (DriverCrash, DriverTimeout):
                pass
    return cur


def work_random(task):
    seed, start, count, tier = task
    ev = Evidence()
    R = Ref()
    pis = program_inputs(tier)
    for i in range(start, start + count):
        rnd = random.Random((seed << 32) ^ (i * 2654435761 & 0xffffffff) ^ 0xC12)
        prog, inputs = rnd.choice(pis)
        try:
            refs = [R.get(prog, k, x, None) for k, x in inputs]
            if any(r is None for r in refs):
                continue
            ops = []
            for _ in range(rnd.randint(10, 40)):
                c = rnd.random()
                slot = rnd.choice("ABC")
                if c < 0.2:
                    ops.append(("exec", slot, rnd.randint(0, 1), rnd.randint(0, len(inputs) - 1)))
                elif c < 0.8:
                    ops.append(("pull", slot))
                elif c < 0.95:
                    ops.append(("destroy", slot))
                else:
                    ops.append(("recompile", rnd.randint(0, 1)))
            why = run_history(prog, inputs, ops, refs)
            ev.case(key=(prog, repr(inputs), repr(ops)), nontrivial=nontrivial(ops))
            ev.label("random-history")
            if why:
                small = shrink_history(prog, inputs, ops, refs)
                why2 = run_history(prog, inputs, small, refs) or why
                ev.violations.append({"property": PID, "query": prog, "inputs": inputs, "history": small, "reason": why2,
                                      "signature": "C12:%s:%s" % (prog, why2[:80])})
            elif nontrivial(ops) and rnd.random() < 0.02:
                ev.sample({"query": prog, "inputs": inputs, "history": ops[:20]})
        except DriverCrash as e:
            ev.violations.append({"property": PID, "query": prog, "inputs": inputs, "reason": "driver crashed: " + e.report[-3000:],
                                  "signature": "C12:crash:" + prog})
        except DriverTimeout:
            ev.inconc("watchdog")
    return ev


# ------------------------------------------------------------- different queries in one process

MIX_DW = DW_PROGRAMS + [
    "entry high", "entry low", "entry address", "entry @AT_const_value", "entry @AT_decl_file", "entry (@AT_type)*", "unit",
    "entry @AT_location elem value", "abbrev entry", "abbrev entry attribute", "symbol label", "symbol address", "symbol name", "symbol binding", "symbol [label, binding, visibility] \"%s\"",
    "entry attribute (label, form)", "entry ?AT_declaration", "entry name", "entry @AT_byte_size", "entry @AT_upper_bound",
    "entry ?TAG_subprogram @AT_high_pc", "entry @AT_data_member_location", "entry @AT_language", "entry @AT_encoding",
    "[entry @AT_const_value] [entry high]", "entry root", "entry unit", "entry abbrev offset",
    # assertions about what a DIE or attribute lacks (what "not there" means must not depend on what libdw was last
    # asked), after words that leave libdw's error word set although they succeed (address / high / low on DIEs
    # without such attributes)
    "entry !AT_name offset", "entry !AT_type offset", "entry !AT_low_pc !AT_declaration offset", "entry ?AT_name !AT_external offset",
    "entry !TAG_subprogram !AT_sibling offset", "entry !(@AT_name) offset", "entry !(child) offset", "entry attribute !AT_name label",
    "entry ?AT_decl_line offset", "[entry address] [entry !AT_byte_size offset]", "entry attribute !FORM_data1 label",
]
# (the backticked capture is not documented; it is listed because its compiled form must not depend
# on what was compiled earlier any more than that of any other construct)
MIX_CORE = CORE_PROGRAMS + ["5 6 7 `[1]", "5 6 7 ``[1, 2]", "1 2 3 4 ```[]", "5 6 7 `[]", "[1, 2] \"%s\"", "0x10 \"%x %o %b %d\"",
                            "(1, 2) \"%( (3, 4) %)\" pos", "\"abc\" elem pos", "1 0 div", "1 \"a\" add", "(1, 2, 3) (== 2) drop drop"]

ANON_SRC = """
struct S { int a; short b; };
template <int N, short M, bool B> struct T { int x[N]; };
int g (int, void *);
enum E { E0, E1 = -1, E2 = 70000 };
int f (int x)
{
  const struct {short a, b;} anon = {7, 9};
  const int arr[2] = {1, 2};
  const E e = E2;
  static T<200, -3, true> t;
  const long long big = -5000000000LL;
  return g (x + anon.a + arr[1] + e + (int) big, &t);
}
"""


def mix_files():
    """Sample binaries plus one object compiled here (constants of unnamed types, template value
    parameters, enumerations, ranges).  Returns paths; the compiled one is skipped if g++ is missing."""
    import subprocess
    from ..drv import BUILD
    out = [os.path.join("/repo/tests", fn) for fn in FILES]
    # symbol tables of other machines (their constants live in domains of their own, chosen per file)
    out += [p for p in (os.path.join("/repo/tests", fn) for fn in ("y.o", "y-mips.o")) if os.path.exists(p)]
    d = os.path.join(BUILD, "run")
    os.makedirs(d, exist_ok=True)
    src, obj = os.path.join(d, "c12-anon.cc"), os.path.join(d, "c12-anon.o")
    if not os.path.exists(obj):
        open(src, "w").write(ANON_SRC)
        tmp = obj + ".%d" % os.getpid()
        r = subprocess.run(["g++", "-g", "-O1", "-c", src, "-o", tmp], stdout=subprocess.PIPE, stderr=subprocess.PIPE)
        if r.returncode == 0:
            os.replace(tmp, obj)
    if os.path.exists(obj):
        out.append(obj)
    # a file whose DIE tree cannot be walked to the end (an undefined abbreviation code in a later unit): the
    # executions that run into the error must not leave anything behind for the ones that follow
    broken = os.path.join(d, "c12-broken.o")
    if not os.path.exists(broken):
        from .. import dwforest as DF
        from ..dwgen import build_file
        g = DF.ForestGen(random.Random(0xB20C), DF.FCfg(max_units=4, max_dies=30, partial=0.0, bulk=0.0, line_tables=False))
        f = g.forest()
        while len(f.units) < 3 or len(f.units[-1].dies()) < 4:
            f = g.forest()
        data = bytearray(build_file(f))
        info, _ = f.layout()
        at = bytes(data).find(bytes(info))
        victim = f.units[-1].dies()[len(f.units[-1].dies()) // 2]
        if at >= 0:
            data[at + victim.offset] = 0x7f
            tmp = broken + ".%d" % os.getpid()
            open(tmp, "wb").write(bytes(data))
            os.replace(tmp, broken)
    if os.path.exists(broken):
        out.append(broken)
    return out


def archive_fixture():
    """An ar archive of three generated objects, each with a supplementary file of its own next to the archive: a
    context of several modules (one per member) with several supplementary Dwarfs.  Returns the archive's path."""
    from ..drv import BUILD
    from .. import dwforest as DF
    from ..dwgen import build_file, build_alt_file
    from .c18 import ar_archive
    d = os.path.join(BUILD, "run", "c12-arch")
    arch = os.path.join(d, "members.a")
    if os.path.exists(arch):
        return arch
    tmp = d + ".%d" % os.getpid()
    os.makedirs(tmp, exist_ok=True)
    members = []
    for k in range(3):
        rnd = random.Random(0xA2C + k)
        while True:
            f = DF.ForestGen(rnd, DF.FCfg(max_units=3, max_dies=15, alt=1.0, partial=0.5, bulk=0.0, line_tables=False)).forest()
            if f.alt is not None:
                break
        f.alt_name = b"supp%d.dwz" % k
        f.build_id = bytes([0x10 + k]) * 20
        members.append(("m%d.o" % k, build_file(f)))
        open(os.path.join(tmp, "supp%d.dwz" % k), "wb").write(build_alt_file(f))
    open(os.path.join(tmp, "members.a"), "wb").write(ar_archive(members))
    try:
        os.rename(tmp, d)
    except OSError:
        import shutil
        shutil.rmtree(tmp, ignore_errors=True)
    return arch


ARCHIVE_QUERIES = ['"%s" dwopen raw unit root offset', '"%s" dwopen [raw unit root label]', '"%s" dwopen raw entry (pos < 60) offset',
                   '"%s" dwopen unit root offset', '"%s" dwopen raw abbrev offset', '"%s" dwopen (|D| [D raw unit offset] [D raw entry (pos < 30) label])']


TWIN_QUERIES = ["entry ?TAG_enumerator @AT_const_value", "entry ?AT_const_value ?((@AT_type)* ?TAG_enumeration_type) @AT_const_value",
                "entry ?TAG_base_type @AT_encoding", "entry ?AT_const_value ?((@AT_type)* ?TAG_base_type (@AT_encoding == DW_ATE_signed, @AT_encoding == DW_ATE_unsigned)) @AT_const_value",
                "entry ?AT_name name", "entry ?TAG_enumerator attribute ?AT_const_value form", "entry ?AT_byte_stride @AT_byte_stride"]


def twin_files():
    """Pairs of generated files with the same layout -- every DIE at the same offset, the same bytes in
    .debug_info -- that differ in what the bytes mean: base types signed <-> unsigned, enumerators
    DW_FORM_sdata <-> DW_FORM_udata (the forms live in .debug_abbrev), names in the other case.  Anything the
    library remembers about one file under a key that does not name the file (an offset, an abbreviation code)
    answers wrongly for its twin.  Returns [(path a, path b)]."""
    import copy
    from ..drv import BUILD
    from ..dwgen import build_file, uleb, sleb, TAG, AT, FORM, ATE
    from .c07 import Builder
    d = os.path.join(BUILD, "run")
    os.makedirs(d, exist_ok=True)
    pairs = []
    for k, version in enumerate((2, 4, 5)):
        pa, pb = os.path.join(d, "c12-twin%d-a.o" % k), os.path.join(d, "c12-twin%d-b.o" % k)
        pairs.append((pa, pb))
        if os.path.exists(pa) and os.path.exists(pb):
            continue
        b = Builder(random.Random(0x7714 + k), version)
        # only the classes whose decoding depends on other DIEs
        b.const_values()
        b.integrals()
        b.strings()
        from ..dwgen import Die, Attr, Unit, Forest
        fa = Forest([Unit(Die(TAG["compile_unit"], [Attr(AT["name"], FORM["string"], b"twin.c")], b.top), version)])
        fb = copy.deepcopy(fa)
        swap = {ATE["signed"]: ATE["unsigned"], ATE["unsigned"]: ATE["signed"], ATE["signed_char"]: ATE["unsigned_char"], ATE["unsigned_char"]: ATE["signed_char"]}

        def unleb(bs, signed):
            v, sh = 0, 0
            for x in bs:
                v |= (x & 0x7f) << sh
                sh += 7
            if signed and bs[-1] & 0x40:
                v -= 1 << sh
            return v
        def flipped(a):
            """The enumerator value in the other LEB form, if the stored bytes can stay what they are."""
            if a.form == FORM["sdata"]:
                v = unleb(sleb(a.value), False)
                return (FORM["udata"], v) if uleb(v) == sleb(a.value) else None
            if a.form == FORM["udata"]:
                v = unleb(uleb(a.value), True)
                return (FORM["sdata"], v) if sleb(v) == uleb(a.value) else None
            return None
        for die in fb.all_dies():
            if die.tag == TAG["enumeration_type"]:
                cvs = [a for c in die.children for a in c.attrs if a.name == AT["const_value"]]
                new = [flipped(a) for a in cvs]
                if cvs and all(new):          # the whole enumeration or nothing: its signedness is that of all its enumerators
                    for a, (f_, v_) in zip(cvs, new):
                        a.form, a.value = f_, v_
            for a in die.attrs:
                if die.tag == TAG["base_type"] and a.name == AT["encoding"] and a.value in swap:
                    a.value = swap[a.value]
                elif a.name == AT["name"] and a.form == FORM["string"]:
                    a.value = a.value.swapcase()
        for u in fb.units:
            u.abbrevs.entries, u.abbrevs.index, u.abbrevs.entry_offsets = [], {}, {}
        ia, _ = fa.layout()
        ib, _ = fb.layout()
        da, db = build_file(fa), build_file(fb)
        assert [x.offset for x in fa.all_dies()] == [x.offset for x in fb.all_dies()] and len(ia) == len(ib)
        for pth, data in ((pa, da), (pb, db)):
            tmp = pth + ".%d" % os.getpid()
            open(tmp, "wb").write(data)
            os.replace(tmp, pth)
    return pairs


def splice_nest(n):
    s_ = "1"
    for _ in range(n):
        s_ = '"%( ' + s_ + ' %)"'
    return s_


def mix_ref(cache, prog, path, raw, core_inp):
    key = (prog, path, raw, core_inp)
    if key in cache:
        return cache[key]
    d = Driver(timeout=120)
    try:
        tok = core_inp if path is None else "V%d" % d.open(path, raw)
        r = d.run(prog, tok, limit=300, steps=20000000)
    finally:
        d.kill()
    seq = None if "cerror" in r else {"res": [canon(x) for x in r["res"]], "end": bool(r.get("end")), "error": r.get("error"),
                                      "stderr": r["stderr"].count(b"Error")}
    cache[key] = seq
    return seq


def run_mix(steps, cache, reuse=False):
    """steps: [(prog, path, raw, core_inp)].  All in one driver process, one file handle per (path, raw),
    every query compiled afresh -- or, with REUSE, compiled once per text and executed again on whatever input
    the later steps name (state kept in the operator objects of a compiled query must not outlive an execution,
    also when the next input is another file) -- each result set drained.  Returns (index, reason) or None."""
    d = Driver(timeout=120)
    toks = {}
    compiled = {}
    try:
        for k, (prog, path, raw, core_inp) in enumerate(steps):
            ref = mix_ref(cache, prog, path, raw, core_inp)
            if ref is None:
                # does not compile in a fresh process: it must be rejected here too -- and leave nothing behind for
                # the compilations that follow
                r = d.parse(prog)
                if "q" in r:
                    return k, "is rejected in a fresh process, compiles here"
                continue
            if path is not None and (path, raw) not in toks:
                toks[(path, raw)] = "V%d" % d.open(path, raw)
            tok = core_inp if path is None else toks[(path, raw)]
            if reuse:
                if prog not in compiled:
                    compiled[prog] = d.parse(prog)
                if "q" not in compiled[prog]:
                    return k, "compiles in a fresh process, here: %r" % compiled[prog].get("cerror")
                r = d.req("runq %d 300 20000000 %s" % (compiled[prog]["q"], tok))
            else:
                r = d.run(prog, tok, limit=300, steps=20000000)
            if "cerror" in r:
                return k, "compiles in a fresh process, here: %r" % r["cerror"]
            got = {"res": [canon(x) for x in r["res"]], "end": bool(r.get("end")), "error": r.get("error"),
                   "stderr": r["stderr"].count(b"Error")}
            if got != ref:
                if len(got["res"]) != len(ref["res"]) or got["error"] != ref["error"] or got["end"] != ref["end"]:
                    return k, "as step %d of a sequence: %d results, error %r; in a fresh process: %d results, error %r" % (
                        k, len(got["res"]), got["error"], len(ref["res"]), ref["error"])
                j = next((j for j in range(len(ref["res"])) if got["res"][j] != ref["res"][j]), -1)
                return k, "as step %d of a sequence result #%d is %s; in a fresh process %s (diagnostics %d vs %d)" % (
                    k, j, json.dumps(got["res"][j])[:200] if j >= 0 else "-", json.dumps(ref["res"][j])[:200] if j >= 0 else "-",
                    got["stderr"], ref["stderr"])
        return None
    finally:
        d.kill()


def units_fixture():
    """A generated file of four or more units with a supplementary file of several units next to it."""
    from ..drv import BUILD
    from .. import dwforest as DF
    from ..dwgen import build_file, build_alt_file
    d = os.path.join(BUILD, "run", "c12-units")
    main = os.path.join(d, "units.o")
    if os.path.exists(main):
        return main
    tmp = d + ".%d" % os.getpid()
    os.makedirs(tmp, exist_ok=True)
    rnd = random.Random(0x0175)
    while True:
        f = DF.ForestGen(rnd, DF.FCfg(max_units=6, max_dies=12, alt=1.0, partial=0.3, bulk=0.0, line_tables=False)).forest()
        if f.alt is not None and len(f.units) >= 4 and len(f.alt.units) >= 2:
            break
    f.alt_name = b"units.dwz"
    f.build_id = b"\x42" * 20
    open(os.path.join(tmp, "units.o"), "wb").write(build_file(f))
    open(os.path.join(tmp, "units.dwz"), "wb").write(build_alt_file(f))
    try:
        os.rename(tmp, d)
    except OSError:
        import shutil
        shutil.rmtree(tmp, ignore_errors=True)
    return main


# What is a unit's root is remembered per Dwarf once somebody asks: whichever DIE of whichever unit is asked about
# first, the answers for all the others stay what they are.
ROOT_QUERIES = ["unit (pos == 1) root ?root offset", "unit (pos >= 1) root ?root offset", "unit (pos == 2) root ?root offset", "unit (pos == 3) root ?root offset",
                "entry (pos > 6) ?root offset", "entry (pos > 20) ?root offset", "unit root ?root offset", "entry ?root offset", "entry !root offset", "[entry ?root] length",
                "entry (pos > 3) !root parent* ?root offset", "unit (pos == 0) root ?root offset", "unit (pos >= 2) entry ?root offset", "unit (pos == 1) entry !root offset",
                "entry ?AT_import @AT_import ?root offset", "entry ?AT_import @AT_import !root offset", "[unit (pos >= 1) root] elem ?root offset",
                "[entry] (|L| L elem (pos >= 9) ?root offset, L elem ?root offset)", "[entry] relem ?root offset"]


SYMBOL_FILES = ["/repo/tests/y.o", "/repo/tests/y-mips.o", "/repo/tests/a1.out"]
SYMBOL_QUERIES = ["symbol label", "symbol binding", "symbol [label, binding, visibility] \"%s\"", "symbol (label == STT_ARM_TFUNC) name", "symbol (binding == STB_MIPS_SPLIT_COMMON) name",
                  "symbol label \"%s\"", "symbol binding \"%s\"", "[symbol binding] length", "symbol (label \"%s\" \"LOPROC\" ?find) name"]


def work_mix(task):
    seed, start, count = task
    ev = Evidence()
    cache = {}
    files = mix_files()
    twins = twin_files()
    for i in range(start, start + count):
        rnd = random.Random((seed << 32) ^ (i * 2654435761 & 0xffffffff) ^ 0x12C)
        steps = []
        fset = rnd.sample(files, min(len(files), rnd.randint(1, 2)))
        progs = MIX_DW
        if rnd.random() < 0.3:
            fset = list(rnd.choice(twins))
            rnd.shuffle(fset)
            progs = TWIN_QUERIES * 3 + MIX_DW
            ev.label("mixed-sequence:twin-files")
        for _ in range(rnd.randint(3, 9)):
            if rnd.random() < 0.7:
                steps.append((rnd.choice(progs), rnd.choice(fset), rnd.random() < 0.25, ""))
            else:
                p = rnd.choice(MIX_CORE)
                ins = [x for x in CORE_INPUTS if applicable(p, x)]
                steps.append((p, None, False, rnd.choice(ins) if ins else ""))
        if rnd.random() < 0.5:
            steps += [rnd.choice(steps) for _ in range(rnd.randint(1, 3))]      # the same thing again later
        reuse = rnd.random() < 0.4
        if rnd.random() < 0.1:
            # compilations around a limit of the parser: accepted at 99 nested splices, rejected beyond -- the same text
            # compiled again after rejections must compile again
            reuse = False
            q = lambda n: splice_nest(n)
            steps = [(q(99), None, False, "")] + [(q(rnd.choice([100, 101, 150])), None, False, "") for _ in range(rnd.randint(1, 4))] \
                + [(q(rnd.choice([99, 98, 97, 95])), None, False, ""), (rnd.choice(MIX_CORE[:20]), None, False, ""), (q(99), None, False, "")]
            ev.label("mixed-sequence:rejected-compilations-in-between")
        if rnd.random() < 0.08:
            # a file of several modules and several supplementary files, opened anew by every execution (`dwopen` in
            # the query), other work in between: what the walk over its units yields does not depend on what the
            # process did before
            reuse = False
            arch = archive_fixture()
            steps = []
            for _ in range(rnd.randint(4, 8)):
                steps.append((rnd.choice(ARCHIVE_QUERIES) % arch, None, False, ""))
                if rnd.random() < 0.6:
                    p_ = rnd.choice(MIX_CORE)
                    ins_ = [x for x in CORE_INPUTS if applicable(p_, x)]
                    steps.append((p_, None, False, rnd.choice(ins_) if ins_ else ""))
            ev.label("mixed-sequence:archive-with-supplementary-files")
        if rnd.random() < 0.1:
            rf = rnd.sample([units_fixture(), "/repo/tests/a1.out", "/repo/tests/dwz-partial2-1", archive_fixture()], 2)
            steps = [(rnd.choice(ROOT_QUERIES), rnd.choice(rf), rnd.random() < 0.3, "") for _ in range(rnd.randint(3, 8))]
            reuse = rnd.random() < 0.4
            ev.label("mixed-sequence:which-DIE-is-asked-first-whether-it-is-a-root")
        sym_scenario = rnd.random() < 0.06 and all(os.path.exists(p_) for p_ in SYMBOL_FILES)
        if sym_scenario:
            # one compiled query over the symbol tables of files of different machines, in turn: how a type or a
            # binding is named belongs to the file, not to the query
            qs = rnd.sample(SYMBOL_QUERIES, 2)
            order = rnd.sample(SYMBOL_FILES, len(SYMBOL_FILES))
            steps = [(rnd.choice(qs), order[j % len(order)], False, "") for j in range(rnd.randint(4, 8))]
            ev.label("mixed-sequence:one-compiled-symbol-query-over-several-machines")
        if reuse and not sym_scenario:
            # the same few queries again and again, on alternating inputs
            few = rnd.sample(steps, min(len(steps), 2))
            steps = [(rnd.choice(few)[0],) + rnd.choice(steps)[1:] for _ in range(rnd.randint(4, 10))]
            steps = [s_ for s_ in steps if (s_[1] is None) == (s_[0] in MIX_CORE)]
            if not steps:
                continue
        try:
            reuse = reuse or sym_scenario
            bad = run_mix(steps, cache, reuse)
            ev.case(key=("mix", reuse, repr(steps)), nontrivial=len(set(s_[0] for s_ in steps)) >= 3 or reuse)
            ev.label("mixed-sequence")
            if reuse:
                ev.label("mixed-sequence:one-compiled-query-many-inputs")
            if bad:
                # shrink: drop steps while the same step still fails
                k, why = bad
                culprit = steps[k]
                cur = list(steps[:k + 1])
                changed = True
                while changed and len(cur) > 1:
                    changed = False
                    for j in range(len(cur) - 1):
                        cand = cur[:j] + cur[j + 1:]
                        b2 = run_mix(cand, cache, reuse)
                        if b2 and cand[b2[0]] == culprit:
                            cur, why, changed = cand[:b2[0] + 1], b2[1], True
                            break
                ev.violations.append({"property": PID, "kind": "mix", "steps": cur, "reuse_compiled": reuse, "reason": "%s  [query: %s on %s]" % (why, culprit[0], culprit[1] or repr(culprit[3])),
                                      "signature": "C12:mix:%s:%s" % (culprit[0], why[:60])})
            elif rnd.random() < 0.02:
                ev.sample({"sequence": [(s_[0], os.path.basename(s_[1]) if s_[1] else s_[3]) for s_ in steps]})
        except DriverCrash as e:
            ev.violations.append({"property": PID, "kind": "mix", "steps": steps, "reason": "driver crashed: " + e.report[-3000:],
                                  "signature": "C12:mixcrash:" + repr(steps)[:100]})
        except DriverTimeout:
            ev.inconc("watchdog")
    return ev


def work_plain_repeat(_):
    """The same, on the build without sanitizers (whose allocator hands freed memory out again at once, unlike
    ASan's): one process opens a file eight times in a row and walks it; each walk must print what a process that
    does it once prints.  Anything ordered by the addresses of heap objects shows here."""
    import subprocess
    from ..drv import BUILD
    ev = Evidence()
    plain = os.path.join(BUILD, "bin", "dwgrep-plain")
    arch = archive_fixture()
    files = [arch, "/repo/tests/a1.out", "/repo/tests/dwz-partial2-1", "/repo/tests/twocus"]
    bodies = ["[raw unit root offset]", "[raw entry (pos < 80) offset]", "[unit root offset]", "[raw abbrev offset]", "[symbol (pos < 20) name]"]
    for f in files:
        for b in bodies:
            one = subprocess.run([plain, "-e", '"%s" dwopen %s' % (f, b)], stdout=subprocess.PIPE, stderr=subprocess.PIPE, timeout=120)
            many = subprocess.run([plain, "-h", "--a", "(1, 2, 3, 4, 5, 6, 7, 8)", "-e", '(|N| "%s" dwopen %s)' % (f, b)], stdout=subprocess.PIPE, stderr=subprocess.PIPE, timeout=300)
            ev.case(key=("plain-repeat", f, b), nontrivial=True)
            ev.label("plain-repeat")
            first = [l for l in one.stdout.split(b"\n") if l.startswith(b"[")]
            each = [l for l in many.stdout.split(b"\n") if l.startswith(b"[")]
            if one.returncode not in (0, 1) or many.returncode != one.returncode or (first and (len(each) != 8 or any(l != first[0] for l in each))):
                k = next((k for k, l in enumerate(each) if not first or l != first[0]), -1)
                ev.violations.append({"property": PID, "kind": "plain-repeat", "query": '(|N| "%s" dwopen %s)' % (f, b), "signature": "C12:plain-repeat:%s:%s" % (os.path.basename(f), b),
                                      "reason": "opened and walked eight times in one process (build without sanitizers): execution #%d prints %r, a process that does it once prints %r (exit %d vs %d)"
                                      % (k + 1, (each[k][:200] if 0 <= k < len(each) else None), (first[0][:200] if first else None), many.returncode, one.returncode)})
    return ev


def main(tier, seed):
    t0 = time.time()
    maxlen = 5 if tier == "quick" else 7
    pis = program_inputs(tier)
    ev = Evidence()
    ev.merge(run_pool(work_exh, [(p, ins, maxlen) for p, ins in pis]))
    n = 2000 if tier == "quick" else 40000
    per = max(10, n // 48)
    ev.merge(run_pool(work_random, [(seed, s, min(per, n - s), tier) for s in range(0, n, per)]))
    n = 1200 if tier == "quick" else 30000
    per = max(10, n // 48)
    mix_files()        # compile the fixture once, before the workers fork
    twin_files()
    archive_fixture()
    ev.merge(run_pool(work_mix, [(seed, s_, min(per, n - s_)) for s_ in range(0, n, per)]))
    ev.merge(work_plain_repeat(None))
    ev.extra["mixed_sequences"] = n
    ev.extra["programs"] = len(pis)
    ev.extra["interleaving_length_bound"] = maxlen
    return finish(PID, tier, seed, ev, RULE, t0, exhaustive=True,
                  assumptions=["single-threaded histories only; the API is not documented as thread-safe",
                               "destroying a query while one of its result sets is live is not exercised (not documented as allowed)",
                               "exhaustive=true: all interleavings up to the stated length for the fixed program list"],
                  health={"programs enumerated": ev.labels.get("exhaustive-program", 0) >= 30,
                          "random histories": ev.labels.get("random-history", 0) > 100,
                          "mixed sequences": ev.labels.get("mixed-sequence", 0) > 100,
                          "mixed sequences with one compiled query executed on several inputs": ev.labels.get("mixed-sequence:one-compiled-query-many-inputs", 0) > 100,
                          "repeated opens on the build without sanitizers": ev.labels.get("plain-repeat", 0) >= 15,
                          "mixed sequences that open an archive with supplementary files again and again": ev.labels.get("mixed-sequence:archive-with-supplementary-files", 0) > 40,
                          "mixed sequences that ask different DIEs first whether they are roots": ev.labels.get("mixed-sequence:which-DIE-is-asked-first-whether-it-is-a-root", 0) > 60,
                          "mixed sequences of one compiled symbol query over several machines": ev.labels.get("mixed-sequence:one-compiled-symbol-query-over-several-machines", 0) > 30,
                          "mixed sequences with rejected compilations in between": ev.labels.get("mixed-sequence:rejected-compilations-in-between", 0) > 50,
                          "mixed sequences over twin files (same offsets, different meaning)": ev.labels.get("mixed-sequence:twin-files", 0) > 100})


def replay(path):
    rec = json.load(open(path))
    if rec.get("kind") == "plain-repeat":
        ev = work_plain_repeat(None)
        for v in ev.violations:
            print(v["reason"])
        return 1 if ev.violations else 0
    if rec.get("kind") == "mix":
        mix_files()
        twin_files()
        archive_fixture()
        bad = run_mix([tuple(x) for x in rec["steps"]], {}, bool(rec.get("reuse_compiled")))
        print(bad)
        return 1 if bad else 0
    R = Ref()
    inputs = [tuple(x) for x in rec["inputs"]]
    refs = [R.get(rec["query"], k, i, None) for k, i in inputs]
    ops = [tuple(o) for o in rec["history"]]
    why = run_history(rec["query"], inputs, ops, refs)
    print(why)
    return 1 if why else 0
