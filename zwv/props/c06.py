"""C06 -- cooked view = raw view with imports inlined and inherited attributes integrated.

Generated forests with arbitrary acyclic import graphs and DW_AT_specification /
DW_AT_abstract_origin chains (shadowing at intermediate hops, DW_AT_sibling / DW_AT_declaration
on the referenced DIE), plus the dwz and C++ samples.
  * model: cooked units (no partial units), cooked children (imports replaced recursively and in
    place), cooked `attribute` (own attributes in stored order, then the inherited ones the DIE
    lacks -- compared as a set, never sibling/declaration, never a name twice);
  * differential laws between words, for every attribute name / tag / form of the vocabulary that
    occurs in the file plus absent ones, on every DIE, raw and cooked:
      @AT_x = attribute ?AT_x cooked value;  ?AT_x <=> attribute ?AT_x yields;  name = @AT_name;
      ?TAG_x <=> label == DW_TAG_x;  ?FORM_x <=> form == DW_FORM_x  (and the ! forms).
"""
import glob, os, random, time

from .. import dwforest as DF
from ..dwgen import build_file, TAG, AT, FORM, AT_NAME, TAG_NAME, FORM_NAME
from ..dwcheck import TempElf, TempElfSet, forest_files
from ..drv import Driver, DriverCrash, DriverTimeout
from ..harness import Evidence, run_pool, finish
from ..hdr import dwarf_constants

PID = "C06"
RULE = ("generated forests (<= 6 units, <= 40 DIEs, import graphs nested <= 4, inheritance chains with shadowing, link trees, chains of 15-40 links, cross-unit chains whose far end carries DW_AT_decl_file (per-unit line tables), links into a dwz-style supplementary file (GNU_ref_alt / ref_sup4) and into DWARF 4 type units of .debug_types (ref_sig8), the target often at the linking DIE's own offset of the other number space) and "
        "the ELF samples of /repo/tests; every DIE: cooked unit list, cooked children, cooked attribute list vs the model; "
        "every (DIE, attribute name) for names occurring in the file + 6 absent ones: the @AT_x / ?AT_x / name laws; every tag "
        "and form constant of the vocabulary occurring in the file + absent ones: ?TAG_x / ?FORM_x laws; raw and cooked.  "
        "Non-trivial: the DIE inherits >= 1 attribute through >= 2 hops or one that is shadowed, or has a child imported "
        "through >= 2 levels.  Distinct by (file, DIE, law).")


def wordname(prefix, table, code):
    n = table.get(code)
    if n is None:
        return None
    return prefix + n.rstrip("_")


def dump_ids(seq):
    out = []
    for e in seq["e"]:
        if e["t"] == "at":
            out.append(("at", e["name"], e["form"], e["die"]["off"]))
        elif e["t"] == "die":
            out.append(("die", e["off"]))
        elif e["t"] == "c":
            out.append(("c", e["v"], e["d"]))
        elif e["t"] == "s":
            out.append(("s", e["x"]))
        elif e["t"] == "q":
            out.append(("q", tuple(dump_ids(e))))
        else:
            out.append((e["t"], repr({k: v for k, v in e.items() if k not in ("dw", "id", "di", "sh", "p")})))
    return out


def model_attrs_check(f, rows):
    """rows aligned with DF.cooked_entries(f): [D attribute] dumps."""
    nt = 0
    for (d, chain), row in zip(DF.cooked_entries(f), rows):
        got = [(e["name"], e["form"], e["die"]["off"]) for e in row["e"]]
        own, cand = DF.inherited_attrs(d)
        exp_own = [(a.name, a.form, d.offset) for a in own]
        if got[:len(exp_own)] != exp_own:
            return "DIE %#x: own attributes %r, stored %r" % (d.offset, got[:len(exp_own)], exp_own), nt
        rest = got[len(exp_own):]
        names = [n for n, _, _ in rest]
        if len(set(names)) != len(names) or set(names) & set(n for n, _, _ in exp_own):
            return "DIE %#x: an attribute name is yielded twice: %r" % (d.offset, [AT_NAME.get(n, n) for n in names]), nt
        if set(names) != set(cand):
            return ("DIE %#x: inherited attributes %r, the model expects %r"
                    % (d.offset, sorted(AT_NAME.get(n, n) for n in names), sorted(AT_NAME.get(n, n) for n in cand))), nt
        for n, fm, off in rest:
            if n in (AT["sibling"], AT["declaration"]):
                return "DIE %#x inherits DW_AT_%s" % (d.offset, AT_NAME[n]), nt
            if not any(a.form == fm and src.offset == off for a, src in cand[n]):
                return ("DIE %#x: inherited %s comes from DIE %#x with form %s; candidates %r"
                        % (d.offset, AT_NAME.get(n, n), off, FORM_NAME.get(fm, fm), [(src.offset, a.form) for a, src in cand[n]])), nt
        # non-trivial: inherited through >= 2 hops or shadowed
        if cand:
            direct = set()
            for a in own:
                if a.name in (AT["specification"], AT["abstract_origin"]):
                    direct.add(id(a.value))
            deep = any(id(src) not in direct for lst in cand.values() for _, src in lst)
            shadow = any(len(lst) > 1 for lst in cand.values())
            if deep or shadow:
                nt += 1
        if len(chain) >= 2:
            nt += 1
    return None, nt


def laws(drv, ev, tok, mode, names_at, tags, forms, desc):
    """Differential laws for one file/mode.  Returns list of reasons."""
    bad = []
    base = drv.run("[entry offset]", tok, limit=5)
    if "error" in base or not base.get("res"):
        return bad
    for an in names_at:
        q1 = "entry (|D| [D @%s])" % an
        q2 = "entry (|D| [D attribute ?%s cooked value])" % an
        q3 = "(|W| [W entry ?%s offset] [W entry ?(attribute ?%s) offset] [W entry !%s offset] [W entry !(attribute ?%s) offset])" % (an, an, an, an)
        r1, r2, r3 = drv.run(q1, tok, limit=30000, steps=100000000), drv.run(q2, tok, limit=30000, steps=100000000), drv.run(q3, tok, limit=5, steps=100000000)
        ev.case(key=(desc, mode, an), nontrivial=False)
        ev.label("law:@AT")
        if ("error" in r1) != ("error" in r2):
            # an uninterpreted value fails hard in both spellings or in neither
            bad.append("@%s fails (%r) but attribute ?%s cooked value does not (%r)" % (an, r1.get("error"), an, r2.get("error")))
            continue
        if "error" in r1:
            ev.inconc("value raises: " + an)
            continue
        a = [dump_ids(s[0]) for s in r1["res"]]
        b = [dump_ids(s[0]) for s in r2["res"]]
        # A DIE that stores one attribute twice (seen in old GCC output) is malformed input: the
        # raw view must list both, @AT_x takes the first.
        def dedup(l):
            out = []
            for x in l:
                if x not in out:
                    out.append(x)
            return out
        if a != b and len(a) == len(b) and all(x == y or (len(y) > len(x) and x == dedup(y)) for x, y in zip(a, b)):
            ev.inconc("DIE stores an attribute twice")
            continue
        if a != b:
            k = next(i for i, (x, y) in enumerate(zip(a, b)) if x != y) if len(a) == len(b) else -1
            bad.append("@%s differs from `attribute ?%s cooked value` at DIE #%d: %r vs %r" % (an, an, k, a[k] if k >= 0 else len(a), b[k] if k >= 0 else len(b)))
        if "error" not in r3 and r3.get("res"):
            s = r3["res"][0]
            has, has2, no, no2 = [[int(e["v"]) for e in x["e"]] for x in s[-4:]]
            if has != has2 or no != no2:
                bad.append("?%s holds on %r, `attribute ?%s` yields on %r" % (an, has[:8], an, has2[:8]))
            if sorted(has + no) != sorted(int(e["v"]) for e in base["res"][0][-1]["e"]):
                bad.append("?%s / !%s do not partition the DIEs" % (an, an))
    r = drv.run("(|W| [W entry (|D| [D name])] [W entry (|D| [D @AT_name])])", tok, limit=5, steps=100000000)
    if "error" not in r and r.get("res"):
        ev.label("law:name")
        if dump_ids(r["res"][0][-2]) != dump_ids(r["res"][0][-1]):
            bad.append("`name` differs from `@AT_name`")
    for tn in tags:
        r = drv.run("(|W| [W entry ?%s offset] [W entry (label == DW_%s) offset] [W entry !%s offset] [W entry (label != DW_%s) offset])" % (tn, tn, tn, tn), tok, limit=5)
        ev.case(key=(desc, mode, tn), nontrivial=False)
        ev.label("law:?TAG")
        if "error" in r or not r.get("res"):
            bad.append("?%s law query failed: %r" % (tn, r.get("error") or r.get("cerror")))
            continue
        a, b, c, d = [[int(e["v"]) for e in x["e"]] for x in r["res"][0][-4:]]
        if a != b or c != d:
            bad.append("?%s holds on %r but label == DW_%s on %r" % (tn, a[:8], tn, b[:8]))
    for fn in forms:
        r = drv.run("(|W| [W entry attribute ?%s form] [W entry attribute (form == DW_%s) form] [W entry attribute !%s pos] [W entry attribute (form != DW_%s) pos])" % (fn, fn, fn, fn), tok, limit=5)
        ev.case(key=(desc, mode, fn), nontrivial=False)
        ev.label("law:?FORM")
        if "error" in r or not r.get("res"):
            bad.append("?%s law query failed: %r" % (fn, r.get("error") or r.get("cerror")))
            continue
        a, b, c, d = [[int(e["v"]) for e in x["e"]] for x in r["res"][0][-4:]]
        if a != b or c != d:
            bad.append("?%s yields %d attributes but form == DW_%s yields %d" % (fn, len(a), fn, len(b)))
    return bad


def vocab_names(drv):
    words = set(drv.vocab("dw"))
    at = sorted(w[1:] for w in words if w.startswith("?AT_"))
    tg = sorted(w[1:] for w in words if w.startswith("?TAG_"))
    fm = sorted(w[1:] for w in words if w.startswith("?FORM_"))
    return at, tg, fm


def work_gen(task):
    seed, start, count = task
    ev = Evidence()
    drv = Driver(timeout=180)
    consts = dwarf_constants()
    num2at = {}
    num2tag = {}
    num2form = {}
    for k, v in consts.items():
        if k.startswith("DW_AT_"):
            num2at.setdefault(v, k[3:])
        elif k.startswith("DW_TAG_"):
            num2tag.setdefault(v, k[3:])
        elif k.startswith("DW_FORM_"):
            num2form.setdefault(v, k[3:])
    try:
        at_all, tg_all, fm_all = vocab_names(drv)
        for i in range(start, start + count):
            if len(ev.violations) >= 30:
                break       # verdict settled
            rnd = random.Random((seed << 32) ^ (i * 2654435761 & 0xffffffff) ^ 0xC06)
            g = DF.ForestGen(rnd, DF.FCfg(max_units=rnd.choice([2, 4, 6]), max_dies=rnd.choice([12, 40]), partial=0.7, long_chains=0.08,
                                                 alt=0.15, debug_types=0.12))
            f = g.forest()
            data, others = forest_files(f)
            extra = {"other_files": [[n, d.hex()] for n, d in others]} if others else {}
            try:
                with TempElfSet(data, others) as path:
                    for mode in ("cooked", "raw"):
                        h = drv.open(path, mode == "raw")
                        tok = "V%d" % h
                        try:
                            if mode == "cooked":
                                r = drv.run("entry (|D| [D attribute])", tok, limit=30000, steps=100000000)
                                ru = drv.run("unit", tok, limit=500)
                                why, nt = None, 0
                                if "error" in r or not r.get("end"):
                                    why = "attribute query failed: %r" % r.get("error")
                                elif [s[-1]["off"] for s in ru["res"]] != [u.offset for u in DF.cooked_units(f)]:
                                    why = "cooked unit lists %r, model %r" % ([s[-1]["off"] for s in ru["res"]], [u.offset for u in DF.cooked_units(f)])
                                elif len(r["res"]) != len(DF.cooked_entries(f)):
                                    why = "cooked entry yields %d DIEs, model %d" % (len(r["res"]), len(DF.cooked_entries(f)))
                                else:
                                    why, nt = model_attrs_check(f, [s[0] for s in r["res"]])
                                ev.case(n=len(r.get("res", [])) or 1)
                                for k in range(nt):
                                    ev.nontrivial.add("%x" % hash((data, k)))
                                ev.label("model:cooked-attributes")
                                if why:
                                    ev.violations.append(dict({"property": PID, "elf_hex": data.hex(), "recipe": {"seed": seed, "index": i},
                                                               "reason": "cooked: " + why, "signature": "C06:attrs:" + why[:60]}, **extra))
                                elif nt and rnd.random() < 0.03:
                                    ev.sample({"dies": len(r["res"]), "inherit_links": g.labels.get("inherit-link", 0),
                                               "imports": g.labels.get("import-edge", 0), "nontrivial_dies": nt})
                            if i % 6 == 0:
                                present_at = sorted(set(num2at[a.name] for d in f.all_dies() for a in d.attrs if a.name in num2at and num2at[a.name] in at_all))
                                absent_at = rnd.sample([x for x in at_all if x not in present_at], 4)
                                present_tg = sorted(set(num2tag[d.tag] for d in f.all_dies() if d.tag in num2tag and num2tag[d.tag] in tg_all))
                                present_fm = sorted(set(num2form[a.form] for d in f.all_dies() for a in d.attrs if a.form in num2form and num2form[a.form] in fm_all))
                                bad = laws(drv, ev, tok, mode, present_at + absent_at, present_tg[:8] + rnd.sample(tg_all, 3),
                                           present_fm + rnd.sample(fm_all, 3), "gen%d" % i)
                                for b in bad[:3]:
                                    ev.violations.append(dict({"property": PID, "elf_hex": data.hex(), "recipe": {"seed": seed, "index": i}, "mode": mode,
                                                               "reason": "%s: %s" % (mode, b), "signature": "C06:law:%s:%s" % (mode, b[:60])}, **extra))
                        finally:
                            drv.req("vclose %d" % h)
            except DriverCrash as e:
                ev.violations.append({"property": PID, "elf_hex": data.hex(), "recipe": {"seed": seed, "index": i},
                                      "reason": "driver crashed: " + e.report[-3000:], "signature": "C06:crash:%d" % i})
            except DriverTimeout:
                ev.inconc("watchdog")
            for l in ("inherit-link", "both-links", "link-tree", "import-edge", "long-chain", "cross-unit-chain", "decl-file",
                      "alt-link", "alt-link-same-offset", "sig8-link", "sig8-link-same-offset", "alt-import", "alt-import-nested",
                      "alt-import-nested-same-root-offset"):
                if g.labels.get(l):
                    ev.label("gen:" + l, g.labels[l])
    finally:
        drv.kill()
    return ev


def work_samples(paths):
    ev = Evidence()
    drv = Driver(timeout=600)
    try:
        at_all, tg_all, fm_all = vocab_names(drv)
        for path in paths:
            for mode in ("cooked", "raw"):
                try:
                    h = drv.open(path, mode == "raw")
                    tok = "V%d" % h
                    r = drv.run("(|W| [W entry attribute label \"%s\"] [W entry label \"%s\"] [W entry attribute form \"%s\"])", tok, limit=5, steps=500000000)
                    if "error" in r or not r.get("res"):
                        ev.inconc("no DWARF or failure: " + os.path.basename(path))
                        drv.req("vclose %d" % h)
                        continue
                    ats = sorted(set(bytes.fromhex(e["x"]).decode()[3:] for e in r["res"][0][-3]["e"]))
                    tgs = sorted(set(bytes.fromhex(e["x"]).decode()[3:] for e in r["res"][0][-2]["e"]))
                    fms = sorted(set(bytes.fromhex(e["x"]).decode()[3:] for e in r["res"][0][-1]["e"]))
                    ats = [a for a in ats if a in at_all]
                    tgs = [t for t in tgs if t in tg_all]
                    fms = [x for x in fms if x in fm_all]
                    bad = laws(drv, ev, tok, mode, ats + ["AT_byte_stride", "AT_rank"], tgs + ["TAG_variant"], fms + ["FORM_data16"], os.path.basename(path))
                    ev.label("sample:" + mode)
                    for b in bad[:4]:
                        ev.violations.append({"property": PID, "file": path, "mode": mode, "reason": "%s %s: %s" % (os.path.basename(path), mode, b),
                                              "signature": "C06:sample:%s:%s:%s" % (os.path.basename(path), mode, b[:50])})
                    drv.req("vclose %d" % h)
                except DriverCrash as e:
                    ev.violations.append({"property": PID, "file": path, "reason": "driver crashed: " + e.report[-3000:], "signature": "C06:crash:" + os.path.basename(path)})
                except DriverTimeout:
                    ev.inconc("watchdog: " + os.path.basename(path))
        ev.sample({"sample_files": [os.path.basename(p) for p in paths]}, cap=2)
    finally:
        drv.kill()
    return ev


def main(tier, seed):
    t0 = time.time()
    n = 1000 if tier == "quick" else 20000
    ev = Evidence()
    per = max(10, n // 48)
    ev.merge(run_pool(work_gen, [(seed, s, min(per, n - s)) for s in range(0, n, per)]))
    samples = sorted(p for p in glob.glob("/repo/tests/*") if os.path.isfile(p) and open(p, "rb").read(4) == b"\x7fELF")
    if tier == "quick":
        samples = [p for p in samples if os.path.getsize(p) < 200000]
    ev.merge(run_pool(work_samples, [samples[i::12] for i in range(12)]))
    return finish(PID, tier, seed, ev, RULE, t0,
                  assumptions=["order among inherited attributes is not fixed by the statement: own attributes are compared as a sequence, inherited ones as a set keyed by name",
                               "a DIE with both DW_AT_specification and DW_AT_abstract_origin supplying one name may take it from either (candidates accepted)",
                               "reference chains are acyclic and <= 8 hops (libdw's own integration stops after 16)"],
                  health={"inheritance links generated": ev.labels.get("gen:inherit-link", 0) > 200,
                          "two-link trees generated": ev.labels.get("gen:link-tree", 0) > 20,
                          "long chains generated": ev.labels.get("gen:long-chain", 0) > 10,
                          "cross-unit chains with decl_file": ev.labels.get("gen:cross-unit-chain", 0) > 20,
                          "links into a supplementary file, the target at the linking DIE's own offset": ev.labels.get("gen:alt-link-same-offset", 0) > 20,
                          "imports of supplementary-file units, also from imported partial units whose root has the same offset":
                          ev.labels.get("gen:alt-import", 0) > 30 and ev.labels.get("gen:alt-import-nested-same-root-offset", 0) > 3,
                          "links into .debug_types by signature, the type at the linking DIE's own offset": ev.labels.get("gen:sig8-link-same-offset", 0) > 10,
                          "laws checked": ev.labels.get("law:@AT", 0) > 500 and ev.labels.get("law:?TAG", 0) > 200 and ev.labels.get("law:?FORM", 0) > 200,
                          "samples": ev.labels.get("sample:cooked", 0) >= 8})


def replay(path):
    import json
    rec = json.load(open(path))
    print(rec.get("reason"))
    return 0
