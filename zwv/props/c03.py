"""C03 -- names resolve lexically: each read sees the binding of its own scope and input.

Name-heavy typed random programs: every binder form (let, (|A|...), [|A|...], ?(|A|...),
{|A|...}), nesting <= 4, shadowing, multi-yielding let bodies, reads inside every kind of
sub-expression, blocks capturing several up-values at several depths and applied directly or
through a name, names equal to built-in words, and a fraction of deliberately ill-scoped
programs (unbound read / rebinding).  Oracle: zwv.model environment semantics + static scope
pass written from doc/syntax.rst: compile error <=> predicted (and it must name the
identifier), otherwise equal results.
"""
import random, time

from .. import gen as G, model as M, compare as CMP
from ..core_case import run_case
from ..drv import Driver, DriverCrash, DriverTimeout
from ..harness import Evidence, run_pool, finish, encode_stack, decode_stack
from ..render import render
from ..shrink import shrink
from .c01 import rand_prefix, with_prefix

PID = "C03"
RULE = ("seeded random typed programs with name constructs weighted x4 (depth <= 3, up to 5 statements), run plain and "
        "behind a 2-3-yield prefix, 12% with an injected scope error; plus a fixed table of scoping examples from "
        "syntax.rst; plus 525 block-in-block templates (3 outer bindings of A x 5 ways of rebinding it inside a block x 7 inner "
        "blocks reading it x 5 ways of applying them, A read again afterwards).  Non-trivial: >= 2 binders of one name in different scopes (shadowing), or a block with >= 2 "
        "up-values, or a read that crosses a sub-expression boundary -- and the program has >= 2 binders.  Distinct by "
        "program text.")

DOC_CASES = [
    # (query, expected: list of result stacks as python ints / "error substring")
    ("let X := 1; X", [[1]]),
    ("let X := 1, 2; X", [[1], [2]]),
    ("let A B := 1 2, 3 4; A B", [[1, 2], [3, 4]]),
    ("?(let A := 1;) A", "unbound"),
    ("(let A := 1; 1 == 1) A", "unbound"),
    ("(let A := 1;, let A := 2;) A", "unbound"),
    ("\"\" (|X| let A := 1;) A", "unbound"),
    ("if ?() then let A := 1; else let A := 2; A", "unbound"),
    ("let A := if ?() then 1 else 2; A", [[1]]),
    ("(let A := 1;) A", [[1]]),
    ("let A := 1; let A := 1;", "rebound"),
    ("let A := 1; 2 [|A| A]", [[[2]]]),
    ("1 2 ?(|A B| A B ?lt)", [[1, 2]]),
    ("1 [|A| A]", [[[1]]]),
    ("1 2 (|A B| B A)", [[2, 1]]),
    ("let A := 1; ?(let A := 2;) A", [[1]]),
    ("let A := 1; !(let A := 2; A 1 ?eq) A", [[1]]),
    ("(let A := 1;)? let A := 2; A", [[2], [2]]),
    ("let A := 1; (let B := A 1 add;, let B := A 2 add;) A", [[1], [1]]),
    ("let add := 5; add", [[5]]),
    ("let length := \"abc\"; length length", "SKIP"),
    ("let A := 1; let F := {A 10 add}; let A2 := 2; F", [[11]]),
    ("(1, 2) (|A| {A 10 mul}) apply", [[10], [20]]),
    ("let A := (1, 2); let B := 10; let F := {A B add}; F F", [[11, 11], [12, 12]]),
    ("let A := 1; {|X| {X A add}} (|F| 5 F apply apply)", "SKIP"),
    ("5 {|X| X X mul} apply", [[25]]),
    ("1 ?{2 ?lt} apply", [[1]]),
    ("3 !{2 ?lt} apply", [[3]]),
    ("3 ?{2 ?lt} apply", []),
]


def plain(stacks):
    out = []
    for s in stacks:
        row = []
        for v in s:
            row.append(conv(v))
        out.append(row)
    return out


def conv(v):
    if v["t"] == "c":
        return int(v["v"])
    if v["t"] == "s":
        return bytes.fromhex(v["x"]).decode("latin-1")
    if v["t"] == "q":
        return [conv(e) for e in v["e"]]
    return v["t"]


def work_doc(_):
    ev = Evidence()
    drv = Driver()
    try:
        for q, exp in DOC_CASES:
            if exp == "SKIP":
                continue
            try:
                r = drv.run(q)
            except DriverCrash as e:
                ev.violations.append({"property": PID, "query": q, "reason": "driver crashed: " + e.report[-3000:],
                                      "signature": "C03:doc-crash:" + q})
                continue
            ev.case(key=("doc", q), nontrivial=True)
            ev.label("doc-example")
            if isinstance(exp, str):
                ok = "cerror" in r and exp in r["cerror"]
            else:
                ok = "res" in r and r.get("end") and plain(r["res"]) == exp and not r["stderr"]
            if not ok:
                ev.violations.append({"property": PID, "query": q,
                                      "reason": "documented scoping example: expected %r, got %r"
                                                % (exp, r.get("cerror") or (plain(r["res"]) if "res" in r else r)),
                                      "signature": "C03:doc:" + q})
        ev.sample({"doc_example": DOC_CASES[3][0], "expect": DOC_CASES[3][1]})
    finally:
        drv.kill()
    return ev


def work_random(task):
    seed, start, count, depth = task
    ev = Evidence()
    drv = Driver()
    try:
        for i in range(start, start + count):
            if len(ev.violations) >= 30:
                break       # verdict settled; on a badly broken tree going on only costs time
            rnd = random.Random((seed << 32) ^ (i * 2654435761 & 0xffffffff) ^ 0xC03)
            cfg = G.Cfg(max_depth=depth, name_weight=4, scope_errors=0.04 if rnd.random() < 0.5 else 0.0,
                        soft=0.02, closures=rnd.random() < 0.5)
            g = G.Gen(rnd, cfg)
            pre = rand_prefix(rnd)
            node, _ = g.program([] if pre is None else [G.U])
            full = with_prefix(pre, node)
            try:
                o = run_case(drv, full, ())
            except DriverCrash as e:
                ev.violations.append({"property": PID, "query": render(full), "ast": repr(full),
                                      "reason": "driver crashed: " + e.report[-3000:],
                                      "signature": "C03:crash:" + render(full)[:100]})
                continue
            except DriverTimeout:
                ev.inconc("watchdog")
                continue
            if o.status == "inconclusive":
                ev.inconc(o.reason.split(":")[0][:50])
                ev.case()
                continue
            if o.status == "violation":
                head = o.reason.split(":")[0]

                def fails(n):
                    try:
                        oo = run_case(drv, n, ())
                    except (DriverCrash, DriverTimeout):
                        return False
                    return oo.status == "violation" and oo.reason.split(":")[0] == head
                small = shrink(full, fails, 1500)
                drv.restart()
                oks = 0
                for _ in range(3):
                    try:
                        oo = run_case(drv, small, ())
                        if oo.status == "violation":
                            oks += 1
                            o = oo
                    except (DriverCrash, DriverTimeout):
                        oks += 1
                if oks < 3:
                    ev.inconc("violation did not replay 3x")
                    continue
                ev.violations.append({"property": PID, "query": o.text, "ast": repr(small), "reason": o.reason,
                                      "engine_stderr": (o.reply or {}).get("stderr", b"").decode("latin-1")[:1000],
                                      "signature": "C03:" + (o.text or "")[:150]})
                continue
            ns = G.name_stats(full)
            nt = ns["binders"] >= 2 and (ns["shadow"] > 0 or ns["max_upvalues"] >= 2 or ns["cross_reads"] > 0)
            ev.case(key=o.text, nontrivial=nt)
            if o.reason == "compile-error":
                ev.label("compile-error-agreed")
                if g.expect_compile_error:
                    ev.label("injected-%s-detected" % g.expect_compile_error[0])
            else:
                ev.label("ran")
            for k in ("shadow", "cross_reads"):
                if ns[k]:
                    ev.label("has:" + k)
            ev.label("upvalues:%d" % min(ns["max_upvalues"], 3))
            if ns["blocks"]:
                ev.label("has:block")
            for l, n in g.labels.items():
                if l in ("let", "scope", "block", "read", "read-closure"):
                    ev.label("gen:" + l, n)
            if nt and ns["max_upvalues"] >= 2 and rnd.random() < 0.05:
                ev.sample({"query": o.text, "results": len(o.stream.items) if o.stream else "compile error",
                           "name_stats": ns})
    finally:
        drv.kill()
    return ev


# --------------------------------------------------- blocks inside blocks, with rebinding at every level

def _l(v):
    return ("lit", v, "dec")


def _cat(*xs):
    out = []
    for x in xs:
        if x is None:
            continue
        if isinstance(x, list):
            out += x
        else:
            out.append(x)
    return ("cat", out)


def _blk(body, ids=()):
    return ("block", "", tuple(ids), body)


APPLY = ("word", "apply")
ADD = ("word", "add")


def shadow_programs():
    """Outer bindings of A (and B), a block that may rebind A in one of several ways, an inner block
    that reads A (and B, and a binder of its own), applied directly, through a name, twice, or after
    having escaped from the outer block; A is read again afterwards."""
    outs = []
    outer_a = [("let1", [("let", ("A",), _l(1))]), ("let-multi", [("let", ("A",), ("alt", [_l(1), _l(2)]))]),
               ("binder", None)]
    rebinds = [("none", []), ("let", [("let", ("A",), _l(20))]), ("let-from-outer", [("let", ("A",), _cat(("read", "A"), _l(19), ADD))]),
               ("let-B-first", [("read", "B"), ("word", "drop"), ("let", ("A",), _l(20))]), ("binder", "BINDER")]
    inners = [("A", _blk(("read", "A"))),
              ("A+B", _blk(_cat(("read", "A"), ("read", "B"), ADD))),
              ("B+A", _blk(_cat(("read", "B"), ("read", "A"), ADD))),
              ("X+A", "XBINDER"),
              ("nested", _blk(_cat(_blk(("read", "A")), APPLY))),
              ("nested-rebind", _blk(_cat(("let", ("A",), _l(300)), _blk(_cat(("read", "A"), ("read", "B"), ADD)), APPLY))),
              ("via-C", _blk(_cat(("let", ("C",), ("read", "A")), _blk(_cat(("read", "C"), ("read", "A"), ADD)), APPLY)))]
    uses = ["apply", "name", "twice", "escape", "inline-and-block"]
    for oa, oa_nodes in outer_a:
        for rb, rb_nodes in rebinds:
            for inn, inner in inners:
                for use in uses:
                    if inner == "XBINDER":
                        inner_blk = _blk(_cat(("read", "A"), ("read", "X"), ADD), ids=("X",))
                        feed = [_l(7)]
                    else:
                        inner_blk, feed = inner, []
                    if use == "apply":
                        tail = feed + [inner_blk, APPLY]
                    elif use == "name":
                        tail = [("let", ("F",), inner_blk)] + feed + [("read", "F")]
                    elif use == "twice":
                        tail = [("let", ("F",), inner_blk)] + feed + [("read", "F")] + feed + [("read", "F"), ADD]
                    elif use == "escape":
                        tail = [inner_blk]
                    else:   # the inlined read and the block read must agree
                        tail = feed + [inner_blk, APPLY, ("read", "A"), ADD]
                    if rb_nodes == "BINDER":
                        outer_blk = _blk(_cat(tail), ids=("A",))
                        call = [_l(20), outer_blk, APPLY]
                    else:
                        outer_blk = _blk(_cat(rb_nodes, tail))
                        call = [outer_blk, APPLY]
                    if use == "escape":
                        call = call + feed + [APPLY]
                    after = [("read", "A"), ADD]
                    body = _cat(("let", ("B",), _l(5)), call, after)
                    if oa_nodes is None:
                        prog = _cat(_l(1), ("scope", ("A",), body))
                    else:
                        prog = _cat(oa_nodes, body)
                    outs.append(("%s/%s/%s/%s" % (oa, rb, inn, use), prog))
    return outs


def upvalue_programs():
    """Which captured variable does a block read?  A = 1, B = 20, C = 300 are bound outside (by `let` or as the
    parameters of an enclosing block); an outer block reads some of them, holds an inner block that reads some
    (in any order, possibly through a third block), and reads again afterwards.  Everything read is collected in
    a sequence, so that a read that lands in the wrong slot of a closure's environment shows as a wrong number."""
    names = ["A", "B", "C"]
    rd = lambda n: ("read", n)
    inners = []
    for n1 in names:
        inners.append((n1, [rd(n1)]))
        for n2 in names:
            inners.append((n1 + n2, [rd(n1), rd(n2)]))
            inners.append(("%s{%s}" % (n1, n2), [rd(n1), _blk(rd(n2)), APPLY]))
            inners.append(("{%s}%s" % (n2, n1), [_blk(rd(n2)), APPLY, rd(n1)]))
    prefixes = [(), ("A",), ("B",), ("C",), ("A", "B"), ("B", "A"), ("C", "A")]
    suffixes = [(), ("A",), ("C",)]
    outs = []
    for bind in ("let", "params"):
        for pre in prefixes:
            for iname, inner in inners:
                for suf in suffixes:
                    if bind == "params" and (len(pre) + len(suf)) % 2 == 0 and len(iname) > 2:
                        continue        # (half of the parameter-bound variants: keeps the tier under 1000 programs)
                    body = _cat([rd(n) for n in pre], _blk(_cat(inner)), APPLY, [rd(n) for n in suf])
                    run = ("cap", (), _cat(_blk(body), APPLY))
                    if bind == "let":
                        prog = _cat(("let", ("A",), _l(1)), ("let", ("B",), _l(20)), ("let", ("C",), _l(300)), run)
                    else:
                        prog = _cat(_l(1), _l(20), _l(300), _blk(run, ids=("A", "B", "C")), APPLY)
                    outs.append(("%s/%s/%s/%s" % (bind, "".join(pre) or "-", iname, "".join(suf) or "-"), prog))
    return outs


def scope_programs():
    """Where does a binding made inside one construct end?  A binder in every kind of sub-construct,
    next to a read or a rebinding of the same name in every sibling position, with and without an outer
    binding of that name."""
    A = ("read", "A")
    b = _cat(("let", ("A",), _l(1)), A)                       # binds A, pushes it
    b0 = ("let", ("A",), _l(1))                               # binds A only
    inners = [("plain", b), ("paren", ("scope", (), b)), ("opt", ("opt", b)), ("opt-bare", ("opt", b0)),
              ("sub", _cat(("sub", True, (), b), _l(5))), ("capture", ("cap", (), b)),
              ("if-then", ("if", _l(1), b, _l(2))), ("neg", _cat(("sub", False, (), b0), _l(5)))]
    # (a binder directly inside %( %) is left out: the manual calls the splice a plain context and does not
    # say whether the name is visible after the string)
    reads = [("read", A), ("rebind", _cat(("let", ("A",), _l(2)), A)), ("opt-rebind", ("opt", _cat(("let", ("A",), _l(2)), A)))]
    sibs = [("after", lambda x, r: _cat(x, r)), ("alt-xr", lambda x, r: ("alt", [x, r])), ("alt-rx", lambda x, r: ("alt", [r, x])),
            ("or-xr", lambda x, r: ("or", [x, r])), ("or-rx", lambda x, r: ("or", [r, x])),
            ("alt3", lambda x, r: ("alt", [x, _l(9), r])), ("cap-alt", lambda x, r: ("cap", (), ("alt", [x, r]))),
            ("alt-then-after", lambda x, r: _cat(("alt", [x, _l(9)]), r))]
    outs = []
    for on, outer in (("none", None), ("outer", ("let", ("A",), _l(7)))):
        for iname, x in inners:
            for rname, r in reads:
                for sname, f in sibs:
                    outs.append(("%s/%s/%s/%s" % (on, iname, rname, sname), _cat(outer, _l(0), f(x, r))))
    return outs


def work_scopes(task):
    lo, hi = task
    ev = Evidence()
    drv = Driver()
    try:
        for name, node in scope_programs()[lo:hi]:
            try:
                o = run_case(drv, node, ())
            except DriverCrash as e:
                ev.violations.append({"property": PID, "query": render(node), "ast": repr(node), "reason": "driver crashed: " + e.report[-2500:],
                                      "signature": "C03:scope-crash:" + name})
                continue
            except DriverTimeout:
                ev.inconc("watchdog")
                continue
            if o.status == "inconclusive":
                ev.inconc(o.reason.split(":")[0][:50])
                continue
            ev.case(key=("scope", name), nontrivial=True)
            ev.label("scope-template")
            if o.reason == "compile-error":
                ev.label("scope-template:compile-error-agreed")
            if o.status == "violation":
                ev.violations.append({"property": PID, "query": o.text, "ast": repr(node), "reason": "%s [%s]" % (o.reason, name),
                                      "engine_stderr": (o.reply or {}).get("stderr", b"").decode("latin-1")[:600],
                                      "signature": "C03:scope:" + name})
    finally:
        drv.kill()
    return ev


def work_upvalues(task):
    return work_shadow(task, upvalue_programs(), "upvalue")


def work_shadow(task, progs=None, what="shadow"):
    lo, hi = task
    ev = Evidence()
    drv = Driver()
    progs = progs if progs is not None else shadow_programs()
    try:
        for name, node in progs[lo:hi]:
            if len(ev.violations) >= 10:
                break       # verdict settled
            try:
                o = run_case(drv, node, ())
            except DriverCrash as e:
                ev.violations.append({"property": PID, "query": render(node), "ast": repr(node), "reason": "driver crashed: " + e.report[-2500:],
                                      "signature": "C03:%s-crash:%s" % (what, name)})
                continue
            except DriverTimeout:
                ev.inconc("watchdog")
                continue
            if o.status == "inconclusive":
                ev.inconc(o.reason.split(":")[0][:50])
                continue
            ev.case(key=(what, name), nontrivial=True)
            ev.label(what + "-template")
            if what == "shadow":
                ev.label("shadow-use:" + name.split("/")[-1])
            if o.status == "violation":
                ev.violations.append({"property": PID, "query": o.text, "ast": repr(node), "reason": "%s [%s]" % (o.reason, name),
                                      "engine_stderr": (o.reply or {}).get("stderr", b"").decode("latin-1")[:600],
                                      "signature": "C03:%s:%s" % (what, name)})
            elif name.endswith("twice") and len(ev.samples) < 12 and hash(name) % 17 == 0:
                ev.sample({"template": name, "query": o.text, "results": len(o.stream.items) if o.stream else "compile error"})
    finally:
        drv.kill()
    return ev


def main(tier, seed):
    t0 = time.time()
    n, depth = (24000, 3) if tier == "quick" else (200000, 3)
    ev = Evidence()
    ev.merge(work_doc(None))
    nsc = len(scope_programs())
    ev.merge(run_pool(work_scopes, [(lo, lo + 40) for lo in range(0, nsc, 40)]))
    ev.extra["scope_templates"] = nsc
    nsh = len(shadow_programs())
    ev.merge(run_pool(work_shadow, [(lo, lo + 40) for lo in range(0, nsh, 40)]))
    ev.extra["shadow_templates"] = nsh
    nup = len(upvalue_programs())
    ev.merge(run_pool(work_upvalues, [(lo, lo + 40) for lo in range(0, nup, 40)]))
    ev.extra["upvalue_templates"] = nup
    per = max(100, n // 48)
    ev.merge(run_pool(work_random, [(seed, s, min(per, n - s), depth) for s in range(0, n, per)]))
    ev.extra["random_programs"] = n
    return finish(PID, tier, seed, ev, RULE, t0,
                  assumptions=["scoping rules as listed in doc/syntax.rst (sub-expression contexts, ALT/OR branches, (|X|...), then/else); "
                               "`let` inside a format splice and bindings escaping a closure body are not generated (unspecified)",
                               "block semantics as in the property statement: captured values at creation, applied = inlined body"],
                  health={"injected unbound reads detected": ev.labels.get("injected-unbound-detected", 0) > 5,
                          "injected rebinds detected": ev.labels.get("injected-rebound-detected", 0) > 5,
                          "blocks with >= 2 up-values": ev.labels.get("upvalues:2", 0) + ev.labels.get("upvalues:3", 0) > 20,
                          "shadowing": ev.labels.get("has:shadow", 0) > 50,
                          "block-in-block templates": ev.labels.get("shadow-template", 0) > 300,
                          "up-value slot templates (block in block in block, reads before / inside / after)": ev.labels.get("upvalue-template", 0) > 500,
                          "scope templates": ev.labels.get("scope-template", 0) > 300 and ev.labels.get("scope-template:compile-error-agreed", 0) > 20})


def replay(path):
    import json
    rec = json.load(open(path))
    drv = Driver()
    if "ast" in rec:
        node = eval(rec["ast"], {"__builtins__": {}})
        o = run_case(drv, node, ())
        print(o.status, o.reason)
        drv.kill()
        return 1 if o.status == "violation" else 0
    print(drv.run(rec["query"]))
    drv.kill()
    return 0
