"""C10 -- `*`/`+` yield each reachable stack exactly once per input and always terminate.

(a) model: bodies over small finite graphs (arithmetic mod m, successor tables with cycles,
    diamonds, self-loops and multi-yield successors, permutations of a 2-3 deep stack, elem over
    nested sequences, bodies containing ALT/OR/let/nested closures), 1-4 start stacks in a row,
    `E*`, `E+`, `E**`, `E+*`; oracle = reachability computed by zwv.model (BFS up to ==); the
    engine must yield exactly that multiset within a step budget derived from the model.
(b) laws, engine vs engine: E+ = distinct(E E*), E? = (E,), E** = E*.
(c) DWARF graphs child*, parent*, (@AT_type)* on sample binaries: reachability computed in
    Python from dumped parent / type edges.
"""
import glob, os, random, time
from collections import Counter

from .. import gen as G, model as M, compare as CMP
from ..core_case import run_case
from ..drv import Driver, DriverCrash, DriverTimeout
from ..harness import Evidence, run_pool, finish
from ..render import render
from ..shrink import shrink
from .c01 import canon_stack

PID = "C10"
RULE = ("(a) seeded random closure programs: start prefix yielding 1-4 stacks of depth 1-3 followed by BODY* / BODY+ "
        "(also doubled operators), BODY from the finite-graph generator (mod-arithmetic with ALT steps, random successor "
        "tables of 2-7 nodes rendered as if-chains with `,` successors and dead ends, swap/rot, elem, nested closures, "
        "let/OR inside); step budget 10^4 + 200*|results|*|body nodes|.  (b) the three laws on the same bodies.  (c) every DIE "
        "of the sample binaries for child*/parent*/@AT_type*.  Non-trivial: the reachable graph has a cycle or a diamond "
        "(some stack reached twice) and >= 2 start stacks were fed in a row (a, b); DIE with >= 2 descendants or type chain "
        ">= 2 (c).  Distinct by program text / (file, DIE offset).")

SAMPLES = ["a1.out", "nontrivial-types.o", "typedef.o", "enum.o", "bitcount.o", "dwz-partial2-1", "char_16_32.o",
           "testfile_const_type", "inconsistent-types"]


def start_prefix(rnd):
    """Returns (node, abstract stack)."""
    depth = rnd.choice([1, 1, 1, 2, 3])
    nstart = rnd.choice([1, 2, 2, 3, 4])
    kind = rnd.choice(["c", "c", "c", "s", "q"])
    parts = []
    st = []
    for _ in range(depth - 1):
        parts.append(("lit", rnd.randint(0, 3), "dec"))
        st.append(G.C)
    if kind == "c":
        starts = [("lit", rnd.randint(0, 6), "dec") for _ in range(nstart)]
        st.append(G.C)
    elif kind == "s":
        starts = [("str", [rnd.choice([b"", b"a", b"ab", b"aba", b"abc"])], False) for _ in range(nstart)]
        st.append(G.S)
    else:
        def seq(d):
            n = rnd.randint(0, 3)
            items = [seq(d - 1) if d > 0 and rnd.random() < 0.4 else ("lit", rnd.randint(0, 3), "dec") for _ in range(n)]
            if not items:
                return ("elist",)
            return ("cap", (), ("alt", items) if len(items) > 1 else items[0])
        starts = [seq(2) for _ in range(nstart)]
        st.append(G.Q)
    parts.append(("alt", starts) if nstart > 1 else starts[0])
    return parts, st, nstart


def closure_program(rnd):
    g = G.Gen(rnd, G.Cfg(max_depth=2, soft=0.0))
    parts, st, nstart = start_prefix(rnd)
    body = g.finite_body(st, G.Scope(), 2)
    extra = rnd.randint(0, 9)
    if extra == 0 and st[-1] == G.C:
        body = ("cat", [body, ("let", ("L",), ("lit", 1, "dec"))])
    elif extra == 1 and st[-1] == G.C:
        body = ("or", [("cat", [("sub", True, (), ("infix", ("nop",), "<", ("lit", 2, "dec"))), ("lit", 1, "dec"), ("word", "add")]), body])
    elif extra == 2:
        body = ("star", body)      # nested closure
    elif extra == 3:
        body = ("opt", body)
    op = rnd.choice(["star", "star", "plus"])
    node = (op, body)
    dbl = rnd.random() < 0.15
    if dbl:
        node = (rnd.choice(["star", "plus"]), node)
    return ("cat", parts + [node]), body, parts, nstart, g.labels


def has_revisit(body, parts, drv_results, model_stream):
    return True


# ------------------------------------------------- bodies that change the depth of a deep stack

def _l(v):
    return ("lit", v, "dec")


def _w(*ws):
    return [("word", w) for w in ws]


def _sub(*nodes):
    return ("sub", True, (), ("cat", list(nodes)))


NRULES = 1500


def deep_programs():
    """Stacks 4-9 deep whose depth and slot types vary inside one closure run (the seen-set has to order
    stacks of different depth and of different types below the four slots of the cached profile)."""
    outs = []
    lt = lambda k: _sub(*(_w("dup") + [_l(k)] + _w("?lt")))
    gt0 = _sub(*(_w("dup") + [_l(0)] + _w("?gt")))
    is_c = _sub(*(_w("type", "T_CONST", "?eq")))
    is_s = _sub(*(_w("type", "T_STR", "?eq")))
    eq = lambda k: _sub(*(_w("dup") + [_l(k)] + _w("?eq")))
    push = lambda k: ("cat", [lt(k)] + _w("dup") + [_l(1)] + _w("add"))
    drop = ("cat", [gt0] + _w("drop"))
    bodies = []
    for k in (2, 3, 4):
        bodies.append(("updown%d" % k, ("alt", [push(k), drop])))
        bodies.append(("updown-str%d" % k, ("alt", [("cat", [is_c, ("alt", [push(k), drop, ("cat", [eq(2), ("str", [b"s"], False)])])]),
                                                   ("cat", [is_s] + _w("drop"))])))
        bodies.append(("up-swap%d" % k, ("alt", [push(k), ("cat", [gt0] + _w("swap")), drop])))
    bases = [[_l(0)] * 4, [_l(0)] * 5, [_l(0), ("str", [b"a"], False), _l(0), _l(0), _l(0)], [_l(7), _l(0), _l(0), _l(0), _l(0), _l(0)],
             [("elist",), _l(1), ("str", [b"x"], False), _l(0), _l(0)]]
    for bn, body in bodies:
        for bi, base in enumerate(bases):
            for op in ("star", "plus"):
                outs.append(("%s/base%d/%s" % (bn, bi, op), ("cat", base + [(op, body)]), body))
                # two start stacks in a row
                outs.append(("%s/base%d/%s/2" % (bn, bi, op), ("cat", base[:-1] + [("alt", [_l(0), _l(1)]), (op, body)]), body))
    return outs


def random_rule_tables(seed, n):
    """Random successor tables over the top of a deep stack: a rule `(== k) ACTION` replaces TOS k by a larger
    value v, optionally pushing a string or a sequence below it (depth + 1), keeping k below it (depth + 1) or
    dropping one more slot (depth - 1).  Values only grow, so the reachable set is finite; depth and slot types
    vary, and many stacks are reachable along several routes."""
    outs = []
    for t in range(n):
        r = random.Random((seed << 20) ^ t ^ 0xD10)
        nv = r.choice([7, 9, 10])
        acts = r.choice([["replace", "push", "str", "drop2"], ["replace", "push", "str", "drop2", "seq"], ["push", "str", "drop2", "seq"]])
        rules = []
        for k in range(0, nv):
            for _ in range(r.randint(1, r.choice([2, 3, 4]))):
                v = r.randint(k + 1, nv)
                act = r.choice(acts)
                guard = ("infix", ("nop",), "==", _l(k))
                if act == "replace":
                    rules.append(("cat", [guard] + _w("drop") + [_l(v)]))
                elif act == "push":
                    rules.append(("cat", [guard, _l(v)]))
                elif act == "str":
                    rules.append(("cat", [guard] + _w("drop") + [("str", [b"s"], False), _l(v)]))
                elif act == "seq":
                    rules.append(("cat", [guard] + _w("drop") + [("elist",), _l(v)]))
                else:
                    rules.append(("cat", [guard] + _w("drop", "drop") + [_l(v)]))
        body = ("alt", rules)
        depth = r.choice([4, 5, 5, 6, 9])
        base = [r.choice([_l(0), _l(0), _l(0), ("str", [b"b"], False), ("elist",)]) for _ in range(max(0, depth - 4))] + [_l(0)] * min(4, depth)
        op = r.choice(["star", "plus"])
        outs.append(("rules%d/%s" % (t, op), ("cat", base + [(op, body)]), body))
    return outs


def work_deep(task):
    lo, hi, seed = task
    ev = Evidence()
    drv = Driver()
    try:
        for name, node, body in (deep_programs() + random_rule_tables(seed, NRULES))[lo:hi]:
            nb = G.count_nodes(body)
            try:
                o = run_case(drv, node, (), limit=6000, steps_fn=lambda s: 10000 + 200 * max(1, len(s.items)) * nb)
            except DriverCrash as e:
                ev.violations.append({"property": PID, "query": render(node), "ast": repr(node), "reason": "driver crashed: " + e.report[-2500:],
                                      "signature": "C10:deep-crash:" + name})
                continue
            except DriverTimeout:
                ev.violations.append({"property": PID, "query": render(node), "ast": repr(node), "reason": "watchdog: no reply although the model finishes",
                                      "signature": "C10:deep-hang:" + name})
                continue
            if o.status == "inconclusive":
                ev.inconc(o.reason.split(":")[0][:50])
                continue
            ev.case(key=("deep", name), nontrivial=True)
            ev.label("deep-stack-closure")
            if o.status == "violation":
                ev.violations.append({"property": PID, "query": o.text, "ast": repr(node), "reason": "%s [%s]" % (o.reason, name), "signature": "C10:deep:" + name})
            elif len(ev.samples) < 4:
                ev.sample({"query": o.text, "results": len(o.stream.items)})
    finally:
        drv.kill()
    return ev


def work_model(task):
    seed, start, count = task
    ev = Evidence()
    drv = Driver()
    nshrunk = 0
    try:
        for i in range(start, start + count):
            if len(ev.violations) >= 30:
                break       # verdict settled
            rnd = random.Random((seed << 32) ^ (i * 2654435761 & 0xffffffff) ^ 0xC10)
            node, body, parts, nstart, glabels = closure_program(rnd)
            nb = G.count_nodes(body)
            try:
                o = run_case(drv, node, (), limit=6000,
                             steps_fn=lambda s: 10000 + 200 * max(1, len(s.items)) * nb)
            except DriverCrash as e:
                ev.violations.append({"property": PID, "query": render(node), "ast": repr(node),
                                      "reason": "driver crashed: " + e.report[-3000:], "signature": "C10:crash:" + render(node)[:100]})
                continue
            except DriverTimeout:
                ev.violations.append({"property": PID, "query": render(node), "ast": repr(node),
                                      "reason": "watchdog: no reply although the model finishes", "signature": "C10:hang:" + render(node)[:100]})
                continue
            if o.status == "inconclusive":
                ev.inconc(o.reason.split(":")[0][:50])
                ev.case()
                continue
            if o.status == "violation":
                head = o.reason.split(":")[0]

                def fails(n):
                    try:
                        oo = run_case(drv, n, (), limit=2000, steps=60000)
                    except (DriverCrash, DriverTimeout):
                        return False
                    return oo.status == "violation" and oo.reason.split(":")[0] == head
                # shrink the first few failures of this worker only: on a badly broken tree everything fails
                # and each shrinking step may run into the step budget
                nshrunk += 1
                small = shrink(node, fails, 300) if nshrunk <= 2 else node
                ev.violations.append({"property": PID, "query": render(small), "ast": repr(small), "reason": o.reason,
                                      "signature": "C10:" + render(small)[:150]})
                continue
            # Non-trivial: some stack was reachable along two routes (cycle/diamond): the number of
            # body results pulled exceeds the number of distinct stacks yielded.
            steps = o.reply.get("steps", 0)
            nres = len(o.stream.items)
            revisit = o.ctx.labels.get("closure", 0) > 0 and steps > 0 and revisit_count(body, o) > 0
            nt = revisit and nstart >= 2
            ev.case(key=o.text, nontrivial=nt)
            for l, n in glabels.items():
                ev.label("gen:" + l, n)
            ev.label("starts:%d" % nstart)
            if revisit:
                ev.label("graph-with-cycle-or-diamond")
            if nt and rnd.random() < 0.02:
                ev.sample({"query": o.text, "results": nres, "engine_steps": steps})
            # (b) laws, engine vs engine
            if i % 3 == 0:
                laws(drv, ev, parts, body)
    finally:
        drv.kill()
    return ev


def revisit_count(body, o):
    """Approximation from the model: evaluate the body once more on every yielded stack and
    count successors that are already in the result set."""
    try:
        keys = set(M.stack_key(s) for s in o.stream.items)
        ctx = M.Ctx(50000)
        hits = 0
        total = 0
        for s in o.stream.items[:200]:
            for t, _ in M.ev(body, [(s, {})], ctx).items:
                total += 1
                if M.stack_key(t) in keys:
                    hits += 1
        # every successor is in the set (closed); a revisit exists iff edges > nodes - starts
        return max(0, total - max(0, len(keys) - 1)) if hits else 0
    except (M.Inconclusive, M.HardError, M.CompileError):
        return 0


def multiset(r):
    return Counter(canon_stack(s) for s in r["res"])


def laws(drv, ev, parts, body):
    pre = render(("cat", parts))
    b = "(" + render(body) + ")"
    def run(q):
        return drv.run(q, limit=6000, steps=600000)
    try:
        rp = run("%s %s+" % (pre, b))
        rs = run("%s %s %s*" % (pre, b, b))
        ok = all("res" in r and r.get("end") and "error" not in r for r in (rp, rs))
        if ok:
            ev.case(key=("law+", pre, b), nontrivial=len(rp["res"]) > 1)
            ev.label("law:E+=distinct(E E*)")
            # per input: E+ yields each distinct stack of E E* exactly once.  With several inputs
            # compare as: set(E+) == set(E E*) and E+ has no more copies than inputs allow.
            a, c = multiset(rp), multiset(rs)
            if set(a) != set(c) or any(a[k] > c[k] for k in a):
                ev.violations.append({"property": PID, "query": "%s %s+" % (pre, b),
                                      "reason": "E+ differs from the distinct stacks of E E*: only E+ %r, only E E* %r"
                                                % (list(set(a) - set(c))[:3], list(set(c) - set(a))[:3]),
                                      "signature": "C10:law+:" + pre + b})
        ro = run("%s %s?" % (pre, b))
        ra = run("%s (%s,)" % (pre, render(body)))
        if all("res" in r and r.get("end") and "error" not in r for r in (ro, ra)):
            ev.case(key=("law?", pre, b))
            ev.label("law:E?=(E,)")
            if multiset(ro) != multiset(ra):
                ev.violations.append({"property": PID, "query": "%s %s?" % (pre, b), "reason": "E? differs from (E,)",
                                      "signature": "C10:law?:" + pre + b})
        r1 = run("%s %s*" % (pre, b))
        r2 = run("%s %s**" % (pre, b))
        r3 = run("%s %s+*" % (pre, b))
        if all("res" in r and r.get("end") and "error" not in r for r in (r1, r2, r3)):
            ev.case(key=("law**", pre, b))
            ev.label("law:E**=E*")
            if multiset(r1) != multiset(r2) or multiset(r1) != multiset(r3):
                ev.violations.append({"property": PID, "query": "%s %s**" % (pre, b), "reason": "E** or E+* differs from E*",
                                      "signature": "C10:law**:" + pre + b})
        # the empty expression is the identity, also inside the body of a closure and next to another closure:
        # (E* ())+ = (E*)+ = E*,  (E+ ())* = E*,  (E ())+ = E+  (a rewrite of the tree must not change which it is)
        good = lambda r: "res" in r and r.get("end") and "error" not in r
        for ref, variants in (("%s*", ["(%s* ())+", "(() %s*)+", "(%s* () ())+", "(%s+ ())*", "(() %s+)*", "(%s ())*", "(%s* ())*", "((%s*) ())+"]),
                              ("%s+", ["(%s ())+", "(() %s)+", "(%s+ ())+", "(() %s+ ())+"])):
            rr = run("%s %s" % (pre, ref % b))
            if not good(rr):
                continue
            for v in variants:
                rv = run("%s %s" % (pre, v % b))
                if not good(rv):
                    continue
                ev.case(key=("law()", pre, b, v), nontrivial=len(rr["res"]) > 1)
                ev.label("law:closure-with-empty-expression")
                if multiset(rv) != multiset(rr):
                    ev.violations.append({"property": PID, "query": "%s %s" % (pre, v % b), "signature": "C10:law():" + v + pre + b,
                                          "reason": "%s differs from %s: only the former %r, only the latter %r"
                                          % (v % "E", ref % "E", list((multiset(rv) - multiset(rr)).elements())[:3], list((multiset(rr) - multiset(rv)).elements())[:3])})
    except (DriverCrash, DriverTimeout) as e:
        ev.violations.append({"property": PID, "query": pre + " " + b, "reason": "law check crashed or hung: " + str(e)[-2000:],
                              "signature": "C10:lawcrash:" + pre + b})


def work_dwarf(task):
    fn, raw = task
    ev = Evidence()
    path = os.path.join("/repo/tests", fn)
    if not os.path.exists(path):
        return ev
    drv = Driver(timeout=120)
    try:
        h = drv.open(path, raw)
        tok = "V%d" % h
        base = drv.run("entry (|D| [D offset] [D parent offset] [D child* offset] [D parent* offset] "
                       "[D (@AT_type)* offset] [D @AT_type offset] [D child+ offset])", tok, limit=4000, steps=50000000)
        if "res" not in base or not base.get("end") or "error" in base:
            ev.inconc("dwarf query failed or capped: " + fn)
            return ev
        rows = []
        for s in base["res"]:
            vals = [[int(e["v"]) for e in x["e"]] for x in s]
            rows.append(vals)
        # Cooked mode inlines imported units: offsets may repeat along different routes; judge
        # by offset only in files where each offset occurs once.
        offs = [r[0][0] for r in rows]
        if len(set(offs)) != len(offs):
            ev.inconc("offsets not unique (imports): " + fn)
            return ev
        parent = {r[0][0]: (r[1][0] if r[1] else None) for r in rows}
        typ = {r[0][0]: r[5] for r in rows}
        kids = {}
        for o, p in parent.items():
            kids.setdefault(p, []).append(o)

        def desc(o):
            out = [o]
            for k in kids.get(o, []):
                out += desc(k)
            return out
        for r in rows:
            o = r[0][0]
            exp_child = sorted(desc(o))
            chain = [o]
            while parent.get(chain[-1]) is not None:
                chain.append(parent[chain[-1]])
            tchain = {o}
            frontier = [o]
            while frontier:
                x = frontier.pop()
                for t in typ.get(x, []):
                    if t not in tchain:
                        tchain.add(t)
                        frontier.append(t)
            nt = len(exp_child) >= 3 or len(tchain) >= 3
            ev.case(key=(fn, raw, o), nontrivial=nt)
            bad = None
            if sorted(r[2]) != exp_child:
                bad = "child*: got %d DIEs, expected %d (duplicates: %s)" % (len(r[2]), len(exp_child), len(r[2]) != len(set(r[2])))
            elif sorted(r[6]) != sorted(exp_child[1:] if exp_child[0] == o else [x for x in exp_child if x != o]):
                bad = "child+: got %r" % r[6][:10]
            elif sorted(r[3]) != sorted(chain):
                bad = "parent*: got %r expected %r" % (r[3], chain)
            elif sorted(r[4]) != sorted(tchain):
                bad = "(@AT_type)*: got %r expected %r" % (r[4], sorted(tchain))
            if bad:
                ev.violations.append({"property": PID, "file": fn, "raw": raw, "die": o, "reason": "%s %s DIE %#x: %s" % (fn, "raw" if raw else "cooked", o, bad),
                                      "query": "entry (offset == %d) child*" % o, "signature": "C10:dw:%s:%s:%d" % (fn, raw, o)})
        ev.label("dwarf-file:%s:%s" % (fn, "raw" if raw else "cooked"))
        ev.sample({"file": fn, "mode": "raw" if raw else "cooked", "dies": len(rows)}, cap=3)
    except DriverCrash as e:
        ev.violations.append({"property": PID, "file": fn, "reason": "driver crashed: " + e.report[-2500:], "signature": "C10:dwcrash:" + fn})
    except DriverTimeout:
        ev.inconc("watchdog: " + fn)
    finally:
        drv.kill()
    return ev


FILTERS = ["(== 2)", "?(2 ?lt)", "!(0 ?gt)", "(> 5)", "?(dup 1 ?eq)", "(== 1) (!= 3)", "?()", "!()", "()", "?(drop)", "(== 2) ()",
           "?(1 add 3 ?eq)", "?(|A| A 2 ?eq)", "?(type T_CONST ?eq)", "!(type T_CONST ?eq)"]
FILTER_INPUTS = ["(1, 2, 3)", "2", "7", "(2, 2)", "(1, 2) (3, 4)", "(\"a\", 2, [])"]


def work_filters(task):
    """A body that only asserts never makes a new stack: F* yields every input exactly once whether F holds on it or
    not (zero applications), F+ yields the inputs on which F holds; also inside another closure and next to one."""
    ev = Evidence()
    drv = Driver()
    try:
        for F in FILTERS:
            for I in FILTER_INPUTS:
                def run(q):
                    return drv.run(q, limit=200, steps=200000)
                ri, rf = run(I), run("%s %s" % (I, F))
                if not all("res" in r and r.get("end") and "error" not in r for r in (ri, rf)):
                    continue
                for q, want, what in (("%s (%s)*" % (I, F), ri, "F* = the inputs"), ("%s (%s)+" % (I, F), rf, "F+ = the inputs on which F holds"),
                                      ("%s ((%s)*)*" % (I, F), ri, "(F*)* = the inputs"), ("%s ((%s)* ())+" % (I, F), ri, "(F* ())+ = the inputs"),
                                      ("%s (%s)* (%s)*" % (I, F, F), ri, "F* F* = the inputs"), ("%s ((%s)+)*" % (I, F), ri, "(F+)* = the inputs")):
                    r = run(q)
                    ev.case(key=("filter", q), nontrivial=len(ri["res"]) != len(rf["res"]))
                    ev.label("filter-only-closure-body")
                    if not ("res" in r and r.get("end") and "error" not in r) or multiset(r) != multiset(want):
                        ev.violations.append({"property": PID, "query": q, "signature": "C10:filter:" + q,
                                              "reason": "%s: yields %d stack(s), expected %d; error %r" % (what, len(r.get("res", [])), len(want["res"]), r.get("error") or r.get("cerror"))})
    except (DriverCrash, DriverTimeout) as e:
        ev.violations.append({"property": PID, "query": "filter closures", "reason": "crashed or hung: " + str(e)[-2000:], "signature": "C10:filter-crash"})
    finally:
        drv.kill()
    return ev


def main(tier, seed):
    t0 = time.time()
    n = 20000 if tier == "quick" else 300000
    ev = Evidence()
    ev.merge(work_filters(None))
    per = max(50, n // 48)
    ev.merge(run_pool(work_model, [(seed, s, min(per, n - s)) for s in range(0, n, per)]))
    nd = len(deep_programs()) + len(random_rule_tables(seed, NRULES))
    ev.merge(run_pool(work_deep, [(lo, lo + 16, seed) for lo in range(0, nd, 16)]))
    ev.extra["deep_stack_programs"] = nd
    files = SAMPLES if tier == "quick" else sorted(set(SAMPLES + [os.path.basename(f) for f in glob.glob("/repo/tests/*.o")]))
    ev.merge(run_pool(work_dwarf, [(f, raw) for f in files for raw in (True, False)]))
    ev.extra["closure_programs"] = n
    return finish(PID, tier, seed, ev, RULE, t0,
                  assumptions=["reachability up to == computed by zwv.model; which representative of an ==-class is yielded is not judged",
                               "termination is judged against a step budget on graphs the model knows to be finite; larger graphs than generated are out of reach",
                               "DWARF graphs: files in which cooked DIE offsets repeat along import routes are skipped for the offset-based oracle"],
                  health={"cyclic graphs seen": ev.labels.get("graph-with-cycle-or-diamond", 0) > 100,
                          ">=2 start stacks": sum(ev.labels.get("starts:%d" % k, 0) for k in (2, 3, 4)) > 100,
                          "laws checked": ev.labels.get("law:E+=distinct(E E*)", 0) > 50,
                          "closures over filter-only bodies": ev.labels.get("filter-only-closure-body", 0) > 300,
                          "deep-stack closures": ev.labels.get("deep-stack-closure", 0) > 100,
                          "dwarf graphs checked": sum(1 for k in ev.labels if k.startswith("dwarf-file:")) >= 4})


def replay(path):
    import json
    rec = json.load(open(path))
    drv = Driver()
    if "ast" in rec:
        node = eval(rec["ast"], {"__builtins__": {}})
        o = run_case(drv, node, (), limit=6000, steps=300000)
        print(o.status, o.reason)
        drv.kill()
        return 1 if o.status == "violation" else 0
    print(drv.run(rec["query"]))
    drv.kill()
    return 0
