"""C20 -- printed values are faithful: constants round-trip and renderings are unambiguous.

(a) every named constant word of both vocabularies (exhaustive, ~900): its numeric `value` is the
    one /usr/include/dwarf.h / elf.h define (headers parsed independently); its full rendering,
    read back as a word, denotes an equal constant; the ?X / !X assertion aliases hold exactly on
    it (and not on its numeric neighbours in the same domain); brief rendering is the full one
    minus the family prefix;
(b) integers: boundary and random values x {dec, hex, oct, bin} x sign through "%s", %d %x %o %b
    and the CLI's full form: the text read back as a literal gives an equal value of the same
    domain;
(c) strings (byte alphabet incl. quote, backslash, %, control, NUL, high bytes), alone and nested
    in sequences, printed by the CLI: the nested (brief) form is a quoted literal that reads back
    as the same bytes; the top-level (full) form is the bytes themselves.
"""
import os, random, subprocess, time

from ..drv import Driver, DriverCrash, DriverTimeout, BUILD, hexs
from ..harness import Evidence, run_pool, finish
from ..hdr import dwarf_constants, elf_constants
from ..render import render_int, esc_bytes

PID = "C20"
CLI = os.path.join(BUILD, "bin", "dwgrep")
RULE = ("(a) exhaustive over the vocabulary: every word that evaluates to a constant; (b) 64 boundary values + seeded random 64-bit "
        "values x 4 radix domains x sign x 6 renderers; (c) seeded random byte strings of length 0-12 over an alphabet biased to "
        "quote, backslash, %, NUL, control and high bytes, batched 40 per CLI run, alone and nested 1-2 levels.  Non-trivial: a "
        "constant whose number is shared by another name or domain; an integer with the top bit set or negative; a string with "
        ">= 1 byte outside [A-Za-z0-9 ].  Distinct by word / (value, domain, renderer) / string.")

I64_MIN, U64_MAX = -(1 << 63), (1 << 64) - 1
DOMKEY = {"DW_TAG_": "tag", "DW_AT_": "attr", "DW_FORM_": "form", "DW_LANG_": "lang", "DW_MACINFO_": "macinfo", "DW_MACRO_": "macro",
          "DW_INL_": "inline", "DW_ATE_": "encoding", "DW_ACCESS_": "access", "DW_VIS_": "visibility", "DW_VIRTUALITY_": "virtuality",
          "DW_ID_": "idcase", "DW_CC_": "cc", "DW_ORD_": "ordering", "DW_DSC_": "discr", "DW_DS_": "ds", "DW_OP_": "op",
          "DW_ADDR_": "addrclass", "DW_END_": "endianity", "DW_DEFAULTED_": "defaulted", "STV_": "stv"}


def work_consts(task):
    lo, hi = task
    ev = Evidence()
    drv = Driver(timeout=120)
    try:
        words = sorted(set(drv.vocab("core") + drv.vocab("dw")))
        wset = set(words)
        hdr = dict(dwarf_constants())
        hdr.update(elf_constants())
        # header numbers shared by several names (aliases)
        by_val = {}
        for n, v in hdr.items():
            fam = n.split("_")[0] + "_" + n.split("_")[1] if n.startswith("DW_") else n.split("_")[0]
            by_val.setdefault((fam, v), []).append(n)
        cands = [w for w in words if w[0] not in "?!@" and (w.startswith(("DW_", "STT_", "STB_", "STV_", "T_")) or w in ("true", "false"))]
        for w in cands[lo:hi]:
            r = drv.run("%s (|C| C [C value] [C \"%%s\"])" % w)
            if "res" not in r or len(r["res"]) != 1:
                ev.violations.append({"property": PID, "query": w, "reason": "constant word %s does not evaluate: %r" % (w, {k: v for k, v in r.items() if k != "stderr"}),
                                      "signature": "C20:eval:" + w})
                continue
            c, val, txt = r["res"][0]
            if c["t"] != "c":
                continue
            ev.label("constant-word")
            num = int(val["e"][0]["v"])
            full = bytes.fromhex(c["f"]).decode("latin-1")
            brief = bytes.fromhex(c["b"]).decode("latin-1")
            shown = bytes.fromhex(txt["e"][0]["x"]).decode("latin-1")
            bad = None
            shared = False
            if w in hdr:
                fam = w.split("_")[0] + "_" + w.split("_")[1] if w.startswith("DW_") else w.split("_")[0]
                shared = len(by_val.get((fam, hdr[w]), [])) > 1
                if num != hdr[w]:
                    bad = "%s value is %d, the header defines %d" % (w, num, hdr[w])
            elif w.startswith(("DW_", "ST")):
                ev.inconc("word not in the system headers")
            if not bad and shown != full:
                bad = "\"%%s\" renders %r, zw_value_const_format %r" % (shown, full)
            # rendering read back as a word denotes an equal constant
            if not bad:
                if full not in wset:
                    bad = "rendering %r of %s is not a word of the vocabulary" % (full, w)
                else:
                    rr = drv.run("%s %s (|A B| [A B ?eq] [A value B value ?eq] [A B !eq])" % (w, full))
                    row = rr["res"][0] if rr.get("res") else None
                    if not row or [len(x["e"]) for x in row] != [1, 1, 0]:
                        bad = "%s renders as %s which does not denote an equal constant" % (w, full)
                    if full != w and not shared and w in hdr:
                        bad = "%s renders as %s although the header gives that number one name" % (w, full)
            # brief form = full form minus family prefix
            if not bad and not (full.endswith(brief) and (brief == full or full[:len(full) - len(brief)].endswith("_"))):
                bad = "brief rendering %r is not the full rendering %r minus its family prefix" % (brief, full)
            # assertion aliases
            if not bad and w.startswith(("DW_TAG_", "DW_AT_", "DW_FORM_", "DW_OP_")):
                short = w[3:]
                for alias in ("?" + w, "?" + short):
                    if alias not in wset:
                        if alias == "?" + w:
                            bad = "no assertion word %s" % alias
                        continue
                    neg = "!" + alias[1:]
                    pre = [k for k in DOMKEY if w.startswith(k)][0]
                    dk = DOMKEY[pre]
                    stack_same = "I%s:%d" % (dk, num)
                    rr = drv.run("(|C| [C %s] [C %s])" % (alias, neg), stack_same)
                    row = rr["res"][0] if rr.get("res") else None
                    if not row or [len(x["e"]) for x in row] != [1, 0]:
                        bad = "%s does not hold on the constant %s (or %s does)" % (alias, w, neg)
                        break
                    for nb in (num - 1, num + 1):
                        if nb < 0:
                            continue
                        names_nb = by_val.get((pre.rstrip("_"), nb), [])
                        rr = drv.run("(|C| [C %s] [C %s])" % (alias, neg), "I%s:%d" % (dk, nb))
                        row = rr["res"][0] if rr.get("res") else None
                        if not row or [len(x["e"]) for x in row] != [0, 1]:
                            bad = "%s holds on the neighbouring value %d" % (alias, nb)
                            break
                    # and not on the same number of another domain
                    other = "Iform:%d" % num if dk != "form" else "Itag:%d" % num
                    rr = drv.run("(|C| [C %s])" % alias, other)
                    row = rr["res"][0] if rr.get("res") else None
                    if row and len(row[0]["e"]) != 0:
                        bad = "%s holds on the same number in another domain" % alias
                    if bad:
                        break
            ev.case(key=w, nontrivial=shared or not w.startswith("DW_"))
            if bad:
                ev.violations.append({"property": PID, "query": w, "reason": bad, "signature": "C20:const:" + w})
            elif shared and len(ev.samples) < 4:
                ev.sample({"word": w, "value": num, "renders": full, "brief": brief})
    except DriverCrash as e:
        ev.violations.append({"property": PID, "reason": "driver crashed: " + e.report[-3000:], "query": e.request[:200], "signature": "C20:crash"})
    finally:
        drv.kill()
    return ev


def parse_literal(txt):
    neg = txt.startswith("-")
    t = txt[1:] if neg else txt
    if t.lower().startswith("0x"):
        v, d = int(t[2:], 16), "hex"
    elif t.lower().startswith("0b"):
        v, d = int(t[2:], 2), "bin"
    elif t.lower().startswith("0o"):
        v, d = int(t[2:], 8), "oct"
    elif len(t) > 1 and t.startswith("0"):
        v, d = int(t[1:], 8), "oct"
    else:
        v, d = int(t, 10), "dec"
    return (-v if neg else v), d


def work_ints(task):
    seed, start, count = task
    ev = Evidence()
    drv = Driver()
    edges = [0, 1, 7, 8, 9, 10, 15, 16, 255, 256, (1 << 31) - 1, 1 << 31, (1 << 32) - 1, 1 << 32, (1 << 63) - 1, 1 << 63, (1 << 63) + 1,
             U64_MAX - 1, U64_MAX, -1, -2, -8, -255, -(1 << 31), -(1 << 63), -(1 << 63) + 1]
    try:
        for i in range(start, start + count):
            rnd = random.Random((seed << 32) ^ (i * 2654435761 & 0xffffffff) ^ 0xC20)
            v = edges[i % len(edges)] if i < 4 * len(edges) else rnd.choice([rnd.randint(I64_MIN, U64_MAX), rnd.randint(-1000, 1000), rnd.randint(0, 1 << 64) >> rnd.randint(0, 63)])
            v = max(I64_MIN, min(U64_MAX, v))
            dom = ["dec", "hex", "oct", "bin"][(i // len(edges)) % 4] if i < 4 * len(edges) else rnd.choice(["dec", "hex", "oct", "bin"])
            if v == 0 and dom != "dec":
                # known finding (listed in known_findings.json): zero prints as "0" in every radix domain
                ev.excluded_known["zero-in-radix-domain"] = ev.excluded_known.get("zero-in-radix-domain", 0) + 1
                continue
            lit = render_int(v, dom, rnd.randint(0, 2))
            r = drv.run('%s (|V| [V "%%s"] [V "%%d"] [V "%%x"] [V "%%o"] [V "%%b"] [V dec "%%s"] V)' % lit)
            if "res" not in r or len(r["res"]) != 1:
                ev.violations.append({"property": PID, "query": lit, "reason": "integer renderers failed: %r" % {k: x for k, x in r.items() if k != "res"},
                                      "signature": "C20:int:" + lit})
                continue
            row = r["res"][0]
            texts = [bytes.fromhex(x["e"][0]["x"]).decode("latin-1") for x in row[:6]]
            full = bytes.fromhex(row[6]["f"]).decode("latin-1")
            exp_dom = [dom, "dec", "hex", "oct", "bin", "dec", dom]
            ev.case(key=(v, dom), nontrivial=v < 0 or v >= 1 << 63)
            ev.label("int:" + dom)
            for txt, ed, what in zip(texts + [full], exp_dom, ["%s", "%d", "%x", "%o", "%b", "dec %s", "const_format"]):
                try:
                    pv, pd = parse_literal(txt)
                except ValueError:
                    pv, pd = None, None
                if v == 0 and ed != "dec" and txt == "0":
                    ev.excluded_known["zero-in-radix-domain"] = ev.excluded_known.get("zero-in-radix-domain", 0) + 1
                    continue
                if pv != v or pd != ed:
                    ev.violations.append({"property": PID, "query": lit, "reason": "%s of %d (%s) prints %r, which reads back as %r in domain %r (expected domain %s)"
                                                                                  % (what, v, dom, txt, pv, pd, ed), "signature": "C20:int:%s:%s" % (what, lit)})
                    break
                # and the engine itself reads it back the same way
            rb = drv.run(texts[0])
            if "res" not in rb or len(rb["res"]) != 1 or int(rb["res"][0][0]["v"]) != v or rb["res"][0][0]["d"] != dom:
                ev.violations.append({"property": PID, "query": lit, "reason": "rendering %r of %d (%s) read back by the engine gives %r"
                                                                              % (texts[0], v, dom, rb.get("res") or rb.get("cerror")), "signature": "C20:intrb:" + lit})
            if (v < 0 or v >= 1 << 63) and rnd.random() < 0.01:
                ev.sample({"literal": lit, "renderings": dict(zip(["%s", "%d", "%x", "%o", "%b"], texts[:5]))})
            # several integers of different domains written to one stream: a sequence (also nested) through "%s"
            # must read back as an equal sequence -- every element in its own radix
            if i % 3 == 0:
                def some():
                    d2 = rnd.choice(["dec", "hex", "oct", "bin"])
                    v2 = rnd.choice(edges + [rnd.randint(-300, 300), rnd.randint(0, 1 << 40)])
                    if v2 == 0:
                        d2 = "dec"
                    return render_int(v2, d2, rnd.randint(0, 2))
                items = [lit] + [some() for _ in range(rnd.randint(1, 4))]
                rnd.shuffle(items)
                if rnd.random() < 0.4:
                    items.insert(rnd.randint(0, len(items)), "[" + ", ".join(some() for _ in range(rnd.randint(1, 2))) + "]")
                seq = "[" + ", ".join(items) + "]"
                r1 = drv.run(seq + ' (|Q| Q "%s" Q)')
                ok1 = "res" in r1 and len(r1["res"]) == 1
                txt = bytes.fromhex(r1["res"][0][0]["x"]).decode("latin-1") if ok1 else None
                r2 = drv.run(txt) if ok1 else {}

                def vd(x):
                    return ("q", tuple(vd(e) for e in x["e"])) if x["t"] == "q" else (x["t"], x.get("v"), x.get("d"))
                ev.case(key=("seq", seq), nontrivial=True)
                ev.label("int:sequence")
                if not ok1 or "res" not in r2 or len(r2["res"]) != 1 or vd(r2["res"][0][0]) != vd(r1["res"][0][1]):
                    ev.violations.append({"property": PID, "query": seq + ' "%s"', "reason": "%s renders as %r, which reads back as %r" % (
                        seq, txt, [x.get("f") and bytes.fromhex(x["f"]).decode("latin-1") for x in (r2.get("res") or [[{}]])[0]] or r2.get("cerror")),
                        "signature": "C20:intseq:" + seq})
    finally:
        drv.kill()
    return ev


# integers that come out of a file (operation codes, offsets, line numbers, tags, forms, symbol fields ...): whatever
# they looked like before, cast to a radix domain they print with that radix' prefix and read back as the same number
DW_INT_FILES = ["/repo/tests/bitcount.o", "/repo/tests/a1.out", "/repo/tests/y-mips.o", "/repo/tests/nontrivial-types.o"]
DW_INT_PREFIXES = ["entry @AT_location elem label", "entry @AT_location elem offset", "entry @AT_location elem value", "entry attribute label",
                   "entry attribute form", "entry label", "entry offset", "entry @AT_decl_line", "entry @AT_byte_size", "entry @AT_language",
                   "symbol label", "symbol binding", "symbol size", "symbol address", "entry abbrev code", "entry @AT_low_pc", "unit offset"]


def work_dw_ints(path):
    import os
    ev = Evidence()
    drv = Driver(timeout=120)
    try:
        tok = "V%d" % drv.open(path, False)
        for P in DW_INT_PREFIXES:
            q = ('%s (pos < 60) ?(type == T_CONST) (|V| [V value] [V "%%d"] [V "%%x"] [V "%%o"] [V "%%b"] [V hex "%%s"] [V oct "%%s"] [V bin "%%s"] '
                 '[[V hex, V oct, V bin] "%%s"] [[[V hex]] "%%s"])') % P
            r = drv.run(q, tok, limit=100, steps=50000000)
            if "res" not in r or "error" in r or "cerror" in r:
                ev.inconc("prefix fails: " + P)
                continue
            for row in r["res"]:
                cols = row[-10:]
                v = int(cols[0]["e"][0]["v"])
                texts = [bytes.fromhex(c["e"][0]["x"]).decode("latin-1") for c in cols[1:]]
                ev.case(key=("dwint", os.path.basename(path), P, v), nontrivial=True)
                ev.label("dwarf-integer")
                bad = None
                for txt, ed, what in zip(texts[:7], ["dec", "hex", "oct", "bin", "hex", "oct", "bin"], ["%d", "%x", "%o", "%b", 'hex "%s"', 'oct "%s"', 'bin "%s"']):
                    if v == 0 and txt == "0":
                        continue        # (known finding zero-in-radix-domain)
                    try:
                        pv, pd = parse_literal(txt)
                    except ValueError:
                        pv, pd = None, None
                    if pv != v or pd != ed:
                        bad = "%s %s of %d prints %r, which reads back as %r in domain %r (expected %s)" % (P, what, v, txt, pv, pd, ed)
                        break
                if not bad and v != 0:
                    try:
                        inner = [parse_literal(t.strip()) for t in texts[7].strip("[]").split(",")]
                        inner2 = parse_literal(texts[8].strip("[]"))
                    except ValueError:
                        inner, inner2 = None, None
                    if inner != [(v, "hex"), (v, "oct"), (v, "bin")] or inner2 != (v, "hex"):
                        bad = "%s: [V hex, V oct, V bin] \"%%s\" of %d prints %r and [[V hex]] prints %r" % (P, v, texts[7], texts[8])
                if bad:
                    ev.violations.append({"property": PID, "query": q, "file": path, "reason": os.path.basename(path) + ": " + bad, "signature": "C20:dwint:" + P})
                    break
    except DriverCrash as e:
        ev.violations.append({"property": PID, "file": path, "reason": "driver crashed: " + e.report[-2500:], "signature": "C20:dwint-crash:" + path})
    except DriverTimeout:
        ev.inconc("watchdog")
    finally:
        drv.kill()
    return ev


ALPHA = [b'"', b"\\", b"%", b"\0", b"\n", b"\t", b"\x01", b"\x7f", b"\x80", b"\xff", b"a", b"Z", b"0", b"7", b" ", b"x", b"s", b"(", b")", b"[", b"]", b",", b"'", b"\r", b"\x1b", b"\xc3\xa9", b"\a", b"\b", b"\v", b"\f"]


def rand_string(rnd):
    n = rnd.choice([0, 1, 1, 2, 3, 5, 8, 12])
    # a quarter of the bytes are drawn from all 256 values (every control character, every escape letter), the
    # rest from the characters that matter to the lexer and the printer
    return b"".join(bytes([rnd.randrange(256)]) if rnd.random() < 0.25 else rnd.choice(ALPHA) for _ in range(n))


def run_cli(args, stdin=None):
    env = dict(os.environ)
    env["ASAN_OPTIONS"] = "detect_leaks=0"
    p = subprocess.run([CLI] + args, input=stdin, stdout=subprocess.PIPE, stderr=subprocess.PIPE, env=env, timeout=120)
    return p.returncode, p.stdout, p.stderr


def work_strings(task):
    seed, start, count = task
    ev = Evidence()
    drv = Driver()
    os.makedirs(os.path.join(BUILD, "run"), exist_ok=True)
    try:
        for i in range(start, start + count):
            rnd = random.Random((seed << 32) ^ (i * 2654435761 & 0xffffffff) ^ 0x0C20)
            strs = [rand_string(rnd) for _ in range(40)]
            lits = ['"' + esc_bytes(s, 2 if rnd.random() < 0.5 else 0) + '"' for s in strs]
            nest = rnd.choice([1, 2])
            if nest == 1:
                q = "[" + ", ".join(lits) + "]"
            else:
                q = "[" + ", ".join("[%s]" % l for l in lits) + "]"
            company = i % 2 == 1
            if company:
                # values of other kinds printed earlier in the same run (address sets, integers of every radix): what
                # was printed before must not show in how a string is printed
                q = "(0 10 aset 0x20 0x30 aset add, 0xff, 0o17, 0b101, -0x10, true, %s)" % q
                ev.label("cli-batch:after-other-values")
            path = os.path.join(BUILD, "run", "c20-%d-%d.zw" % (os.getpid(), i))
            with open(path, "w") as f:
                f.write(q)
            try:
                rc, out, err = run_cli(["-f", path])
            finally:
                os.unlink(path)
            for s in strs:
                ev.case(key=s, nontrivial=any(not (chr(b).isalnum() or b == 0x20) for b in s))
            ev.label("cli-batch")
            if rc != 0 or err:
                ev.violations.append({"property": PID, "query": q[:500], "reason": "CLI failed: rc %d stderr %r" % (rc, err[:300]), "signature": "C20:cli:%d" % i})
                continue
            printed = out.rstrip(b"\n")
            if company:
                printed = printed.split(b"\n")[-1]
            # The printed sequence is Zwerg syntax: read it back.
            rb = drv.run(printed)
            ok = "res" in rb and len(rb["res"]) == 1 and rb["res"][0][0]["t"] == "q"
            got = None
            if ok:
                elems = rb["res"][0][0]["e"]
                if nest == 2:
                    elems = [e["e"][0] if e["t"] == "q" and len(e["e"]) == 1 else {"t": "?"} for e in elems]
                got = [bytes.fromhex(e["x"]) if e["t"] == "s" else None for e in elems]
            if not ok or got != strs:
                k = next((j for j, (a, b) in enumerate(zip(got or [], strs)) if a != b), 0)
                ev.violations.append({"property": PID, "query": q[:800], "printed": printed.decode("latin-1")[:800],
                                      "reason": "the nested rendering does not read back as the same bytes: string %r printed inside %r reads back as %r (%s)"
                                                % (strs[k], printed[:200], (got or [None])[k] if got and k < len(got) else None, rb.get("cerror")),
                                      "signature": "C20:str:" + strs[k].hex()})
            elif rnd.random() < 0.03:
                ev.sample({"strings": [s.decode("latin-1") for s in strs[:5]], "printed": printed.decode("latin-1")[:160]})
            # top level: the bytes themselves
            if i % 4 == 0:
                s = rand_string(rnd).replace(b"\0", b"")
                lit = '"' + esc_bytes(s, 0) + '"'
                p2 = os.path.join(BUILD, "run", "c20-%d-%d-t.zw" % (os.getpid(), i))
                with open(p2, "w") as f:
                    f.write(lit)
                try:
                    rc, out, err = run_cli(["-f", p2])
                finally:
                    os.unlink(p2)
                ev.case(key=("top", s), nontrivial=True)
                if out != s + b"\n":
                    ev.violations.append({"property": PID, "query": lit, "reason": "top-level string %r printed as %r" % (s, out[:100]), "signature": "C20:top:" + s.hex()})
    except DriverCrash as e:
        ev.violations.append({"property": PID, "reason": "driver crashed: " + e.report[-3000:], "signature": "C20:crash2"})
    finally:
        drv.kill()
    return ev


def known_findings(ev):
    from ..harness import load_known
    ks = [k for k in load_known() if k.get("property") == PID and k.get("status") == "known" and k.get("signature") == "zero-in-radix-domain"]
    if not ks:
        return
    drv = Driver()
    try:
        r = drv.run('0x0 "%s", 0o0 "%s", 0b0 "%s", 0 "%x"')
        if "res" in r and [bytes.fromhex(s[0]["x"]) for s in r["res"]] == [b"0"] * 4:
            ev.known_hits[ks[0]["signature"]] = ks[0]["what"]
    finally:
        drv.kill()


def main(tier, seed):
    t0 = time.time()
    ev = Evidence()
    known_findings(ev)
    ev.merge(run_pool(work_consts, [(lo, lo + 40) for lo in range(0, 1000, 40)]))
    n = 3000 if tier == "quick" else 100000
    per = max(50, n // 32)
    ev.merge(run_pool(work_ints, [(seed, s, min(per, n - s)) for s in range(0, n, per)]))
    ev.merge(run_pool(work_dw_ints, DW_INT_FILES))
    nb = 96 if tier == "quick" else 3000
    per = max(3, nb // 32)
    ev.merge(run_pool(work_strings, [(seed, s, min(per, nb - s)) for s in range(0, nb, per)]))
    return finish(PID, tier, seed, ev, RULE, t0, exhaustive=True,
                  assumptions=["/usr/include/dwarf.h and elf.h are the authority for names and numbers",
                               "exhaustive=true refers to the constant words of the vocabulary; integers and strings are sampled",
                               "words of the vocabulary that the installed headers do not define are counted inconclusive"],
                  health={"constants enumerated": ev.labels.get("constant-word", 0) > 500,
                          "all radices": all(ev.labels.get("int:" + d, 0) > 50 for d in ("dec", "hex", "oct", "bin")),
                          "integers read from files": ev.labels.get("dwarf-integer", 0) > 300,
                          "cli batches": ev.labels.get("cli-batch", 0) >= 32})


def replay(path):
    import json
    rec = json.load(open(path))
    print(rec.get("reason"))
    return 0
