"""C01 -- stream semantics of every construct.

Tiers:
  exhaustive  all programs up to a node bound over a reduced alphabet, each run plain and
              behind multi-yield prefixes so that every construct sees 1, 2 and 3 inputs;
  random      typed random programs (zwv.gen), nesting depth <= 3, likewise prefixed;
  contexts    systematic composition: a filter that lets only some of the incoming stacks through, followed
              by a multi-yield producer, placed inside every sub-expression context (|| branches, `,` branches,
              [ ], let, %( %), ?( ), infix, if condition/branches, E?) and inside pairs of them, behind
              prefixes that make the filter reject the first, a middle or the last input;
  union law   engine-only metamorphic check of the statement itself:
              results((s1,...,sn) P) = multiset-union of results(si P).
Oracle: zwv.model (reference interpreter written from the documentation).
"""
import itertools, random, time
from collections import Counter

from .. import gen as G, model as M, compare as CMP
from ..core_case import run_case
from ..drv import Driver, DriverCrash, DriverTimeout
from ..harness import Evidence, run_pool, finish, seed_from_env, encode_stack, decode_stack
from ..render import render
from ..shrink import shrink

PID = "C01"
RULE = ("programs: (a) exhaustive enumeration of all ASTs up to N nodes over the alphabet "
        "{1, 2, dup, drop, swap, add, \"%s\", A, [E], ?(E), !(E), E?, let A := E;, (E), E E, "
        "E , E, E || E, E == E, if E then E else E}, each run on stack [7 8], behind `(1, 2)` and behind "
        "`(1, 2, 3)`; (b) seeded random typed programs (depth <= 3) plain and behind a 2- or 3-yield prefix; "
        "(c) contexts: 8 filters x 6 multi-yield producers x 14 sub-expression contexts (and pairs of contexts) x 6 prefixes; "
        "(d) union law on random programs, engine only.  A case is non-trivial when a construct with per-input "
        "state (, || [ ] ?( ) !( ) infix let * + ? if format-splice) is nested inside another construct, was fed "
        ">= 2 input stacks during the run and yielded != 1 results for some input; distinct = distinct program text + input.")

# ------------------------------------------------------------ enumeration

ATOMS = [("lit", 1, "dec"), ("lit", 2, "dec"), ("word", "dup"), ("word", "drop"), ("word", "swap"),
         ("word", "add"), ("str", [("nop",)], False), ("read", "A")]


def enum_sizes(maxn):
    """by[n] = list of ASTs with exactly n nodes (deduplicated by rendering later)."""
    by = {1: list(ATOMS)}
    for n in range(2, maxn + 1):
        out = []
        for e in by[n - 1]:
            out.append(("cap", (), e))
            out.append(("sub", True, (), e))
            out.append(("sub", False, (), e))
            out.append(("opt", e))
            out.append(("let", ("A",), e))
            out.append(("scope", (), e))
        for i in range(1, n - 1):
            j = n - 1 - i
            for a in by[i]:
                for b in by[j]:
                    if a[0] != "cat":      # right-nested only: cat is associative
                        out.append(("cat", [a, b]))
                    out.append(("alt", [a, b]))
                    out.append(("or", [a, b]))
                    out.append(("infix", a, "==", b))
        if n >= 4:
            for i in range(1, n - 2):
                for j in range(1, n - 1 - i):
                    k = n - 1 - i - j
                    if k < 1:
                        continue
                    for a in by[i]:
                        for b in by[j]:
                            for c in by[k]:
                                out.append(("if", a, b, c))
        by[n] = out
    return by


PREFIXES = [
    (None, (M.VConst(7), M.VConst(8))),
    (("alt", [("lit", 1, "dec"), ("lit", 2, "dec")]), (M.VConst(7),)),
    (("alt", [("lit", 1, "dec"), ("lit", 2, "dec"), ("lit", 3, "dec")]), (M.VConst(7),)),
]


def with_prefix(prefix, node):
    if prefix is None:
        return node
    if node[0] == "cat":
        return ("cat", [prefix] + list(node[1]))
    return ("cat", [prefix, node])


# ------------------------------------------------------------------ worker

def violation_record(node, stack, o, tier_kind):
    return {
        "property": PID, "kind": tier_kind, "query": o.text,
        "stack": [CMP.show(v) for v in stack], "stack_enc": encode_stack(stack), "reason": o.reason,
        "engine_stderr": (o.reply or {}).get("stderr", b"").decode("latin-1")[:2000],
        "ast": repr(node),
        "signature": "C01:" + (o.text or ""),
    }


_SHRINK = {"spent": 0.0}


def check_one(drv, ev, node, stack, kind, shrinkable=True):
    if len(ev.violations) >= 30:
        # the verdict of this task is settled; on a badly broken tree going on only costs time
        ev.label("skipped-after-30-failures")
        return None
    try:
        o = run_case(drv, node, stack)
    except DriverCrash as e:
        ev.violations.append({"property": PID, "kind": kind, "query": render(node),
                              "stack": [CMP.show(v) for v in stack],
                              "reason": "driver crashed: " + e.report[-3000:],
                              "signature": "C01:crash:" + render(node)})
        return None
    except DriverTimeout:
        ev.inconc("watchdog")
        return None
    if o.status == "inconclusive":
        ev.inconc(o.reason.split(":")[0][:50])
        ev.case()
        return o
    if o.status == "violation":
        small = node
        if shrinkable:
            head = o.reason.split(":")[0]

            def fails(n):
                try:
                    oo = run_case(drv, n, stack)
                except (DriverCrash, DriverTimeout):
                    return False
                return oo.status == "violation" and oo.reason.split(":")[0] == head
            small = shrink(node, fails, 1500)
            # Replay three times on a fresh driver before believing it.
            drv.restart()
            oks = 0
            for _ in range(3):
                try:
                    oo = run_case(drv, small, stack)
                    if oo.status == "violation":
                        oks += 1
                        o = oo
                except (DriverCrash, DriverTimeout):
                    oks += 1
            if oks < 3:
                ev.inconc("violation did not replay 3x")
                return o
        ev.violations.append(violation_record(small, stack, o, kind))
        return o
    # ok
    nt = bool(o.ctx and M.stateful_nested_refed(node, o.ctx))
    ev.case(key=(o.text, repr(stack)), nontrivial=nt)
    if o.ctx:
        for l, n in o.ctx.labels.items():
            ev.label("model:" + l, n)
    if o.reason == "compile-error":
        ev.label("compile-error-agreed")
    elif o.stream is not None:
        ev.label("ordered" if o.stream.ordered else "multiset-compared")
    if nt:
        ev.label("nontrivial")
        ev.sample({"query": o.text, "stack": [CMP.show(v) for v in stack],
                   "results": len(o.stream.items), "ordered": o.stream.ordered,
                   "first": [CMP.show(v) for v in o.stream.items[0]] if o.stream.items else None})
    return o


def work_enum(task):
    lo, hi, maxn = task
    ev = Evidence()
    drv = Driver()
    by = enum_sizes(maxn)
    allp = [p for n in range(1, maxn + 1) for p in by[n]]
    seen = set()
    try:
        for node in allp[lo:hi]:
            for prefix, stack in PREFIXES:
                full = with_prefix(prefix, node)
                check_one(drv, ev, full, stack, "exhaustive")
    finally:
        drv.kill()
    return ev


def rand_prefix(rnd):
    c = rnd.randint(0, 5)
    if c <= 1:
        return None
    if c == 2:
        return ("alt", [("lit", 1, "dec"), ("lit", 2, "dec")])
    if c == 3:
        return ("alt", [("lit", 0, "dec"), ("str", [b"ab"], False), ("cap", (), ("alt", [("lit", 1, "dec"), ("lit", 2, "dec")]))])
    if c == 4:
        return ("cat", [("cap", (), ("alt", [("lit", 3, "dec"), ("lit", 1, "dec"), ("lit", 2, "dec")])), ("word", "elem")])
    return ("cat", [("str", [b"abc"], False), ("word", "relem")])


def work_random(task):
    seed, start, count, depth = task
    ev = Evidence()
    drv = Driver()
    try:
        for i in range(start, start + count):
            rnd = random.Random((seed << 32) ^ (i * 2654435761 & 0xffffffff) ^ 0xC01)
            g = G.Gen(rnd, G.Cfg(max_depth=depth))
            pre = rand_prefix(rnd)
            in_types = [] if pre is None else [G.U]
            node, _ = g.program(in_types)
            full = with_prefix(pre, node)
            o = check_one(drv, ev, full, (), "random")
            for l, n in g.labels.items():
                ev.label("gen:" + l, n)
            for k in G.kinds(full):
                if isinstance(k, tuple):
                    ev.label("nest:%s>%s" % k)
    finally:
        drv.kill()
    return ev


# ------------------------------------------------- contexts x filters x producers

def _l(v):
    return ("lit", v, "dec")


def _alt(*vs):
    return ("alt", [_l(v) for v in vs])


def _w(*ws):
    return [("word", w) for w in ws]


# multi-yield producers: push exactly one value, several times, in a documented order
CTX_PRODUCERS = [
    _alt(10, 20), _alt(10, 20, 30),
    ("cat", [("cap", (), _alt(10, 20, 30)), ("word", "elem")]),
    ("cat", [("cap", (), _alt(11, 21, 31)), ("word", "relem")]),
    ("or", [("cat", [("infix", ("nop",), "==", _l(3)), _alt(40, 50)]), _alt(10, 20)]),
    ("cat", [_alt(10, 20), ("alt", [("cat", [_l(1)] + _w("add")), ("cat", [_l(2)] + _w("add"))])]),
]
# filters: stack effect 0, let some of the prefix values through
CTX_FILTERS = [
    ("infix", ("nop",), "==", _l(2)), ("infix", ("nop",), "!=", _l(1)), ("infix", ("nop",), ">", _l(1)),
    ("sub", True, (), ("infix", ("nop",), "==", _l(2))), ("sub", False, (), ("infix", ("nop",), "==", _l(1))),
    ("or", [("infix", ("nop",), "==", _l(2)), ("infix", ("nop",), "==", _l(3))]),
    ("if", ("infix", ("nop",), "==", _l(1)), ("sub", False, (), ("nop",)), ("nop",)),
    ("nop",),
]
CTX_PREFIXES = [_alt(1, 2), _alt(2, 1), _alt(1, 2, 3), _alt(1, 2, 1, 2), _alt(3, 1, 2), _alt(1, 1, 2)]


def _contexts(x):
    """x pushes one value (0..n times); each context keeps that stack effect."""
    yield "plain", x
    yield "or-left", ("or", [x, _l(99)])
    yield "or-right", ("or", [("cat", [("infix", ("nop",), "==", _l(7)), _l(5)]), x])
    yield "alt-left", ("alt", [x, _l(99)])
    yield "alt-right", ("alt", [_l(99), x])
    yield "capture", ("cap", (), x)
    yield "let", ("scope", (), ("cat", [("let", ("B",), x), ("read", "B")]))
    yield "splice", ("str", [b"<", x, b">"], False)
    yield "sub-then", ("cat", [("sub", True, (), ("cat", [x, ("infix", ("nop",), ">", _l(15))])), _l(1)])
    yield "infix", ("cat", [("infix", x, ">=", _l(20)), _l(1)])
    yield "if-cond", ("if", ("cat", [x, ("infix", ("nop",), ">", _l(15))]), _l(1), _l(2))
    yield "if-then", ("if", ("infix", ("nop",), "!=", _l(3)), x, _l(99))
    yield "if-else", ("if", ("infix", ("nop",), "==", _l(3)), _l(99), x)
    yield "opt", ("cat", [("opt", ("cat", [x, ("word", "drop")])), _l(1)])


def ctx_programs():
    out = []
    for fi, f in enumerate(CTX_FILTERS):
        for pi, m in enumerate(CTX_PRODUCERS):
            x = ("cat", [f, m]) if f != ("nop",) else m
            for n1, c1 in _contexts(x):
                out.append(((n1, fi, pi), c1))
                if (fi + pi) % 2 == 0:
                    for n2, c2 in _contexts(c1):
                        if n2 != "plain":
                            out.append(((n2 + ">" + n1, fi, pi), c2))
    return out


def work_ctx(task):
    lo, hi = task
    ev = Evidence()
    drv = Driver()
    progs = ctx_programs()
    try:
        for idx in range(lo, min(hi, len(progs))):
            (name, fi, pi), node = progs[idx]
            for k, pre in enumerate(CTX_PREFIXES):
                if k >= 2 and (idx + k) % 3:
                    continue
                o = check_one(drv, ev, ("cat", [pre, node]), (), "contexts")
                if o is not None and o.status == "ok":
                    ev.label("ctx:" + name.split(">")[0])
                    if fi != len(CTX_FILTERS) - 1:
                        ev.label("ctx:filtered")
    finally:
        drv.kill()
    return ev


def canon_stack(s):
    return tuple(CMP.strip_pos(CMP.from_dump(v)) if v["t"] in "csqk" else ("x", v["t"]) for v in s)


def work_union(task):
    """Engine-only: results((s1,..,sn) P) = union of results(si P)."""
    seed, start, count, depth = task
    ev = Evidence()
    drv = Driver()
    pools = [[("lit", 1, "dec"), ("lit", 2, "dec")],
             [("lit", 0, "dec"), ("str", [b"ab"], False), ("cap", (), ("alt", [("lit", 1, "dec"), ("lit", 2, "dec")]))],
             [("lit", 5, "dec"), ("lit", 5, "dec"), ("lit", 7, "hex")]]
    try:
        for i in range(start, start + count):
            rnd = random.Random((seed << 32) ^ (i * 2654435761 & 0xffffffff) ^ 0x0C01)
            g = G.Gen(rnd, G.Cfg(max_depth=depth))
            node, _ = g.program([G.U])
            inputs = rnd.choice(pools)
            try:
                whole = drv.run(render(with_prefix(("alt", inputs), node)), limit=3000, steps=400000)
                parts = [drv.run(render(with_prefix(s, node)), limit=3000, steps=400000) for s in inputs]
            except DriverCrash as e:
                ev.violations.append({"property": PID, "kind": "union", "query": render(node),
                                      "reason": "driver crashed: " + e.report[-3000:],
                                      "signature": "C01:crash:" + render(node)})
                continue
            except DriverTimeout:
                ev.inconc("watchdog")
                continue
            rs = [whole] + parts
            if any("cerror" in r for r in rs):
                if not all("cerror" in r for r in rs):
                    ev.violations.append({"property": PID, "kind": "union", "query": render(node),
                                          "reason": "compiles with some inputs only", "signature": "C01:u:" + render(node)})
                ev.inconc("union: compile error")
                continue
            if any("error" in r or not r.get("end") for r in rs):
                ev.inconc("union: run-time error or cap")
                continue
            a = Counter(canon_stack(s) for s in whole["res"])
            b = Counter()
            for r in parts:
                b.update(canon_stack(s) for s in r["res"])
            nt = len(whole["res"]) != len(inputs)
            ev.case(key=("u", render(node), repr(inputs)), nontrivial=nt)
            ev.label("union-law")
            if a != b:
                ev.violations.append({
                    "property": PID, "kind": "union", "query": render(with_prefix(("alt", inputs), node)),
                    "reason": "results for a stream differ from the union of results per stack: only-stream %r only-union %r"
                              % (list((a - b).elements())[:3], list((b - a).elements())[:3]),
                    "signature": "C01:u:" + render(node)})
    finally:
        drv.kill()
    return ev


def work_lazy(task):
    """Work is done when it is asked for: a sub-expression whose k-th result fails hands out k-1 results first,
    wherever it stands (top level, format splice, body of a let, branch of an alternation, behind a filter) -- a
    construct that computes ahead of what it has been asked for shows here as a failure that comes too early."""
    ev = Evidence()
    drv = Driver()
    try:
        for n in range(2, 7):
            for k in range(1, n + 1):
                items = ", ".join(str(i) for i in range(1, n + 1))
                body = "(%s) if ( == %d) then (drop drop) else ()" % (items, k)
                for q, before in ((body, k - 1), ('"<%%( %s %%)>"' % body, k - 1), ("let A := %s; A" % body, k - 1), ("(0, %s)" % body, k),
                                  ("%s 10 add" % body, k - 1), ('"%%( %s %%)" length' % body, k - 1), ("(%s || 99)" % body, k - 1),
                                  ('"a%%( %s %%)b" "<%%s>"' % body, k - 1)):
                    r = drv.run(q, limit=100, steps=100000)
                    ev.case(key=("lazy", q), nontrivial=True)
                    ev.label("lazy-failure")
                    if not ("error" in r and r["error"] and len(r.get("res", [])) == before and not r.get("end")):
                        ev.violations.append({"property": PID, "query": q, "signature": "C01:lazy:" + q, "lazy_before": before,
                                              "reason": "the %d-th result of the sub-expression fails: expected %d result(s) and then the failure, got %d result(s), %s"
                                              % (k, before, len(r.get("res", [])), ("failure %r" % r["error"]) if r.get("error") else "no failure")})
    except (DriverCrash, DriverTimeout) as e:
        ev.violations.append({"property": PID, "query": "lazy failures", "reason": "crashed or hung: " + str(e)[-1500:], "signature": "C01:lazy-crash"})
    finally:
        drv.kill()
    return ev


def main(tier, seed):
    t0 = time.time()
    if tier == "quick":
        maxn, nrand, nunion, depth = 4, 6000, 1500, 2
    else:
        maxn, nrand, nunion, depth = 5, 120000, 30000, 3
    by = enum_sizes(maxn)
    total = sum(len(by[n]) for n in by)
    tasks = []
    chunk = max(200, total // 64 + 1)
    ev = Evidence()
    ev.merge(run_pool(work_enum, [(lo, min(lo + chunk, total), maxn) for lo in range(0, total, chunk)]))
    per = max(100, nrand // 48)
    ev.merge(run_pool(work_random, [(seed, s, min(per, nrand - s), depth) for s in range(0, nrand, per)]))
    nctx = len(ctx_programs())
    step = nctx // 48 + 1
    ev.merge(run_pool(work_ctx, [(lo, lo + step) for lo in range(0, nctx, step)]))
    ev.extra["context_programs"] = nctx
    ev.merge(run_pool(work_lazy, [0]))
    per = max(100, nunion // 32)
    ev.merge(run_pool(work_union, [(seed, s, min(per, nunion - s), depth) for s in range(0, nunion, per)]))
    ev.extra["exhaustive_programs"] = total
    ev.extra["exhaustive_bound_nodes"] = maxn
    ev.extra["random_programs"] = nrand
    ev.extra["union_law_programs"] = nunion
    health = {
        "ALT nested in OR/let/format/closure seen": any(
            ev.labels.get("nest:%s>alt" % k, 0) > 0 for k in ("or", "let", "str", "star", "cap")),
        "multiset-compared class non-empty": ev.labels.get("multiset-compared", 0) > 0,
        "ordered class non-empty": ev.labels.get("ordered", 0) > 0,
        "filter-then-producer inside every context": all(ev.labels.get("ctx:" + c, 0) > 20 for c in (
            "or-left", "or-right", "alt-left", "alt-right", "capture", "let", "splice", "sub-then", "infix", "if-cond", "if-then", "if-else", "opt")),
    }
    return finish(PID, tier, seed, ev, RULE, t0, exhaustive=False, health=health,
                  assumptions=["zwv/model.py is a faithful reading of doc/syntax.rst and the core docstrings",
                               "result order is compared only where the documentation fixes it (order flag)",
                               "the exhaustive sub-space (all programs <= %d nodes over the stated alphabet) is enumerated completely" % maxn])


def replay(path):
    import json
    from .. import shrink as _s
    rec = json.load(open(path))
    drv = Driver()
    node = eval(rec["ast"], {"__builtins__": {}}) if "ast" in rec else None
    if node is None:
        r = drv.run(rec["query"], limit=100, steps=100000)
        print(r)
        drv.kill()
        if "lazy_before" in rec:
            return 0 if (r.get("error") and len(r.get("res", [])) == rec["lazy_before"] and not r.get("end")) else 1
        return 0
    stack = decode_stack(rec.get("stack_enc", []))
    o = run_case(drv, node, stack)
    print(o.status, o.reason)
    drv.kill()
    return 1 if o.status == "violation" else 0
