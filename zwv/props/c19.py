"""C19 -- the command line honours its grep-like contract.

Generated command lines: subsets of {-q -s -c -H -h} x query source {-e, -f file, -f -,
positional} x a pool of queries (0/1/many results, multi-value stacks, compile error, unbound
name, hard run-time error after k results, soft errors only) x 0-3 file arguments (DWARF, ELF
without DWARF, non-ELF, missing) x 0-2 -a/--a arguments yielding 0-3 values.

Oracle: a model of the CLI contract written from doc/cli.rst, the option docstrings and the
statement (exit status table, -q, -c per input, row-major iteration over the cartesian product,
header rule, -H/-h, -a X == --a '"X"', interchangeable query sources, stdout = the library's
results -- obtained from the driver on the same input stacks -- one stack per record with `---`
before multi-value stacks, diagnostics on stderr only, -s silencing the driver's own).
"""
import itertools, os, random, subprocess, time

from ..drv import Driver, DriverCrash, DriverTimeout, BUILD, hexs
from ..harness import Evidence, run_pool, finish

PID = "C19"
CLI = os.path.join(BUILD, "bin", "dwgrep")
RUN = os.path.join(BUILD, "run")
RULE = ("seeded random full combinations + a pairwise sweep: flags (32 subsets of -q -s -c -H -h) x 4 query sources x 16 queries x "
        "file lists of length 0-3 drawn from {3 DWARF files, ELF without DWARF, non-ELF, missing} x 0-2 arguments drawn from "
        "{-a str, --a yielding 0, 1, 2, 3 values}.  Compared: exit status, stdout byte for byte, presence and kind of "
        "stderr lines.  Non-trivial: >= 2 inputs in the cartesian product, or an erroring query, or an unopenable file among "
        "openable ones.  Distinct by command line.")

QUERIES = [
    "1", "(1, 2, 3)", "!()", "1 2", "\"abc\"", "[1, 2, \"x\"]", "(", "foo", "let A := 1; let A := 2;",
    "(1, 2) if (== 2) then (drop drop drop drop drop drop) else ()", "1 \"a\" add", "(1, 0, 2) 6 swap div",
    "(|A| A)", "(1, 2) \"r%s\"", "", "drop drop drop drop drop",
    # scripts in which a line break means something: it separates two tokens, ends a comment, is a byte of a string
    "1\n2", "(1, 2) # first pair\n(3, 4)", "1 // one\n?(0 == 1)", "\"a\nb\" length", "1\n\n\n2 add\n", "(1,\n2)\n#last line is a comment",
    "1 /* a\nb */ 2", "\"x\"\\\n\"y\"",
]
FILE_QUERIES = ["(|D| D entry (pos < 3) offset)", "(|D| D name)", "(|D| [D unit offset])", "(|D| D entry (pos == 1) label \"%s\")",
                "(|D| D entry (pos < 2) offset, D symbol (pos < 2) name)", "(|D| D entry !())", "(|D| 7)"]
# queries whose result count depends on the input, so that some iterations match and others do not
ARG_DEP_QUERIES = ["(== 1)", "(== 2) \"two\"", "(> 15)", "(!= 1)", "?(type == T_STR)", "(== 3) (1, 2)"]
POS_QUERIES = ["pos", "?0", "?1", "(|A| A pos)", "!0 \"later\""]       # the position of the input value is part of the input
FILE_DEP_QUERIES = ["(|D| D entry ?TAG_enumerator name)", "(|D| D entry ?TAG_structure_type offset)",
                    "(|D| D symbol (name == \"main\") name)", "(|D| D entry ?TAG_subprogram (pos < 9) name)"]
ARGS = [("-a", "str"), ("-a", "x y"), ("-a", "50%% off %s"), ("-a", 'q"\\%(1%)'), ("--a", "5"), ("--a", "(1, 2)"), ("--a", "(1, 2, 3) 10 mul"), ("--a", "!()"), ("--a", "\"s\""),
        ("--a", "[1, 2]"), ("--a", "(1, 0, 2)"), ("--a", "(0, 3)"), ("--a", "(2, 1, 0, 4)")]
# queries that fail at run time on some inputs only, after having yielded results: what one input did must not
# show in what is reported for the next (counts, match status, headers)
FAIL_ARG_QUERIES = ["(|A| 1, 2, 6 A div)", "(|A| A, 6 A div, 9)", "(|A| (1, 2, 3) (6 A 1 sub div))", "(|A| A \"x\", A 1 add)"]
FAIL_FILE_QUERIES = ["(|D| D name, D entry (pos < 2) offset)", "(|D| 1, 2, D entry (pos == 0) offset)"]
FILES = ["/repo/tests/a1.out", "/repo/tests/enum.o", "/repo/tests/nontrivial-types.o", "/repo/tests/y.o",
         os.path.join(RUN, "c19-not-elf.txt"), os.path.join(RUN, "c19-missing-file")]


def setup_files():
    os.makedirs(RUN, exist_ok=True)
    with open(FILES[4], "w") as f:
        f.write("this is not an ELF file\n")


def render_value(v, brief=False):
    t = v["t"]
    if t == "c":
        return bytes.fromhex(v["b"] if brief else v["f"])
    if t == "s":
        b = bytes.fromhex(v["x"])
        if not brief:
            return b
        assert all(0x20 <= c < 0x7f and c not in b'"\\%' for c in b)
        return b'"' + b + b'"'
    if t == "q":
        return b"[" + b", ".join(render_value(e, True) for e in v["e"]) + b"]"
    if t == "dw":
        return b"<Dwarf \"" + v["name"].encode() + b"\">"
    raise ValueError("value type not rendered by the model: " + t)


class Case:
    def __init__(self, flags, source, query, files, args):
        self.flags, self.source, self.query, self.files, self.args = flags, source, query, files, args

    def argv(self, qfile):
        a = list(self.flags)
        for k, v in self.args:
            a += [k, v]
        stdin = None
        if self.source == "-e":
            a += ["-e", self.query]
        elif self.source == "-f":
            with open(qfile, "w") as f:
                f.write(self.query)
            a += ["-f", qfile]
        elif self.source == "-f-":
            a += ["-f", "-"]
            stdin = self.query.encode()
        if self.source == "pos":
            a += ["--", self.query] if self.query.startswith("-") else [self.query]
        a += self.files
        return a, stdin

    def key(self):
        return (tuple(self.flags), self.source, self.query, tuple(self.files), tuple(self.args))


def expected(drv, case, handles):
    """Model of the CLI.  Returns dict(rc, stdout, need_err(bool or None), kinds) or None if inconclusive."""
    q, s, c, H, h = ["-" + x in case.flags for x in "qscHh"]
    err_driver = False      # a `dwgrep:` line is expected on stderr (unless -s)
    err_lib = False         # the library prints diagnostics itself
    # arguments are evaluated while options are parsed
    argvals = []
    for k, v in case.args:
        if k == "-a":
            argvals.append([("S" + v.encode().hex(), v.encode())])
        else:
            r = drv.run(v)
            if "cerror" in r or "error" in r:
                return {"rc": 2, "stdout": b"", "err_driver": True, "err_lib": False, "early": True}
            vals = []
            for st in r["res"]:
                tos = st[-1]
                # (each value keeps the position it was yielded with)
                tok = {"c": lambda x: "I%s:%s@%d" % (x["d"], x["v"], x["p"]), "s": lambda x: "S%s@%d" % (x["x"], x["p"]),
                       "q": lambda x: "[ " + " ".join(("I%s:%s@%d" % (e["d"], e["v"], e["p"])) if e["t"] == "c" else "S%s@%d" % (e["x"], e["p"])
                                                      for e in x["e"]) + " ]@%d" % x["p"]}[tos["t"]](tos)
                vals.append((tok, render_value(tos)))
            argvals.append(vals)
    # the query is compiled before files are opened
    pr = drv.parse(case.query)
    if "q" not in pr:
        return {"rc": 2, "stdout": b"", "err_driver": True, "err_lib": False, "early": True}
    qid = pr["q"]
    try:
        opened = []
        unopenable = 0
        for f in case.files:
            if f in handles:
                # the files that could be opened are numbered 0, 1, 2, ... -- the others are skipped
                opened.append((("V%d@%d" % (handles[f], len(opened))), f.encode()))
            else:
                unopenable += 1
        if unopenable:
            err_driver = True
        lists = []
        if case.files:
            if not opened:
                return {"rc": 1, "stdout": b"", "err_driver": True, "err_lib": False, "early": False}
            lists.append(opened)
        lists += argvals
        iterations = 1
        for l in lists:
            iterations *= len(l)
        if iterations == 0:
            return {"rc": 1, "stdout": b"", "err_driver": err_driver, "err_lib": False, "early": False}
        with_header = (iterations > 1 or H) and not h
        out = b""
        match = False
        errors = False
        per_iter = []
        failed = []
        for combo in itertools.product(*lists):     # row-major: the last list varies fastest
            shown = []
            for i, (item, l) in enumerate(zip(combo, lists)):
                if (i == 0 and case.files) or len(l) > 1:
                    shown.append(item[1])
            header = b",".join(shown) if shown else b"<no-file>"
            r = drv.req("runq %d 100000 50000000 %s" % (qid, " ".join(item[0] for item in combo)))
            if r["stderr"]:
                err_lib = True
            count = 0
            per_iter.append(len(r.get("res", [])))
            failed.append("error" in r)
            for st in r.get("res", []):
                if q:
                    return {"rc": 0, "stdout": b"", "err_driver": None, "err_lib": None, "early": True}
                match = True
                if not c:
                    if with_header:
                        out += header + b":\n"
                    if len(st) > 1:
                        out += b"---\n"
                    for v in reversed(st):
                        out += render_value(v) + b"\n"
                else:
                    count += 1
            if "error" in r:
                # the message is printed even with -q; only the exit status ignores it
                err_driver = True
                if not q:
                    errors = True
            elif c and not q:       # -q: nothing is written to stdout, counts included
                if with_header:
                    out += header + b":"
                out += b"%d\n" % count
        rc = 2 if errors else (0 if match else 1)
        return {"rc": rc, "stdout": out, "err_driver": err_driver, "err_lib": err_lib, "early": False, "iters": per_iter, "failed": failed}
    finally:
        drv.req("qdestroy %d" % qid)


def run_cli(argv, stdin):
    env = dict(os.environ)
    env["ASAN_OPTIONS"] = "detect_leaks=0:abort_on_error=0"
    env["UBSAN_OPTIONS"] = "print_stacktrace=1:halt_on_error=1"
    env["LC_ALL"] = "C"
    p = subprocess.run([CLI] + argv, input=stdin if stdin is not None else b"", stdout=subprocess.PIPE, stderr=subprocess.PIPE, env=env, timeout=180)
    return p.returncode, p.stdout, p.stderr


def check_case(drv, ev, case, handles, idx):
    qfile = os.path.join(RUN, "c19-%d-%d.zw" % (os.getpid(), idx))
    argv, stdin = case.argv(qfile)
    try:
        try:
            exp = expected(drv, case, handles)
        except ValueError as e:
            ev.inconc("model cannot render: %s" % e)
            return
        if exp is None:
            ev.inconc("model inconclusive")
            return
        rc, out, err = run_cli(argv, stdin)
    except subprocess.TimeoutExpired:
        ev.violations.append({"property": PID, "argv": argv, "reason": "CLI hung", "signature": "C19:hang:" + repr(argv)})
        return
    finally:
        if os.path.exists(qfile):
            os.unlink(qfile)
    nfiles_ok = sum(1 for f in case.files if f in handles)
    nt = (len(case.files) + sum(1 for a in case.args) >= 2 and nfiles_ok != 1) or exp["rc"] == 2 or (0 < nfiles_ok < len(case.files))
    ev.case(key=case.key(), nontrivial=nt)
    ev.label("source:" + case.source)
    ev.label("rc:%d" % exp["rc"])
    it = exp.get("iters") or []
    if len(it) >= 2 and any(it) and it[-1] == 0:
        ev.label("iterations:match-then-none")
    if len(it) >= 2 and it[0] == 0 and any(it):
        ev.label("iterations:none-then-match")
    fl = exp.get("failed") or []
    if any(fl[k] and it[k] > 0 and not all(fl[k + 1:]) for k in range(len(fl) - 1)):
        ev.label("iterations:results-then-failure-then-an-input-that-completes" + (" with -c" if "-c" in case.flags and "-q" not in case.flags else ""))
    for f in case.flags:
        ev.label("flag:" + f)
    bad = None
    s = "-s" in case.flags
    if rc not in (0, 1, 2):
        bad = "exit status %d (crash?) stderr %r" % (rc, err[-400:])
    elif rc != exp["rc"]:
        bad = "exit status %d, expected %d" % (rc, exp["rc"])
    elif out != exp["stdout"]:
        bad = "stdout differs: got %r, expected %r" % (out[:300], exp["stdout"][:300])
    else:
        has_driver = b"dwgrep:" in err or (b"Error: can't open script" in err)
        if exp["err_driver"] is True and not s and not has_driver:
            bad = "no `dwgrep:` diagnostic on stderr: %r" % err[:200]
        if exp["err_driver"] is not None and s and b"dwgrep:" in err and not exp["early"]:
            bad = "-s given but a `dwgrep:` message was printed: %r" % err[:200]
        if exp["err_driver"] is False and exp["err_lib"] is False and err:
            bad = "unexpected stderr output: %r" % err[:200]
        if b"==ERROR" in err or b"runtime error" in err:
            bad = "sanitizer report: %r" % err[-600:]
    if bad:
        ev.violations.append({"property": PID, "argv": argv, "stdin": (stdin or b"").decode("latin-1"), "reason": bad + "  [argv: %s]" % " ".join(map(repr, argv)),
                              "signature": "C19:" + bad[:50] + ":" + repr(argv)[:120]})
    elif nt and len(ev.samples) < 8 and idx % 37 == 0:
        ev.sample({"argv": argv, "rc": rc, "stdout": out.decode("latin-1")[:200], "stderr": err.decode("latin-1")[:120]})


def open_handles(drv):
    handles = {}
    for f in FILES:
        try:
            handles[f] = drv.open(f, False)
        except RuntimeError:
            pass
    return handles


def make_case(rnd):
    if rnd.random() < 0.12:
        # several inputs, the query failing on some of them only (after results), mostly counted
        flags = [f for f in ("-s", "-H", "-h") if rnd.random() < 0.25] + (["-c"] if rnd.random() < 0.7 else []) + (["-q"] if rnd.random() < 0.1 else [])
        source = rnd.choice(["-e", "-f", "-f-", "pos"])
        if rnd.random() < 0.5:
            files = [rnd.choice([FILES[0], FILES[1], FILES[3], FILES[3]]) for _ in range(rnd.randint(2, 3))]     # FILES[3]: ELF without DWARF
            return Case(flags, source, rnd.choice(FAIL_FILE_QUERIES), files, [])
        return Case(flags, source, rnd.choice(FAIL_ARG_QUERIES), [], [("--a", rnd.choice(["(1, 0, 2)", "(0, 3)", "(2, 1, 0, 4)", "(0, 0, 5)", "(1, 2)"]))])
    flags = [f for f in ("-q", "-s", "-c", "-H", "-h") if rnd.random() < 0.3]
    source = rnd.choice(["-e", "-e", "-f", "-f-", "pos"])
    nf = rnd.choice([0, 0, 1, 1, 2, 3])
    files = [rnd.choice(FILES) for _ in range(nf)]
    na = rnd.choice([0, 0, 1, 1, 2])
    args = [rnd.choice(ARGS) for _ in range(na)]
    pool = list(QUERIES)
    if files:
        pool += FILE_QUERIES * 2
        if not args:
            pool += FILE_DEP_QUERIES * 2
    if args:
        pool += ARG_DEP_QUERIES * 2
    if args or files:
        pool += POS_QUERIES
    if args and not files:
        pool += FAIL_ARG_QUERIES * 2
    if files and not args:
        pool += FAIL_FILE_QUERIES * 2
    query = rnd.choice(pool)
    if source == "pos" and query == "":
        source = "-e"
    return Case(flags, source, query, files, args)


def work(task):
    seed, start, count = task
    ev = Evidence()
    drv = Driver(timeout=120)
    try:
        handles = open_handles(drv)
        for i in range(start, start + count):
            rnd = random.Random((seed << 32) ^ (i * 2654435761 & 0xffffffff) ^ 0xC19)
            case = make_case(rnd)
            try:
                check_case(drv, ev, case, handles, i)
            except DriverCrash as e:
                ev.inconc("driver crashed while computing the expectation")
                handles = open_handles(drv)
            except DriverTimeout:
                ev.inconc("watchdog")
                handles = open_handles(drv)
    finally:
        drv.kill()
    return ev


def work_laws(task):
    """-a X == --a '"X"'; -e / -f / positional interchangeable; -H / -h."""
    seed, start, count = task
    ev = Evidence()
    for i in range(start, start + count):
        rnd = random.Random((seed << 32) ^ i ^ 0xC19C)
        q = rnd.choice(["(|A| A)", "(|A| A length)", "(|A| [A elem])", "(|A B| A B add)"])
        # X is passed verbatim: characters that mean something inside a Zwerg string literal (quote, backslash,
        # the % of format directives) have to be escaped on the --a side of the equation
        x = rnd.choice(["abc", "x y", "", "q'q", "100", "50%% off", "%s", "x%(1%)y", "%d%x", 'a"b', "back\\slash", "tab\there", "%", "100%", "(1, 2)", "\\x41"])
        n = 2 if "A B" in q else 1
        from ..render import esc_bytes
        a1 = sum([["-a", x]] * n, [])
        a2 = sum([["--a", '"%s"' % esc_bytes(x.encode())]] * n, [])
        flags = [f for f in ("-c", "-H", "-s") if rnd.random() < 0.3]
        r1 = run_cli(flags + a1 + ["-e", q], None)
        r2 = run_cli(flags + a2 + ["-e", q], None)
        ev.case(key=("a", q, x, tuple(flags)), nontrivial=True)
        ev.label("law:-a")
        if r1 != r2:
            ev.violations.append({"property": PID, "argv": flags + a1 + ["-e", q], "reason": "-a %r differs from --a '\"%s\"': %r vs %r" % (x, x, r1, r2),
                                  "signature": "C19:law-a:%s:%s" % (q, x)})
        qq = rnd.choice(QUERIES[:6] + FILE_QUERIES[:3] + QUERIES[16:])
        files = [FILES[0]] if "D" in qq else []
        qfile = os.path.join(RUN, "c19l-%d-%d.zw" % (os.getpid(), i))
        open(qfile, "w").write(qq)
        try:
            ra = run_cli(flags + ["-e", qq] + files, None)
            rb = run_cli(flags + ["-f", qfile] + files, None)
            rc_ = run_cli(flags + [qq] + files, None)
            rd = run_cli(flags + ["-f", "-"] + files, qq.encode())
        finally:
            os.unlink(qfile)
        ev.case(key=("src", qq, tuple(flags)), nontrivial=True)
        ev.label("law:sources")
        if not (ra == rb == rc_ == rd):
            ev.violations.append({"property": PID, "argv": flags + ["-e", qq] + files, "reason": "-e / -f / positional / -f - differ: %r %r %r %r" % (ra, rb, rc_, rd),
                                  "signature": "C19:law-src:" + qq})
    return ev


def main(tier, seed):
    t0 = time.time()
    setup_files()
    n = 3000 if tier == "quick" else 60000
    ev = Evidence()
    per = max(10, n // 64)
    ev.merge(run_pool(work, [(seed, s, min(per, n - s)) for s in range(0, n, per)]))
    nl = 64 if tier == "quick" else 2000
    ev.merge(run_pool(work_laws, [(seed, s, min(4, nl - s)) for s in range(0, nl, 4)]))
    return finish(PID, tier, seed, ev, RULE, t0,
                  assumptions=["the library's results for each input stack are taken from the driver (same objects, same inputs); this check judges only what the CLI does with them",
                               "queries print core values or DWARF values reduced to numbers/strings, so the value renderer (C20) is not involved beyond constants and simple strings",
                               "leak detection is off for the CLI process (LeakSanitizer would replace the exit status; leaks are C13's)"],
                  health={"all sources": all(ev.labels.get("source:" + s, 0) > 20 for s in ("-e", "-f", "-f-", "pos")),
                          "all statuses": all(ev.labels.get("rc:%d" % k, 0) > 20 for k in (0, 1, 2)),
                          "laws": ev.labels.get("law:-a", 0) > 10 and ev.labels.get("law:sources", 0) > 10,
                          "iterations whose outcome differs": ev.labels.get("iterations:match-then-none", 0) > 10
                          and ev.labels.get("iterations:none-then-match", 0) > 10,
                          "an input that fails after yielding results is followed by one that completes, with -c":
                          ev.labels.get("iterations:results-then-failure-then-an-input-that-completes with -c", 0) > 10})


def replay(path):
    import json
    rec = json.load(open(path))
    setup_files()
    rc, out, err = run_cli(rec["argv"], rec.get("stdin", "").encode("latin-1") if rec.get("stdin") else None)
    print(rc, out, err)
    return 0
