"""C16 -- address sets behave as mathematical sets of addresses.

(a) drv/h_cov.cc on libzwerg/coverage.cc alone: every subset of a 10-address universe at several
    bases (0, around 2^32, around 2^63, ending at 2^64-2), every add/remove/is_covered/
    is_overlap/intersect (start, len), + - == over all pairs (8 addresses), representation
    invariant after every operation; rapidcheck histories over pools of 64-bit points.
(b) through the engine: random set expressions over `aset add sub overlap`, every observer word
    (`?contains ?overlaps ?empty length low high range elem relem`, `==`, rendering) compared
    with a Python set model.
"""
import os, random, re, subprocess, time

from ..drv import Driver, DriverCrash, DriverTimeout, BUILD
from ..harness import Evidence, run_pool, finish

PID = "C16"
HCOV = os.path.join(BUILD, "bin", "h_cov")
RULE = ("(a) exhaustive BFS: all 2^N subsets (N=10; N=8 for pairwise + - ==) at bases 0, 2^32-5, 2^63-5, 2^64-2-N; all "
        "(start,len) operations; rapidcheck histories of <= 40 operations over <= 12 random 64-bit points.  (b) engine: "
        "random set expressions of depth <= 4 over a 14-address window at the same bases, all observer words.  Non-trivial: "
        "an operation that merges >= 2 runs, splits a run or touches an adjacent boundary (a); an expression whose value has "
        ">= 2 runs or that combines two multi-run sets (b).  Distinct (state, operation) pairs / distinct expressions.")

U64 = (1 << 64) - 1


def runs_of(s):
    """Maximal runs [(start, end)) ascending of a set of ints."""
    out = []
    for a in sorted(s):
        if out and out[-1][1] == a:
            out[-1][1] = a + 1
        else:
            out.append([a, a + 1])
    return [(a, b) for a, b in out]


class SetGen:
    def __init__(self, rnd, base, width=14):
        self.r = rnd
        self.base = base
        self.w = width

    def addr(self):
        return self.base + self.r.randint(0, self.w - 1)

    def lit(self, v):
        style = self.r.randint(0, 2)
        return ("0x%x" % v, str(v), "0x%X" % v)[style]

    def expr(self, depth):
        """Returns (text, python set)."""
        c = self.r.randint(0, 9)
        if depth == 0 or c <= 2:
            a, b = self.addr(), self.base + self.r.randint(0, self.w)
            if self.r.random() < 0.1:
                b = a
            lo, hi = min(a, b), max(a, b)
            return "%s %s aset" % (self.lit(a), self.lit(b)), set(range(lo, hi))
        if c <= 4:
            t1, s1 = self.expr(depth - 1)
            t2, s2 = self.expr(depth - 1)
            return "%s %s add" % (t1, t2), s1 | s2
        if c == 5:
            t1, s1 = self.expr(depth - 1)
            t2, s2 = self.expr(depth - 1)
            return "%s %s sub" % (t1, t2), s1 - s2
        if c == 6:
            t1, s1 = self.expr(depth - 1)
            t2, s2 = self.expr(depth - 1)
            return "%s %s overlap" % (t1, t2), s1 & s2
        if c == 7:
            t1, s1 = self.expr(depth - 1)
            a = self.addr()
            return "%s %s add" % (t1, self.lit(a)), s1 | {a}
        if c == 8:
            t1, s1 = self.expr(depth - 1)
            a = self.addr()
            return "%s %s sub" % (t1, self.lit(a)), s1 - {a}
        # union of single addresses in random order: a differently-built representation
        t1, s1 = self.expr(depth - 1)
        items = sorted(s1)
        self.r.shuffle(items)
        if not items:
            return "0 0 aset", set()
        txt = "%s %s aset" % (self.lit(items[0]), self.lit(items[0] + 1))
        for a in items[1:]:
            txt += " %s add" % self.lit(a)
        return txt, set(s1)


OBS = ("(|X| [X] [X length] [X low] [X high] [X range] [X elem] [X relem] [X ?empty] [X !empty] "
       "\"%( X %)\" [X range length] [X range low] [X elem pos] [X relem pos] [X range pos])")


def aset_runs(v):
    return [(int(a), int(a) + int(l)) for a, l in v["r"]]


def check_set(drv, ev, text, s, rnd, base, width):
    r = drv.run("%s %s" % (text, OBS), limit=10)
    def bad(why):
        ev.violations.append({"property": PID, "query": text, "reason": why,
                              "expected_runs": runs_of(s)[:20], "signature": "C16:e:" + text})
        return False
    if "cerror" in r or "error" in r or len(r.get("res", [])) != 1 or r["stderr"]:
        return bad("observer query failed: %r" % {k: (v if k != "res" else len(v)) for k, v in r.items()})
    st = r["res"][0]
    runs = runs_of(s)
    if len(st) != 15:
        return bad("unexpected stack depth %d" % len(st))
    val = st[0]["e"][0] if st[0]["t"] == "q" and len(st[0]["e"]) == 1 else {"t": "?"}
    if val["t"] != "as" or aset_runs(val) != runs:
        return bad("value is %r, expected runs %r" % (val.get("r"), runs))
    seqs = [[e for e in x["e"]] for x in st[1:9]]
    length, low, high, rng, elem, relem, isempty, notempty = seqs
    if [int(e["v"]) for e in length] != [len(s)]:
        return bad("length %r, expected %d" % ([e.get("v") for e in length], len(s)))
    exp_low = [runs[0][0]] if runs else []
    exp_high = [runs[-1][1]] if runs else []
    if [int(e["v"]) for e in low] != exp_low or [int(e["v"]) for e in high] != exp_high:
        return bad("low/high %r/%r expected %r/%r" % ([e.get("v") for e in low], [e.get("v") for e in high], exp_low, exp_high))
    if any(e["d"] not in ("hex",) and "address" not in e["d"].lower() for e in low + high + elem):
        pass
    if [aset_runs(e) for e in rng] != [[x] for x in runs]:
        return bad("range yields %r, expected %r" % ([e.get("r") for e in rng], runs))
    if [int(e["v"]) for e in elem] != sorted(s) or [int(e["v"]) for e in relem] != sorted(s, reverse=True):
        return bad("elem/relem wrong: %r / %r" % ([e["v"] for e in elem][:20], [e["v"] for e in relem][:20]))
    if [e["p"] for e in elem] != list(range(len(s))) or [e["p"] for e in relem] != list(range(len(s))):
        return bad("elem/relem positions wrong")
    if (len(isempty) == 1) != (not s) or (len(notempty) == 1) != bool(s) or len(isempty) + len(notempty) != 1:
        return bad("?empty/!empty wrong")
    # rendering: disjoint non-adjacent ascending non-empty runs
    txt = bytes.fromhex(st[9]["x"]).decode()
    exp_txt = ", ".join("[%s, %s)" % (hex(a) if a else "0", hex(b) if b else "0") for a, b in runs) if runs else "[)"
    if txt != exp_txt:
        return bad("renders as %r, expected %r" % (txt, exp_txt))
    rl, rlow, epos, rpos, rngpos = [x["e"] for x in st[10:15]]
    if [int(e["v"]) for e in rl] != [b - a for a, b in runs] or [int(e["v"]) for e in rlow] != [a for a, b in runs]:
        return bad("range length/low wrong")
    if [int(e["v"]) for e in epos] != list(range(len(s))) or [int(e["v"]) for e in rngpos] != list(range(len(runs))):
        return bad("pos of elem/range results wrong")
    # membership for every address of the window and one beyond each side
    probes = list(range(max(base - 1, 0), min(base + width + 2, U64)))
    q = "%s (|X| [(%s) (|A| X A ?contains A)] [(%s) (|A| X A !contains A)])" % (
        text, ", ".join(str(p) for p in probes), ", ".join(str(p) for p in probes))
    r = drv.run(q, limit=10)
    if "res" not in r or len(r["res"]) != 1 or r["stderr"]:
        return bad("membership query failed: %r" % {k: v for k, v in r.items() if k != "res"})
    yes = [int(e["v"]) for e in r["res"][0][0]["e"]]
    no = [int(e["v"]) for e in r["res"][0][1]["e"]]
    if yes != [p for p in probes if p in s] or no != [p for p in probes if p not in s]:
        return bad("?contains/!contains wrong: in %r not-in %r" % (yes, no))
    return True


def work_engine(task):
    seed, start, count = task
    ev = Evidence()
    drv = Driver()
    bases = [0, 3, (1 << 32) - 5, (1 << 63) - 5, U64 - 1 - 14]
    try:
        for i in range(start, start + count):
            rnd = random.Random((seed << 32) ^ (i * 2654435761 & 0xffffffff) ^ 0xC16)
            base = rnd.choice(bases)
            g = SetGen(rnd, base)
            try:
                t1, s1 = g.expr(rnd.randint(1, 4))
                ok = check_set(drv, ev, t1, s1, rnd, base, g.w)
                nt = len(runs_of(s1)) >= 2
                ev.case(key=t1, nontrivial=nt)
                ev.label("runs:%d" % min(len(runs_of(s1)), 4))
                ev.label("base:%s" % ("0" if base < 10 else "2^32" if base < 1 << 33 else "2^63" if base < 1 << 63 + 1 else "top"))
                if ok is True and nt and rnd.random() < 0.01:
                    ev.sample({"expr": t1, "runs": runs_of(s1)})
                # two sets: relations
                t2, s2 = g.expr(rnd.randint(1, 3))
                if rnd.random() < 0.4:
                    # the same set built differently
                    items = sorted(s1)
                    rnd.shuffle(items)
                    t2 = "0 0 aset" + "".join(" %d add" % a for a in items)
                    s2 = set(s1)
                    ev.label("equal-set-built-differently")
                q = ("%s %s (|X Y| [X Y ?eq] [X Y !eq] [X Y ?contains] [X Y !contains] [X Y ?overlaps] [X Y !overlaps] "
                     "[(X == Y)] [(X != Y)] [X Y ?lt] [X Y ?gt])") % (t1, t2)
                r = drv.run(q, limit=10)
                ev.case(key=("rel", t1, t2), nontrivial=len(runs_of(s1)) >= 2 and len(runs_of(s2)) >= 2)
                if "res" not in r or len(r["res"]) != 1 or r["stderr"]:
                    ev.violations.append({"property": PID, "query": q, "reason": "relation query failed: %r" % {k: v for k, v in r.items() if k != "res"},
                                          "signature": "C16:rel:" + q})
                    continue
                got = [len(x["e"]) for x in r["res"][0]]
                if len(got) != 10:
                    got = got + [0] * 10
                eq = s1 == s2
                exp = [int(eq), int(not eq), int(s2 <= s1), int(not s2 <= s1), int(bool(s1 & s2)), int(not (s1 & s2)),
                       int(eq), int(not eq)]
                if got[:8] != exp:
                    ev.violations.append({"property": PID, "query": q,
                                          "reason": "relations [eq ne contains !contains overlaps !overlaps == !=] = %r, expected %r (sets %r and %r)"
                                                    % (got[:8], exp, runs_of(s1), runs_of(s2)), "signature": "C16:rel:" + q})
                elif got[8] + got[9] != (0 if eq else 1):
                    ev.violations.append({"property": PID, "query": q, "reason": "trichotomy of < == > violated: lt=%d gt=%d eq=%s" % (got[8], got[9], eq),
                                          "signature": "C16:tri:" + q})
            except DriverCrash as ex:
                ev.violations.append({"property": PID, "query": t1, "reason": "driver crashed: " + ex.report[-2000:],
                                      "signature": "C16:crash:" + t1})
            except DriverTimeout:
                ev.inconc("watchdog")
    finally:
        drv.kill()
    return ev


def run_hcov(args, env=None):
    e = dict(os.environ)
    e["ASAN_OPTIONS"] = "abort_on_error=1:detect_leaks=1"
    e["UBSAN_OPTIONS"] = "print_stacktrace=1:halt_on_error=1"
    if env:
        e.update(env)
    p = subprocess.run([HCOV] + args, stdout=subprocess.PIPE, stderr=subprocess.PIPE, env=e)
    return p.returncode, p.stdout.decode("latin-1"), p.stderr.decode("latin-1")


def work_bfs(task):
    n, base = task
    ev = Evidence()
    rc, out, err = run_hcov(["bfs", str(n), str(base)])
    kv = dict(re.findall(r"^([A-Z]+) (\d+)$", out, re.M))
    if rc not in (0, 1) or "EVAL" not in kv:
        ev.violations.append({"property": PID, "reason": "h_cov bfs %d %d died (rc %d): %s" % (n, base, rc, (err or out)[-2000:]),
                              "signature": "C16:hcov-crash"})
        return ev
    ev.evaluations += int(kv["EVAL"])
    ev.extra["bfs_states"] = int(kv["STATES"])
    ev.extra["bfs_evaluations"] = int(kv["EVAL"])
    ev.extra["bfs_nontrivial"] = int(kv["NONTRIVIAL"])
    for l in out.splitlines():
        if l.startswith("SAMPLE "):
            ev.sample({"coverage.cc": l[7:]}, cap=4)
        if l.startswith("VIOL ") and len(ev.violations) < 5:
            ev.violations.append({"property": PID, "reason": "coverage.cc vs bitmap model (N=%d base=%d): %s" % (n, base, l[5:]),
                                  "hcov_args": ["bfs", str(n), str(base)], "signature": "C16:bfs:" + l[5:60]})
    return ev


def main(tier, seed):
    t0 = time.time()
    ev = Evidence()
    n = 10 if tier == "quick" else 12
    bases = [0, (1 << 32) - 5, (1 << 63) - 5]
    tasks = [(n, b) for b in bases] + [(n, U64 - 1 - n)] + [(8, b) for b in bases] + [(8, U64 - 1 - 8)]
    ev.merge(run_pool(work_bfs, tasks))
    ncases = 30000 if tier == "quick" else 600000
    rc, out, err = run_hcov(["random", "12"], {"RC_PARAMS": "seed=%d max_success=%d" % (seed + 1, ncases)})
    kv = dict(re.findall(r"^([A-Z]+) (\d+)$", out, re.M))
    if "Falsifiable" in out:
        ev.violations.append({"property": PID, "reason": "coverage.cc history (rapidcheck, shrunk): " + out[-1500:],
                              "signature": "C16:rc:" + out[-200:]})
    elif rc != 0 or "EVAL" not in kv:
        ev.violations.append({"property": PID, "reason": "h_cov random died (rc %d): %s" % (rc, (err or out)[-2000:]),
                              "signature": "C16:hcov-crash2"})
    ev.evaluations += int(kv.get("EVAL", 0))
    ev.extra["rapidcheck_operations"] = int(kv.get("EVAL", 0))
    ev.extra["rapidcheck_histories"] = ncases
    nt_hcov = int(ev.extra.get("bfs_nontrivial", 0)) + int(kv.get("NONTRIVIAL", 0))
    n_eng = 4000 if tier == "quick" else 120000
    per = max(100, n_eng // 48)
    ev.merge(run_pool(work_engine, [(seed, s, min(per, n_eng - s)) for s in range(0, n_eng, per)]))
    ev.extra["engine_expressions"] = n_eng
    nt_engine = len(ev.nontrivial)
    rcode = finish(PID, tier, seed, ev, RULE, t0, exhaustive=True,
                   assumptions=["bitmap / Python set as the model of an address set",
                                "address 2^64-1 is never a member (its range end is not representable; the statement excludes it)",
                                "exhaustive=true refers to the BFS sub-space"],
                   health={"bfs ran": ev.extra.get("bfs_evaluations", 0) > 0,
                           "differently-built equal sets compared": ev.labels.get("equal-set-built-differently", 0) > 0})
    import json
    from ..harness import EVIDENCE_DIR
    path = os.path.join(EVIDENCE_DIR, PID + ".json")
    doc = json.load(open(path))
    doc["coverage"]["distinct_nontrivial"] = nt_engine + nt_hcov
    doc["coverage"]["distinct_nontrivial_engine"] = nt_engine
    json.dump(doc, open(path, "w"), indent=1)
    return rcode


def replay(path):
    import json
    rec = json.load(open(path))
    if "hcov_args" in rec:
        rc, out, err = run_hcov(rec["hcov_args"])
        print(out[-3000:], err[-2000:])
        return rc
    drv = Driver()
    print(drv.run(rec["query"]))
    drv.kill()
    return 0
