"""C16 -- address sets behave as mathematical sets of addresses.

(a) drv/h_cov.cc on libzwerg/coverage.cc alone: every subset of a 10-address universe at several
    bases (0, around 2^32, around 2^63, ending at 2^64-2), every add/remove/is_covered/
    is_overlap/intersect (start, len), + - == over all pairs (8 addresses), representation
    invariant after every operation; rapidcheck histories over pools of 64-bit points.
(b) through the engine: random set expressions over `aset add sub overlap`, every observer word
    (`?contains ?overlaps ?empty length low high range elem relem`, `==`, rendering) compared
    with a Python set model; and the same over points of the whole 64-bit space (runs 2^31 .. 2^64 wide)
    against a model of runs.
"""
import os, random, re, subprocess, time

from ..drv import Driver, DriverCrash, DriverTimeout, BUILD
from ..harness import Evidence, run_pool, finish

PID = "C16"
HCOV = os.path.join(BUILD, "bin", "h_cov")
RULE = ("(a) exhaustive BFS: all 2^N subsets (N=10; N=8 for pairwise + - ==) at bases 0, 2^32-5, 2^63-5, 2^64-2-N; all "
        "(start,len) operations; rapidcheck histories of <= 40 operations over <= 12 random 64-bit points.  (b) engine: "
        "random set expressions of depth <= 4 over a 14-address window at the same bases, all observer words.  Non-trivial: "
        "an operation that merges >= 2 runs, splits a run or touches an adjacent boundary (a); an expression whose value has "
        ">= 2 runs or that combines two multi-run sets (b).  Distinct (state, operation) pairs / distinct expressions.")

U64 = (1 << 64) - 1


def runs_of(s):
    """Maximal runs [(start, end)) ascending of a set of ints."""
    out = []
    for a in sorted(s):
        if out and out[-1][1] == a:
            out[-1][1] = a + 1
        else:
            out.append([a, a + 1])
    return [(a, b) for a, b in out]


class SetGen:
    def __init__(self, rnd, base, width=14):
        self.r = rnd
        self.base = base
        self.w = width

    def addr(self):
        return self.base + self.r.randint(0, self.w - 1)

    def lit(self, v):
        style = self.r.randint(0, 2)
        return ("0x%x" % v, str(v), "0x%X" % v)[style]

    def expr(self, depth):
        """Returns (text, python set)."""
        c = self.r.randint(0, 9)
        if depth == 0 or c <= 2:
            a, b = self.addr(), self.base + self.r.randint(0, self.w)
            if self.r.random() < 0.1:
                b = a
            lo, hi = min(a, b), max(a, b)
            return "%s %s aset" % (self.lit(a), self.lit(b)), set(range(lo, hi))
        if c <= 4:
            t1, s1 = self.expr(depth - 1)
            t2, s2 = self.expr(depth - 1)
            return "%s %s add" % (t1, t2), s1 | s2
        if c == 5:
            t1, s1 = self.expr(depth - 1)
            t2, s2 = self.expr(depth - 1)
            return "%s %s sub" % (t1, t2), s1 - s2
        if c == 6:
            t1, s1 = self.expr(depth - 1)
            t2, s2 = self.expr(depth - 1)
            return "%s %s overlap" % (t1, t2), s1 & s2
        if c == 7:
            t1, s1 = self.expr(depth - 1)
            a = self.addr()
            return "%s %s add" % (t1, self.lit(a)), s1 | {a}
        if c == 8:
            t1, s1 = self.expr(depth - 1)
            a = self.addr()
            return "%s %s sub" % (t1, self.lit(a)), s1 - {a}
        # union of single addresses in random order: a differently-built representation
        t1, s1 = self.expr(depth - 1)
        items = sorted(s1)
        self.r.shuffle(items)
        if not items:
            return "0 0 aset", set()
        txt = "%s %s aset" % (self.lit(items[0]), self.lit(items[0] + 1))
        for a in items[1:]:
            txt += " %s add" % self.lit(a)
        return txt, set(s1)


OBS = ("(|X| [X] [X length] [X low] [X high] [X range] [X elem] [X relem] [X ?empty] [X !empty] "
       "\"%( X %)\" [X range length] [X range low] [X elem pos] [X relem pos] [X range pos])")


def aset_runs(v):
    return [(int(a), int(a) + int(l)) for a, l in v["r"]]


def check_set(drv, ev, text, s, rnd, base, width):
    r = drv.run("%s %s" % (text, OBS), limit=10)
    def bad(why):
        ev.violations.append({"property": PID, "query": text, "reason": why,
                              "expected_runs": runs_of(s)[:20], "signature": "C16:e:" + text})
        return False
    if "cerror" in r or "error" in r or len(r.get("res", [])) != 1 or r["stderr"]:
        return bad("observer query failed: %r" % {k: (v if k != "res" else len(v)) for k, v in r.items()})
    st = r["res"][0]
    runs = runs_of(s)
    if len(st) != 15:
        return bad("unexpected stack depth %d" % len(st))
    val = st[0]["e"][0] if st[0]["t"] == "q" and len(st[0]["e"]) == 1 else {"t": "?"}
    if val["t"] != "as" or aset_runs(val) != runs:
        return bad("value is %r, expected runs %r" % (val.get("r"), runs))
    seqs = [[e for e in x["e"]] for x in st[1:9]]
    length, low, high, rng, elem, relem, isempty, notempty = seqs
    if [int(e["v"]) for e in length] != [len(s)]:
        return bad("length %r, expected %d" % ([e.get("v") for e in length], len(s)))
    exp_low = [runs[0][0]] if runs else []
    exp_high = [runs[-1][1]] if runs else []
    if [int(e["v"]) for e in low] != exp_low or [int(e["v"]) for e in high] != exp_high:
        return bad("low/high %r/%r expected %r/%r" % ([e.get("v") for e in low], [e.get("v") for e in high], exp_low, exp_high))
    if any(e["d"] not in ("hex",) and "address" not in e["d"].lower() for e in low + high + elem):
        pass
    if [aset_runs(e) for e in rng] != [[x] for x in runs]:
        return bad("range yields %r, expected %r" % ([e.get("r") for e in rng], runs))
    if [int(e["v"]) for e in elem] != sorted(s) or [int(e["v"]) for e in relem] != sorted(s, reverse=True):
        return bad("elem/relem wrong: %r / %r" % ([e["v"] for e in elem][:20], [e["v"] for e in relem][:20]))
    if [e["p"] for e in elem] != list(range(len(s))) or [e["p"] for e in relem] != list(range(len(s))):
        return bad("elem/relem positions wrong")
    if (len(isempty) == 1) != (not s) or (len(notempty) == 1) != bool(s) or len(isempty) + len(notempty) != 1:
        return bad("?empty/!empty wrong")
    # rendering: disjoint non-adjacent ascending non-empty runs
    txt = bytes.fromhex(st[9]["x"]).decode()
    exp_txt = ", ".join("[%s, %s)" % (hex(a) if a else "0", hex(b) if b else "0") for a, b in runs) if runs else "[)"
    if txt != exp_txt:
        return bad("renders as %r, expected %r" % (txt, exp_txt))
    rl, rlow, epos, rpos, rngpos = [x["e"] for x in st[10:15]]
    if [int(e["v"]) for e in rl] != [b - a for a, b in runs] or [int(e["v"]) for e in rlow] != [a for a, b in runs]:
        return bad("range length/low wrong")
    if [int(e["v"]) for e in epos] != list(range(len(s))) or [int(e["v"]) for e in rngpos] != list(range(len(runs))):
        return bad("pos of elem/range results wrong")
    # membership for every address of the window and one beyond each side
    probes = list(range(max(base - 1, 0), min(base + width + 2, U64)))
    q = "%s (|X| [(%s) (|A| X A ?contains A)] [(%s) (|A| X A !contains A)])" % (
        text, ", ".join(str(p) for p in probes), ", ".join(str(p) for p in probes))
    r = drv.run(q, limit=10)
    if "res" not in r or len(r["res"]) != 1 or r["stderr"]:
        return bad("membership query failed: %r" % {k: v for k, v in r.items() if k != "res"})
    yes = [int(e["v"]) for e in r["res"][0][0]["e"]]
    no = [int(e["v"]) for e in r["res"][0][1]["e"]]
    if yes != [p for p in probes if p in s] or no != [p for p in probes if p not in s]:
        return bad("?contains/!contains wrong: in %r not-in %r" % (yes, no))
    return True


def work_engine(task):
    seed, start, count = task
    ev = Evidence()
    drv = Driver()
    bases = [0, 3, (1 << 32) - 5, (1 << 63) - 5, U64 - 1 - 14]
    try:
        for i in range(start, start + count):
            rnd = random.Random((seed << 32) ^ (i * 2654435761 & 0xffffffff) ^ 0xC16)
            base = rnd.choice(bases)
            g = SetGen(rnd, base)
            try:
                t1, s1 = g.expr(rnd.randint(1, 4))
                ok = check_set(drv, ev, t1, s1, rnd, base, g.w)
                nt = len(runs_of(s1)) >= 2
                ev.case(key=t1, nontrivial=nt)
                ev.label("runs:%d" % min(len(runs_of(s1)), 4))
                ev.label("base:%s" % ("0" if base < 10 else "2^32" if base < 1 << 33 else "2^63" if base < 1 << 63 + 1 else "top"))
                if ok is True and nt and rnd.random() < 0.01:
                    ev.sample({"expr": t1, "runs": runs_of(s1)})
                # two sets: relations
                t2, s2 = g.expr(rnd.randint(1, 3))
                if rnd.random() < 0.4:
                    # the same set built differently
                    items = sorted(s1)
                    rnd.shuffle(items)
                    t2 = "0 0 aset" + "".join(" %d add" % a for a in items)
                    s2 = set(s1)
                    ev.label("equal-set-built-differently")
                elif rnd.random() < 0.5 and len(runs_of(s1)) >= 2:
                    # almost the same set: the same runs at the same starts, one of them (not necessarily the last) an
                    # address shorter or longer
                    rs = runs_of(s1)
                    a, b = rnd.choice(rs)
                    if rnd.random() < 0.5 and b - a >= 2:
                        t2, s2 = "%s %d sub" % (t1, b - 1), s1 - {b - 1}
                    elif b not in s1 and b + 1 not in s1 and b < U64 - 1:
                        t2, s2 = "%s %d add" % (t1, b), s1 | {b}
                    if len(runs_of(s2)) == len(rs) and s2 != s1:
                        ev.label("same-starts-one-run-differs")
                q = ("%s %s (|X Y| [X Y ?eq] [X Y !eq] [X Y ?contains] [X Y !contains] [X Y ?overlaps] [X Y !overlaps] "
                     "[(X == Y)] [(X != Y)] [X Y ?lt] [X Y ?gt])") % (t1, t2)
                r = drv.run(q, limit=10)
                ev.case(key=("rel", t1, t2), nontrivial=len(runs_of(s1)) >= 2 and len(runs_of(s2)) >= 2)
                if "res" not in r or len(r["res"]) != 1 or r["stderr"]:
                    ev.violations.append({"property": PID, "query": q, "reason": "relation query failed: %r" % {k: v for k, v in r.items() if k != "res"},
                                          "signature": "C16:rel:" + q})
                    continue
                got = [len(x["e"]) for x in r["res"][0]]
                if len(got) != 10:
                    got = got + [0] * 10
                eq = s1 == s2
                exp = [int(eq), int(not eq), int(s2 <= s1), int(not s2 <= s1), int(bool(s1 & s2)), int(not (s1 & s2)),
                       int(eq), int(not eq)]
                if got[:8] != exp:
                    ev.violations.append({"property": PID, "query": q,
                                          "reason": "relations [eq ne contains !contains overlaps !overlaps == !=] = %r, expected %r (sets %r and %r)"
                                                    % (got[:8], exp, runs_of(s1), runs_of(s2)), "signature": "C16:rel:" + q})
                elif got[8] + got[9] != (0 if eq else 1):
                    ev.violations.append({"property": PID, "query": q, "reason": "trichotomy of < == > violated: lt=%d gt=%d eq=%s" % (got[8], got[9], eq),
                                          "signature": "C16:tri:" + q})
            except DriverCrash as ex:
                ev.violations.append({"property": PID, "query": t1, "reason": "driver crashed: " + ex.report[-2000:],
                                      "signature": "C16:crash:" + t1})
            except DriverTimeout:
                ev.inconc("watchdog")
    finally:
        drv.kill()
    return ev


# ---- wide sets: the same laws where the runs are 2^31 .. 2^64 addresses wide (a model of runs, not of elements)

def inorm(runs):
    out = []
    for a, b in sorted(r for r in runs if r[0] < r[1]):
        if out and out[-1][1] >= a:
            out[-1][1] = max(out[-1][1], b)
        else:
            out.append([a, b])
    return [(a, b) for a, b in out]


def iunion(x, y):
    return inorm(list(x) + list(y))


def iinter(x, y):
    return inorm([(max(a, c), min(b, d)) for a, b in x for c, d in y])


def idiff(x, y):
    out = list(x)
    for c, d in y:
        nxt = []
        for a, b in out:
            nxt += [(a, min(b, c)), (max(a, d), b)]
        out = [r for r in nxt if r[0] < r[1]]
    return inorm(out)


POINTS = [0, 1, 5, (1 << 31) - 1, 1 << 31, (1 << 31) + 3, (1 << 32) - 1, 1 << 32, (1 << 32) + 7, 1 << 33, 3 << 40, (1 << 63) - 1, 1 << 63,
          (1 << 63) + 9, U64 + 1 - (1 << 32), U64 - 3, U64 - 2, U64 - 1, U64]


class WideGen:
    def __init__(self, rnd):
        self.r = rnd

    def pt(self, top=U64):
        p = self.r.choice(POINTS)
        if self.r.random() < 0.3:
            p = max(0, min(U64, p + self.r.randint(-3, 3)))
        return min(p, top)

    def lit(self, v):
        return ("0x%x" % v, str(v))[self.r.randint(0, 1)]

    def expr(self, depth):
        c = self.r.randint(0, 8)
        if depth == 0 or c <= 2:
            a, b = self.pt(), self.pt()
            return "%s %s aset" % (self.lit(a), self.lit(b)), inorm([(min(a, b), max(a, b))])
        t1, s1 = self.expr(depth - 1)
        if c <= 6:
            t2, s2 = self.expr(depth - 1)
            if c <= 4:
                return "%s %s add" % (t1, t2), iunion(s1, s2)
            if c == 5:
                return "%s %s sub" % (t1, t2), idiff(s1, s2)
            return "%s %s overlap" % (t1, t2), iinter(s1, s2)
        a = self.pt(U64 - 1)
        if c == 7:
            return "%s %s add" % (t1, self.lit(a)), iunion(s1, [(a, a + 1)])
        return "%s %s sub" % (t1, self.lit(a)), idiff(s1, [(a, a + 1)])


WOBS = ("(|X| [X] [X length] [X low] [X high] [X range] [X ?empty] [X !empty] \"%( X %)\" [X range length] [X range low] "
        "[X range high] [X range pos])")


def check_wide(drv, ev, text, runs, rnd):
    def bad(why):
        ev.violations.append({"property": PID, "query": text, "reason": why, "expected_runs": [[str(a), str(b)] for a, b in runs[:20]],
                              "signature": "C16:w:" + text})
        return False
    r = drv.run("%s %s" % (text, WOBS), limit=10)
    if "cerror" in r or "error" in r or len(r.get("res", [])) != 1 or r["stderr"] or len(r["res"][0]) != 12:
        return bad("observer query failed: %r" % {k: (v if k != "res" else len(v)) for k, v in r.items()})
    st = r["res"][0]
    val = st[0]["e"][0] if st[0]["t"] == "q" and len(st[0]["e"]) == 1 else {"t": "?"}
    if val["t"] != "as" or aset_runs(val) != runs:
        return bad("value is %r, expected runs %r" % (val.get("r"), runs))
    ints = lambda x: [int(e["v"]) for e in x["e"]]
    total = sum(b - a for a, b in runs)
    if ints(st[1]) != [total]:
        return bad("length %r, the set has %d addresses" % (ints(st[1]), total))
    if ints(st[2]) != ([runs[0][0]] if runs else []) or ints(st[3]) != ([runs[-1][1]] if runs else []):
        return bad("low/high %r/%r of runs %r" % (ints(st[2]), ints(st[3]), runs))
    if [aset_runs(e) for e in st[4]["e"]] != [[x] for x in runs]:
        return bad("range yields %r, expected %r" % ([e.get("r") for e in st[4]["e"]], runs))
    if (len(st[5]["e"]) == 1) != (not runs) or len(st[5]["e"]) + len(st[6]["e"]) != 1:
        return bad("?empty/!empty wrong")
    txt = bytes.fromhex(st[7]["x"]).decode()
    exp_txt = ", ".join("[%s, %s)" % (hex(a) if a else "0", hex(b) if b else "0") for a, b in runs) if runs else "[)"
    if txt != exp_txt:
        return bad("renders as %r, expected %r" % (txt, exp_txt))
    if ints(st[8]) != [b - a for a, b in runs] or ints(st[9]) != [a for a, b in runs] or ints(st[10]) != [b for a, b in runs] \
            or ints(st[11]) != list(range(len(runs))):
        return bad("range length/low/high/pos wrong: %r %r %r %r for runs %r" % (ints(st[8]), ints(st[9]), ints(st[10]), ints(st[11]), runs))
    # the first few members in both directions (all of them cannot be waited for): `elem` starts at the lowest
    # address and counts up, `relem` at the highest and counts down, runs of any length
    def first(rs, k, back):
        out = []
        for a, b in (reversed(rs) if back else rs):
            for j in range(min(k - len(out), b - a)):
                out.append(b - 1 - j if back else a + j)
            if len(out) >= k:
                break
        return out
    for word, back in (("elem", False), ("relem", True)):
        rr = drv.run("%s %s" % (text, word), limit=5)
        got = [int(s_[-1]["v"]) for s_ in rr.get("res", [])]
        pos = [s_[-1]["p"] for s_ in rr.get("res", [])]
        want = first(runs, 5, back)
        if "error" in rr or got != want or pos != list(range(len(want))):
            return bad("the first members yielded by %s are %r at positions %r, the set %s with %r" % (word, got, pos, "ends" if back else "starts", want))
    probes = sorted(set(p for a, b in runs for p in (a - 1, a, b - 1, b) if 0 <= p < U64) | set(rnd.sample(POINTS[:-1], 4)))
    q = "%s (|X| [(%s) (|A| X A ?contains A)] [(%s) (|A| X A !contains A)])" % (text, ", ".join(map(str, probes)), ", ".join(map(str, probes)))
    r = drv.run(q, limit=10)
    if "res" not in r or len(r["res"]) != 1 or r["stderr"]:
        return bad("membership query failed: %r" % {k: v for k, v in r.items() if k != "res"})
    inside = lambda p: any(a <= p < b for a, b in runs)
    if ints(r["res"][0][0]) != [p for p in probes if inside(p)] or ints(r["res"][0][1]) != [p for p in probes if not inside(p)]:
        return bad("?contains/!contains wrong on probes %r: in %r" % (probes, ints(r["res"][0][0])))
    return True


def work_wide(task):
    seed, start, count = task
    ev = Evidence()
    drv = Driver()
    try:
        for i in range(start, start + count):
            rnd = random.Random((seed << 32) ^ (i * 2654435761 & 0xffffffff) ^ 0xC16F)
            g = WideGen(rnd)
            try:
                t1, s1 = g.expr(rnd.randint(1, 3))
                ok = check_wide(drv, ev, t1, s1, rnd)
                total = sum(b - a for a, b in s1)
                ev.case(key=("wide", t1), nontrivial=total >= 1 << 31)
                ev.label("wide:" + ("<2^31" if total < 1 << 31 else "<2^32" if total < 1 << 32 else "<2^63" if total < 1 << 63 else ">=2^63"))
                if len(s1) >= 2 and total >= 1 << 31:
                    ev.label("wide:several-runs")
                if ok is True and total >= 1 << 31 and rnd.random() < 0.01:
                    ev.sample({"expr": t1, "runs": [[hex(a), hex(b)] for a, b in s1]})
                t2, s2 = g.expr(rnd.randint(1, 2))
                if rnd.random() < 0.3:
                    parts = list(s1)
                    rnd.shuffle(parts)
                    t2 = "0 0 aset" + "".join(" %d %d aset add" % (a, b) for a, b in parts)
                    s2 = list(s1)
                q = ("%s %s (|X Y| [X Y ?eq] [X Y !eq] [X Y ?contains] [X Y !contains] [X Y ?overlaps] [X Y !overlaps] "
                     "[(X == Y)] [(X != Y)] [X Y ?lt] [X Y ?gt] [Y X ?lt] [Y X ?gt])") % (t1, t2)
                r = drv.run(q, limit=10)
                ev.case(key=("wrel", t1, t2), nontrivial=True)
                if "res" not in r or len(r["res"]) != 1 or r["stderr"] or len(r["res"][0]) != 12:
                    ev.violations.append({"property": PID, "query": q, "reason": "relation query failed: %r" % {k: v for k, v in r.items() if k != "res"},
                                          "signature": "C16:wrel:" + q})
                    continue
                got = [len(x["e"]) for x in r["res"][0]]
                eq = s1 == s2
                exp = [int(eq), int(not eq), int(idiff(s2, s1) == []), int(idiff(s2, s1) != []), int(bool(iinter(s1, s2))), int(not iinter(s1, s2)),
                       int(eq), int(not eq)]
                if got[:8] != exp:
                    ev.violations.append({"property": PID, "query": q, "signature": "C16:wrel:" + q,
                                          "reason": "relations [eq ne contains !contains overlaps !overlaps == !=] = %r, expected %r (sets %r and %r)" % (got[:8], exp, s1, s2)})
                elif got[8] + got[9] != (0 if eq else 1) or got[8] != got[11] or got[9] != got[10]:
                    ev.violations.append({"property": PID, "query": q, "signature": "C16:wtri:" + q,
                                          "reason": "order of sets is not a total order: X<Y %d X>Y %d Y<X %d Y>X %d, equal: %s" % (got[8], got[9], got[10], got[11], eq)})
            except DriverCrash as ex:
                ev.violations.append({"property": PID, "query": t1, "reason": "driver crashed: " + ex.report[-2000:], "signature": "C16:crash:" + t1})
            except DriverTimeout:
                ev.inconc("watchdog")
    finally:
        drv.kill()
    return ev


def run_hcov(args, env=None):
    e = dict(os.environ)
    e["ASAN_OPTIONS"] = "abort_on_error=1:detect_leaks=1"
    e["UBSAN_OPTIONS"] = "print_stacktrace=1:halt_on_error=1"
    if env:
        e.update(env)
    p = subprocess.run([HCOV] + args, stdout=subprocess.PIPE, stderr=subprocess.PIPE, env=e)
    return p.returncode, p.stdout.decode("latin-1"), p.stderr.decode("latin-1")


def work_bfs(task):
    n, base = task
    ev = Evidence()
    rc, out, err = run_hcov(["bfs", str(n), str(base)])
    kv = dict(re.findall(r"^([A-Z]+) (\d+)$", out, re.M))
    if rc not in (0, 1) or "EVAL" not in kv:
        ev.violations.append({"property": PID, "reason": "h_cov bfs %d %d died (rc %d): %s" % (n, base, rc, (err or out)[-2000:]),
                              "signature": "C16:hcov-crash"})
        return ev
    ev.evaluations += int(kv["EVAL"])
    ev.extra["bfs_states"] = int(kv["STATES"])
    ev.extra["bfs_evaluations"] = int(kv["EVAL"])
    ev.extra["bfs_nontrivial"] = int(kv["NONTRIVIAL"])
    for l in out.splitlines():
        if l.startswith("SAMPLE "):
            ev.sample({"coverage.cc": l[7:]}, cap=4)
        if l.startswith("VIOL ") and len(ev.violations) < 5:
            ev.violations.append({"property": PID, "reason": "coverage.cc vs bitmap model (N=%d base=%d): %s" % (n, base, l[5:]),
                                  "hcov_args": ["bfs", str(n), str(base)], "signature": "C16:bfs:" + l[5:60]})
    return ev


def main(tier, seed):
    t0 = time.time()
    ev = Evidence()
    n = 10 if tier == "quick" else 12
    bases = [0, (1 << 32) - 5, (1 << 63) - 5]
    tasks = [(n, b) for b in bases] + [(n, U64 - 1 - n)] + [(8, b) for b in bases] + [(8, U64 - 1 - 8)]
    ev.merge(run_pool(work_bfs, tasks))
    ncases = 30000 if tier == "quick" else 600000
    rc, out, err = run_hcov(["random", "12"], {"RC_PARAMS": "seed=%d max_success=%d" % (seed + 1, ncases)})
    kv = dict(re.findall(r"^([A-Z]+) (\d+)$", out, re.M))
    if "Falsifiable" in out:
        ev.violations.append({"property": PID, "reason": "coverage.cc history (rapidcheck, shrunk): " + out[-1500:],
                              "signature": "C16:rc:" + out[-200:]})
    elif rc != 0 or "EVAL" not in kv:
        ev.violations.append({"property": PID, "reason": "h_cov random died (rc %d): %s" % (rc, (err or out)[-2000:]),
                              "signature": "C16:hcov-crash2"})
    ev.evaluations += int(kv.get("EVAL", 0))
    ev.extra["rapidcheck_operations"] = int(kv.get("EVAL", 0))
    ev.extra["rapidcheck_histories"] = ncases
    nt_hcov = int(ev.extra.get("bfs_nontrivial", 0)) + int(kv.get("NONTRIVIAL", 0))
    n_eng = 4000 if tier == "quick" else 120000
    per = max(100, n_eng // 48)
    ev.merge(run_pool(work_engine, [(seed, s, min(per, n_eng - s)) for s in range(0, n_eng, per)]))
    ev.extra["engine_expressions"] = n_eng
    n_wide = 3000 if tier == "quick" else 60000
    per = max(50, n_wide // 48)
    ev.merge(run_pool(work_wide, [(seed, s, min(per, n_wide - s)) for s in range(0, n_wide, per)]))
    ev.extra["engine_wide_expressions"] = n_wide
    nt_engine = len(ev.nontrivial)
    rcode = finish(PID, tier, seed, ev, RULE, t0, exhaustive=True,
                   assumptions=["bitmap / Python set as the model of an address set",
                                "address 2^64-1 is never a member (its range end is not representable; the statement excludes it)",
                                "exhaustive=true refers to the BFS sub-space"],
                   health={"bfs ran": ev.extra.get("bfs_evaluations", 0) > 0,
                           "differently-built equal sets compared": ev.labels.get("equal-set-built-differently", 0) > 0,
                           "pairs of sets that differ in the length of one run only": ev.labels.get("same-starts-one-run-differs", 0) > 80,
                           "wide sets: totals in [2^31, 2^32), [2^32, 2^63) and beyond, also made of several runs":
                           all(ev.labels.get("wide:" + k, 0) > 50 for k in ("<2^32", "<2^63", ">=2^63", "several-runs"))})
    import json
    from ..harness import EVIDENCE_DIR
    path = os.path.join(EVIDENCE_DIR, PID + ".json")
    doc = json.load(open(path))
    doc["coverage"]["distinct_nontrivial"] = nt_engine + nt_hcov
    doc["coverage"]["distinct_nontrivial_engine"] = nt_engine
    json.dump(doc, open(path, "w"), indent=1)
    return rcode


def replay(path):
    import json
    rec = json.load(open(path))
    if "hcov_args" in rec:
        rc, out, err = run_hcov(rec["hcov_args"])
        print(out[-3000:], err[-2000:])
        return rc
    drv = Driver()
    print(drv.run(rec["query"]))
    drv.kill()
    return 0
