"""C07 -- attribute values decode to the right type, value, sign and constant domain.

Generated compile units in which every DIE carries one attribute under test (first in the DIE)
in one (attribute class x form x value) combination:
  strings (string/strp/line_strp; every byte but NUL), references (ref1/2/4/8/udata/addr),
  flags, addresses, section offsets, enumerated attributes (language, encoding, accessibility,
  visibility, virtuality, identifier_case, calling_convention, inline, ordering, decimal_sign,
  address_class, endianity, defaulted), line/column numbers, integral attributes in every
  fixed-size and LEB form at the boundary values 0, +-1, 2^(8k-1)-1, 2^(8k-1), 2^(8k)-1,
  DW_AT_const_value on variables / enumerators / template value parameters whose type is each
  DW_ATE_*, pointer, enumeration with and without underlying type, typedef/cv chains, in data,
  LEB and block forms, and location expressions.
Each attribute is evaluated in an execution of its own (an uninterpreted one ends the result set
with an error, which the statement allows).  Oracle: the model; exact where the statement is
exact, a validity predicate (stored bits read as unsigned or as two's complement of the form's
width) where the statement does not fix the signedness; uninterpreted combinations must produce
a diagnostic or an error, not a number.
"""
import os, random, struct, time

from ..dwgen import Attr, Die, Unit, Forest, AbbrevTable, TAG, AT, FORM, ATE, build_file, uleb, sleb
from ..dwcheck import TempElf
from ..drv import Driver, DriverCrash, DriverTimeout
from ..harness import Evidence, run_pool, finish

PID = "C07"
RULE = ("per generated file ~150-300 test DIEs drawn from the classes above, DWARF version 2-5 per file; each (DIE, attribute) "
        "evaluated separately with `entry (offset == O) attribute ?0 value` raw and cooked and with @AT_x.  Non-trivial: the "
        "value has the top bit of its width set, or the type chain has >= 2 hops, or the form is not one of data1/strp/ref4.  "
        "Distinct by (attribute, form, stored bytes, type shape).")

HEXDOMS = ("hex", "Dwarf_Address", "Dwarf_Off")
ENUMERATED = {
    "language": ("DW_LANG_", [1, 2, 4, 0x0c, 0x1a]), "encoding": ("DW_ATE_", [1, 2, 5, 7, 8]), "accessibility": ("DW_ACCESS_", [1, 2, 3]),
    "visibility": ("DW_VIS_", [1, 2, 3]), "virtuality": ("DW_VIRTUALITY_", [0, 1, 2]), "identifier_case": ("DW_ID_", [0, 1, 2, 3]),
    "calling_convention": ("DW_CC_", [1, 2, 3]), "inline": ("DW_INL_", [0, 1, 2, 3]), "ordering": ("DW_ORD_", [0, 1]),
    "decimal_sign": ("DW_DS_", [1, 2, 3, 4, 5]), "address_class": ("DW_ADDR_", [0]), "endianity": ("DW_END_", [0, 1, 2]),
    "defaulted": ("DW_DEFAULTED_", [0, 1, 2]),
}
UNSIGNED_ATS = ["byte_size", "bit_size", "upper_bound", "lower_bound", "count", "data_bit_offset", "alignment", "rank", "start_scope"]
SIGNED_ATS = ["byte_stride", "bit_stride"]
# every attribute name that is decoded as a location (also in the block forms of DWARF 2 and 3)
LOC_ATS = ["location", "frame_base", "data_member_location", "data_location", "return_addr", "segment", "static_link", "use_location", "vtable_elem_location"]


class Exp:
    """Expected outcome of `value`."""

    def __init__(self, kind, **kw):
        self.kind = kind        # str | die | const | const-either | error-or-diagnostic | loc
        self.__dict__.update(kw)


def width_values(k):
    """Boundary bit patterns for a k-byte field."""
    full = (1 << (8 * k)) - 1
    return sorted(set([0, 1, 2, (1 << (8 * k - 1)) - 1, 1 << (8 * k - 1), (1 << (8 * k - 1)) + 1, full - 1, full]))


def fixed_form(k):
    return {1: "data1", 2: "data2", 4: "data4", 8: "data8"}[k]


def signed_of(bits, k):
    return bits - (1 << (8 * k)) if bits >> (8 * k - 1) else bits


class Builder:
    def __init__(self, rnd, version, big=False):
        self.r = rnd
        self.v = version
        self.big = big       # a big-endian file: fixed-size forms and the bytes of blocks are stored most significant byte first
        self.cases = []      # (die, Exp, description, nontrivial)
        self.types = {}
        self.top = []

    def base_type(self, enc, size=4):
        key = ("base", enc, size)
        if key not in self.types:
            d = Die(TAG["base_type"], [Attr(AT["name"], FORM["string"], b"t%d_%d" % (enc, size)), Attr(AT["byte_size"], FORM["data1"], size),
                                       Attr(AT["encoding"], FORM["data1"], enc)])
            self.types[key] = d
            self.top.append(d)
        return self.types[key]

    def wrap(self, t, kinds):
        for k in kinds:
            d = Die(TAG[k], [Attr(AT["type"], FORM["ref4"], t)] + ([Attr(AT["name"], FORM["string"], b"td")] if k == "typedef" else []))
            self.top.append(d)
            t = d
        return t

    def add(self, die, exp, desc, nt, where=None):
        (where.children if where is not None else self.top).append(die)
        if where is not None:
            where.has_children = True
        self.cases.append((die, exp, desc, nt))

    # ---- classes -------------------------------------------------------------------------
    def strings(self):
        alphabet = [bytes([b]) for b in range(1, 256)]
        for _ in range(6):
            n = self.r.choice([0, 1, 3, 17])
            s = b"".join(self.r.choice(alphabet) for _ in range(n))
            forms = ["string", "strp"] + (["line_strp"] if self.v >= 5 else [])
            f = self.r.choice(forms)
            at = self.r.choice(["name", "producer", "comp_dir", "linkage_name"])
            self.add(Die(TAG["variable"], [Attr(AT[at], FORM[f], s)]), Exp("str", data=s), "%s/%s %r" % (at, f, s[:8]), f != "strp" or any(b >= 0x80 for b in s))

    def refs(self):
        target = self.base_type(ATE["signed"])
        for f in ["ref1", "ref2", "ref4", "ref8", "ref_udata", "ref_addr"]:
            at = self.r.choice(["type", "specification", "abstract_origin", "containing_type", "object_pointer"])
            self.add(Die(TAG["variable"], [Attr(AT[at], FORM[f], target)]), Exp("die", target=target), "%s/%s" % (at, f), f != "ref4")

    def flags(self):
        for val in (0, 1, 2, 255):
            at = self.r.choice(["external", "declaration", "artificial", "prototyped", "is_optional", "explicit"])
            self.add(Die(TAG["subprogram"], [Attr(AT[at], FORM["flag"], val)]), Exp("const", value=1 if val else 0, doms=("bool",)), "%s/flag %d" % (at, val), val > 1)
        if self.v >= 4:
            self.add(Die(TAG["subprogram"], [Attr(AT["external"], FORM["flag_present"])]), Exp("const", value=1, doms=("bool",)), "external/flag_present", True)

    def addresses(self):
        for val in (0, 1, 0x400000, (1 << 63) - 1, 1 << 63, (1 << 64) - 1):
            at = self.r.choice(["low_pc", "entry_pc", "high_pc"])
            self.add(Die(TAG["subprogram"], [Attr(AT[at], FORM["addr"], val)]), Exp("const", value=val, doms=HEXDOMS), "%s/addr %#x" % (at, val), val >= 1 << 63)
        for val in (0, 0x10, 0x3f):
            if self.v >= 4:
                self.add(Die(TAG["compile_unit"] if False else TAG["lexical_block"], [Attr(AT["stmt_list"], FORM["sec_offset"], val)]),
                         Exp("const", value=val, doms=HEXDOMS), "stmt_list/sec_offset %#x" % val, True)
            self.add(Die(TAG["lexical_block"], [Attr(AT["stmt_list"], FORM["data4"], val)]), Exp("const", value=val, doms=HEXDOMS), "stmt_list/data4 %#x" % val, val > 0x7fffffff)

    def enumerated(self):
        for at, (dom, vals) in ENUMERATED.items():
            for _ in range(2):
                val = self.r.choice(vals)
                f = self.r.choice(["data1", "data1", "data2", "data4", "udata", "sdata"] + (["implicit_const"] if self.v >= 5 else []))
                self.add(Die(TAG["variable"], [Attr(AT[at], FORM[f], val)]), Exp("const", value=val, doms=(dom,)), "%s/%s %d" % (at, f, val), f != "data1")

    def lines(self):
        for at in ("decl_line", "call_line", "decl_column", "call_column"):
            for _ in range(2):
                k = self.r.choice([1, 2, 4])
                bits = self.r.choice(width_values(k))
                self.add(Die(TAG["variable"], [Attr(AT[at], FORM[fixed_form(k)], bits)]), Exp("const", value=bits, arith=True), "%s/%s %#x" % (at, fixed_form(k), bits),
                         bits >> (8 * k - 1) == 1)

    def integrals(self):
        for at in UNSIGNED_ATS + SIGNED_ATS:
            signed_attr = at in SIGNED_ATS
            for _ in range(2):
                c = self.r.randint(0, 5)
                if c <= 3:
                    k = [1, 2, 4, 8][c]
                    bits = self.r.choice(width_values(k))
                    top = bits >> (8 * k - 1) == 1
                    if signed_attr:
                        exp = Exp("const", value=signed_of(bits, k), arith=True)
                    else:
                        exp = Exp("const-either", values=(bits, signed_of(bits, k)), arith=True)
                    self.add(Die(TAG["subrange_type"], [Attr(AT[at], FORM[fixed_form(k)], bits)]), exp, "%s/%s %#x" % (at, fixed_form(k), bits), top or k > 1)
                elif c == 4:
                    v = self.r.choice([0, 1, 127, 128, 16383, 16384, (1 << 63) - 1, (1 << 64) - 1])
                    self.add(Die(TAG["subrange_type"], [Attr(AT[at], FORM["udata"], v)]), Exp("const", value=v, arith=True), "%s/udata %d" % (at, v), True)
                else:
                    v = self.r.choice([0, -1, 1, 63, 64, -64, -65, (1 << 63) - 1, -(1 << 63)])
                    self.add(Die(TAG["subrange_type"], [Attr(AT[at], FORM["sdata"], v)]), Exp("const", value=v, arith=True), "%s/sdata %d" % (at, v), True)

    def const_values(self):
        encs = [("signed", True), ("signed_char", True), ("unsigned", False), ("unsigned_char", False), ("address", False), ("UTF", False),
                ("boolean", "bool"), ("float", None), ("complex_float", None), ("decimal_float", None)]
        for enc, sign in encs:
            for _ in range(2):
                k = self.r.choice([1, 2, 4, 8])
                bits = self.r.choice(width_values(k))
                t = self.base_type(ATE[enc], k)
                hops = self.r.choice([[], [], ["typedef"], ["const_type", "typedef"], ["volatile_type", "const_type", "typedef", "typedef"]])
                tt = self.wrap(t, hops)
                tag = self.r.choice(["variable", "template_value_parameter", "formal_parameter"])
                c = self.r.randint(0, 5)
                if c <= 2:
                    form, stored, width = fixed_form(k), bits, k
                    attr = Attr(AT["const_value"], FORM[form], bits)
                elif c == 3:
                    form = "block1"
                    attr = Attr(AT["const_value"], FORM["block1"], bits.to_bytes(k, "big" if self.big else "little"))
                    width = k
                elif c == 4:
                    v = self.r.choice([0, 1, 200, (1 << 63) + 5])
                    self.add(Die(TAG[tag], [Attr(AT["const_value"], FORM["udata"], v), Attr(AT["type"], FORM["ref4"], tt)]), Exp("const", value=v, arith=True),
                             "const_value/udata on %s" % enc, True)
                    continue
                else:
                    v = self.r.choice([0, -1, -200, 77])
                    self.add(Die(TAG[tag], [Attr(AT["const_value"], FORM["sdata"], v), Attr(AT["type"], FORM["ref4"], tt)]), Exp("const", value=v, arith=True),
                             "const_value/sdata on %s" % enc, True)
                    continue
                if sign is None:
                    exp = Exp("error-or-diagnostic") if form != "block1" else Exp("block-or-error", data=bits.to_bytes(k, "big" if self.big else "little"))
                elif sign == "bool":
                    exp = Exp("const", value=bits, doms=("bool",))
                elif sign:
                    exp = Exp("const", value=signed_of(bits, k), arith=True)
                else:
                    exp = Exp("const", value=bits, arith=True)
                self.add(Die(TAG[tag], [attr, Attr(AT["type"], FORM["ref4"], tt)]), exp, "const_value/%s %#x on %s via %s" % (form, bits, enc, "+".join(hops) or "direct"),
                         bits >> (8 * k - 1) == 1 or len(hops) >= 2 or form != "data1")
        # pointer types
        ptr = Die(TAG["pointer_type"], [Attr(AT["byte_size"], FORM["data1"], 8), Attr(AT["type"], FORM["ref4"], self.base_type(ATE["signed"]))])
        self.top.append(ptr)
        for bits in (0, 1 << 63, (1 << 64) - 1):
            self.add(Die(TAG["variable"], [Attr(AT["const_value"], FORM["data8"], bits), Attr(AT["type"], FORM["ref4"], self.wrap(ptr, self.r.choice([[], ["const_type"]])))]),
                     Exp("const", value=bits, doms=HEXDOMS), "const_value/data8 %#x on pointer" % bits, True)
        # blocks of other lengths stay blocks
        for n in (3, 5, 16):
            data = bytes(self.r.randint(0, 255) for _ in range(n))
            self.add(Die(TAG["variable"], [Attr(AT["const_value"], FORM["block1"], data), Attr(AT["type"], FORM["ref4"], self.base_type(ATE["unsigned"]))]),
                     Exp("block-or-error", data=data), "const_value/block1 len %d" % n, True)
        # enumerations
        for under, forms in (("signed", None), ("unsigned", None), (None, "sdata"), (None, "udata"), (None, "mixed")):
            k = self.r.choice([1, 2, 4])
            attrs = [Attr(AT["name"], FORM["string"], b"E"), Attr(AT["byte_size"], FORM["data1"], k)]
            via_spec = False
            if under:
                tattr = Attr(AT["type"], FORM["ref4"], self.wrap(self.base_type(ATE[under], k), self.r.choice([[], ["typedef"]])))
                if self.r.random() < 0.35:
                    # an opaque declaration `enum E : T;` carries the underlying type, the definition refers
                    # to it with DW_AT_specification: attributes are to be integrated
                    decl = Die(TAG["enumeration_type"], [Attr(AT["name"], FORM["string"], b"E"), Attr(AT["declaration"], FORM["flag"], 1), tattr])
                    self.top.append(decl)
                    attrs.append(Attr(AT["specification"], FORM["ref4"], decl))
                    via_spec = True
                else:
                    attrs.append(tattr)
            et = Die(TAG["enumeration_type"], attrs, has_children=True)
            self.top.append(et)
            for j in range(4):
                bits = self.r.choice(width_values(k))
                if forms is None:
                    a = Attr(AT["const_value"], FORM[fixed_form(k)], bits)
                    exp = Exp("const", value=signed_of(bits, k) if under == "signed" else bits, arith=True)
                elif forms == "sdata":
                    v = signed_of(bits, k)
                    a = Attr(AT["const_value"], FORM["sdata"], v)
                    exp = Exp("const", value=v, arith=True)
                elif forms == "udata":
                    a = Attr(AT["const_value"], FORM["udata"], bits)
                    exp = Exp("const", value=bits, arith=True)
                else:
                    if j % 2:
                        a = Attr(AT["const_value"], FORM["sdata"], signed_of(bits, k))
                        exp = Exp("const", value=signed_of(bits, k), arith=True)
                    else:
                        a = Attr(AT["const_value"], FORM["udata"], bits)
                        exp = Exp("const", value=bits, arith=True)
                self.add(Die(TAG["enumerator"], [a, Attr(AT["name"], FORM["string"], b"e%d" % j)]), exp,
                         "enumerator const_value %s under=%s forms=%s %#x" % (FORM_NAME_OF(a.form), under, forms, bits), True, where=et)
            # ... and constants *of* that enumeration type: the sign comes from the underlying type, or, failing
            # that, from the forms of the enumerators (all sdata: signed; all udata: unsigned; otherwise not fixed)
            for _ in range(3):
                bits = self.r.choice(width_values(k))
                hops = self.r.choice([[], ["typedef"], ["const_type"], ["const_type", "typedef"]])
                tag = self.r.choice(["variable", "template_value_parameter"])
                # (a block on an enumeration without underlying type is not interpreted: it is reported as an
                # error, which the statement allows; not generated)
                if self.r.random() < 0.7 or under is None:
                    form, attr = fixed_form(k), Attr(AT["const_value"], FORM[fixed_form(k)], bits)
                else:
                    form, attr = "block1", Attr(AT["const_value"], FORM["block1"], bits.to_bytes(k, "big" if self.big else "little"))
                if under == "signed" or forms == "sdata":
                    exp = Exp("const", value=signed_of(bits, k), arith=True)
                elif under == "unsigned" or forms == "udata":
                    exp = Exp("const", value=bits, arith=True)
                else:
                    exp = Exp("const-either", values=(bits, signed_of(bits, k)), arith=True)
                self.add(Die(TAG[tag], [attr, Attr(AT["type"], FORM["ref4"], self.wrap(et, hops))]), exp,
                         "const_value/%s %#x on enumeration under=%s%s forms=%s via %s" % (form, bits, under, " (through DW_AT_specification)" if via_spec else "", forms, "+".join(hops) or "direct"), True)

    def locations(self):
        exprs = [bytes([0x50]), bytes([0x91]) + sleb(-24), bytes([0x03]) + struct.pack("<Q", 0x601040), bytes([0x75, 0x08, 0x9f]), b""]
        for e in exprs:
            f = "exprloc" if self.v >= 4 else "block1"
            at = self.r.choice(LOC_ATS)
            self.add(Die(TAG["variable"], [Attr(AT[at], FORM[f], e)]), Exp("loc", expr=e), "%s/%s %s" % (at, f, e.hex()), True)
        # random expressions over every operand class (the generator and the expected operands are C17's): here the
        # operations are read through `elem`, `label` and `value`, signs included
        from .c17 import LocBuilder, expected_values
        lb = LocBuilder(self.r, self.v)
        for _ in range(6):
            e, ops = lb.expression(allow_typed=False)
            f = "exprloc" if self.v >= 4 else "block1"
            if f == "block1" and len(e) > 255:
                continue
            want = [[code] + [v if k == "num" else v for k, v in vals] for code, off, vals in expected_values(ops, None)]
            at = self.r.choice(LOC_ATS)
            self.add(Die(TAG["variable"], [Attr(AT[at], FORM[f], bytes(e))]), Exp("loc-ops", expr=bytes(e), want=want),
                     "%s/%s operations %s" % (at, f, bytes(e).hex()[:40]), True)

    def macinfo(self):
        """A .debug_macinfo contribution of the unit (DWARF 2-4 macro information): define / undef (line, text),
        start_file (line, file index), end_file, vendor_ext (number, text).  Returns (section bytes, offset of the
        unit's part, the stored entries)."""
        pad = bytes([1]) + uleb(1) + b"PAD 1\0" + b"\0"           # another unit's entries in front
        out = bytearray()
        entries = []
        depth = 0
        for _ in range(self.r.randint(0, 12)):
            k = self.r.randint(0, 9)
            line = self.r.choice([0, 1, 7, 127, 128, 300, 70000])
            if k <= 3:
                txt = self.r.choice([b"A 1", b"F(x) x+1", b"EMPTY", b"S \"q\"", b"N\xc3\xa9"])
                code = 1 if k <= 2 else 2
                out += bytes([code]) + uleb(line) + txt + b"\0"
                entries.append((code, line, txt))
            elif k <= 5:
                fi = self.r.choice([1, 2, 3, 9, 200])
                out += bytes([3]) + uleb(line) + uleb(fi)
                entries.append((3, line, fi))
                depth += 1
            elif k <= 7 and depth:
                out += bytes([4])
                entries.append((4,))
                depth -= 1
            else:
                num = self.r.choice([0, 5, 1000])
                txt = self.r.choice([b"vendor", b""])
                out += bytes([255]) + uleb(num) + txt + b"\0"
                entries.append((255, num, txt))
        out += b"\0"
        return pad + bytes(out), len(pad), entries

    def build(self):
        for fn in (self.strings, self.refs, self.flags, self.addresses, self.enumerated, self.lines, self.integrals, self.const_values, self.locations):
            if self.big and fn == self.locations:
                continue         # (the operands of generated expressions are written little-endian)
            fn()
        rattrs = [Attr(AT["name"], FORM["string"], b"c07.c"), Attr(AT["language"], FORM["data1"], 1)]
        self.extra_sections = []
        if self.v <= 4 and self.r.random() < 0.7:
            sec, off, entries = self.macinfo()
            self.extra_sections.append((b".debug_macinfo", sec))
            rattrs.insert(0, Attr(AT["macro_info"], FORM["sec_offset" if self.v >= 4 else "data4"], off))
        root = Die(TAG["compile_unit"], rattrs, self.top)
        if rattrs[0].name == AT["macro_info"]:
            self.cases.append((root, Exp("macinfo", entries=entries), "macro_info/%s %d entries" % ("sec_offset" if self.v >= 4 else "data4", len(entries)), True))
        f = Forest([Unit(root, self.v)])
        f.big = self.big
        return f


def FORM_NAME_OF(f):
    from ..dwgen import FORM_NAME
    return FORM_NAME.get(f, hex(f))


OPS1 = {0x50: ("reg0", 0), 0x9f: ("stack_value", 0)}


def decode_ops(e):
    """Minimal decoder for the expressions generated above: [(atom, n1 or None)]."""
    out = []
    i = 0
    while i < len(e):
        op = e[i]
        i += 1
        if op == 0x03:
            out.append((op, struct.unpack("<Q", e[i:i + 8])[0]))
            i += 8
        elif op in (0x91,) or 0x70 <= op <= 0x8f:
            v = 0
            sh = 0
            while True:
                b = e[i]
                i += 1
                v |= (b & 0x7f) << sh
                sh += 7
                if not b & 0x80:
                    if b & 0x40:
                        v -= 1 << sh
                    break
            out.append((op, v))
        else:
            out.append((op, None))
    return out


def judge(r, exp):
    """None if the reply is acceptable, else a reason."""
    res = r.get("res", [])
    err = r.get("error")
    diag = r.get("stderr", b"")
    k = exp.kind
    if k == "error-or-diagnostic":
        if err or diag:
            return None
        if res and res[0][-1]["t"] == "c":
            return "an uninterpreted value was silently decoded as the number %s" % res[0][-1]["v"]
        return None if not res else "unexpected value %r" % res[0][-1]
    if k == "block-or-error":
        if err or diag:
            return None
        if len(res) == 1 and res[0][-1]["t"] == "q" and [int(x["v"]) for x in res[0][-1]["e"]] == list(exp.data):
            return None
        if len(res) == 1 and res[0][-1]["t"] == "c":
            return "a block was silently decoded as the number %s" % res[0][-1]["v"]
        return "block value: %r" % (res[0][-1] if res else None)
    if err:
        return "error: %s" % err
    if k == "loc-ops":
        got = []
        for s_ in r["res"]:
            row = []
            for e in s_[-1]["e"]:
                row.append([int(x["v"]) for x in e["e"]] if e["t"] == "q" else int(e["v"]))
            got.append(row)
        if got != exp.want:
            return "operations read through elem/label/value: %r, stored %r" % (got[:4], exp.want[:4])
        return None
    if k == "macinfo":
        got = []
        for n, s_ in enumerate(res):
            v = s_[-1]
            if v["t"] != "q" or v["p"] != n:
                return "macro information entry #%d is %r at position %r" % (n, v["t"], v.get("p"))
            got.append(tuple(int(e["v"]) if e["t"] == "c" else bytes.fromhex(e["x"]) for e in v["e"]))
        if got != [tuple(e) for e in exp.entries]:
            j = next((j for j in range(max(len(got), len(exp.entries))) if j >= len(got) or j >= len(exp.entries) or got[j] != tuple(exp.entries[j])), 0)
            return "macro information: %d entries, stored %d; entry #%d is %r, stored %r" % (
                len(got), len(exp.entries), j, got[j] if j < len(got) else None, exp.entries[j] if j < len(exp.entries) else None)
        return None
    if len(res) != 1:
        return "yields %d values" % len(res)
    v = res[0][-1]
    if k == "str":
        if v["t"] != "s" or bytes.fromhex(v["x"]) != exp.data:
            return "string %r, stored %r" % (bytes.fromhex(v["x"]) if v["t"] == "s" else v["t"], exp.data)
        return None
    if k == "die":
        if v["t"] != "die" or v["off"] != exp.target.offset:
            return "reference yields %r, stored target %#x" % ({x: v.get(x) for x in ("t", "off")}, exp.target.offset)
        return None
    if k in ("const", "const-either"):
        if v["t"] != "c":
            return "yields a %s, expected a constant" % v["t"]
        val = int(v["v"])
        want = (exp.value,) if k == "const" else exp.values
        if val not in want:
            return "value %d, stored %s" % (val, " or ".join(str(x) for x in want))
        doms = getattr(exp, "doms", None)
        if doms:
            if not any(v["d"] == d or (d.endswith("_") and v["d"].startswith(d)) for d in doms):
                return "value %d has domain %r, expected %s" % (val, v["d"], "/".join(doms))
        elif getattr(exp, "arith", False) and not v["a"]:
            return "value %d has non-arithmetic domain %r" % (val, v["d"])
        return None
    if k == "loc":
        if v["t"] != "lle":
            return "location attribute yields a %s" % v["t"]
        ops = [(o["atom"], o["n1"]) for o in v["ops"]]
        want = decode_ops(exp.expr)
        if [a for a, _ in ops] != [a for a, _ in want]:
            return "operations %r, stored %r" % ([a for a, _ in ops], [a for a, _ in want])
        for (a, n), (_, wn) in zip(ops, want):
            if wn is not None and (int(n) & ((1 << 64) - 1)) != (wn & ((1 << 64) - 1)):
                return "operand of op %#x is %s, stored %d" % (a, n, wn)
        return None
    return "unknown expectation"


def work(task):
    seed, start, count = task
    ev = Evidence()
    drv = Driver(timeout=120)
    try:
        for i in range(start, start + count):
            rnd = random.Random((seed << 32) ^ (i * 2654435761 & 0xffffffff) ^ 0xC07)
            version = rnd.choice([2, 3, 4, 5])
            b = Builder(rnd, version, big=rnd.random() < 0.25)
            f = b.build()
            data = build_file(f, extra_sections=[(b".debug_line", b"\0" * 64)] + b.extra_sections)
            ev.label("byte-order:" + ("big" if b.big else "little"))
            try:
                with TempElf(data) as path:
                    h = drv.open(path, i % 2 == 1)
                    tok = "V%d" % h
                    try:
                        for die, exp, desc, nt in b.cases:
                            atname = None
                            q = "entry (offset == %d) attribute ?0 value" % die.offset
                            if exp.kind == "loc-ops":
                                q += " elem (|P| [P label, P value])"
                            r = drv.run(q, tok, limit=40, steps=1000000)
                            ev.case(key=(desc, version), nontrivial=nt)
                            ev.label("class:" + desc.split("/")[0].split(" ")[0])
                            why = judge(r, exp)
                            if why:
                                ev.violations.append({"property": PID, "recipe": {"seed": seed, "index": i}, "die": die.offset, "case": desc, "query": q,
                                                      "reason": "DWARF %d %s: %s  (stderr %r)" % (version, desc, why, r.get("stderr", b"")[:120]),
                                                      "signature": "C07:%s:%s" % (desc.split(" ")[0], why[:40])})
                            elif nt and rnd.random() < 0.003:
                                ev.sample({"case": desc, "dwarf_version": version, "yielded": (r.get("res") or [[{}]])[0][-1].get("v", r.get("error"))})
                    finally:
                        drv.req("vclose %d" % h)
            except DriverCrash as e:
                ev.violations.append({"property": PID, "recipe": {"seed": seed, "index": i}, "reason": "driver crashed: " + e.report[-3000:],
                                      "signature": "C07:crash:" + e.request[:80]})
            except DriverTimeout:
                ev.inconc("watchdog")
    finally:
        drv.kill()
    return ev


def main(tier, seed):
    t0 = time.time()
    n = 300 if tier == "quick" else 8000
    per = max(3, n // 64)
    ev = run_pool(work, [(seed, s, min(per, n - s)) for s in range(0, n, per)])
    ev.extra["generated_files"] = n
    return finish(PID, tier, seed, ev, RULE, t0,
                  assumptions=["libdw's form decoding is trusted; malformed DWARF is not generated",
                               "for integral attributes whose signedness the statement does not fix, either reading of the stored bits is accepted",
                               "attributes that need other sections (decl_file, ranges, macro_info) are not generated here"],
                  health={"all classes": all(ev.labels.get("class:" + c, 0) > 0 for c in ("name", "type", "external", "low_pc", "language", "decl_line", "byte_size", "const_value", "enumerator", "location")),
                          "big-endian files": ev.labels.get("byte-order:big", 0) >= 30})


def replay(path):
    import json
    rec = json.load(open(path))
    seed, i = rec["recipe"]["seed"], rec["recipe"]["index"]
    rnd = random.Random((seed << 32) ^ (i * 2654435761 & 0xffffffff) ^ 0xC07)
    version = rnd.choice([2, 3, 4, 5])
    b = Builder(rnd, version, big=rnd.random() < 0.25)
    f = b.build()
    data = build_file(f, extra_sections=[(b".debug_line", b"\0" * 64)] + b.extra_sections)
    drv = Driver()
    bad = 0
    with TempElf(data) as p:
        h = drv.open(p, i % 2 == 1)
        for die, exp, desc, nt in b.cases:
            if "case" in rec and desc != rec["case"]:
                continue
            r = drv.run("entry (offset == %d) attribute ?0 value" % die.offset, "V%d" % h, limit=10)
            why = judge(r, exp)
            if why:
                print(desc, why)
                bad += 1
    drv.kill()
    return 1 if bad else 0
