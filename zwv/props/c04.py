"""C04 -- assertions and sub-expression contexts never disturb the surrounding stack.

Metamorphic, engine vs engine, independent of the reference model:
  results(P ?(E)) + results(P !(E)) = results(P)   (multisets of full stacks incl. positions)
  results(P ?{E} apply) + results(P !{E} apply) = results(P)   (the block spelling, also bound to ?name / !name)
  results(P ?w)   + results(P !w)   = results(P)   for every assertion word pair of both
                                                    vocabularies, on several operand types
  results(P (E1 op E2)) + results(P !((E1 op E2))) = results(P)
  P [E]          = every stack of P with exactly one sequence added; its elements are the TOS of
                   the results of E (checked when P yields one stack)
  P let X := E;  = the stack of P repeated once per result of E, unchanged
  P I K          = P K for contexts I that hold on every stack / bind an unread name, and continuations K (the
                   stack a context hands on must also *behave* like the incoming one: type dispatch, depth)
When a diagnostic is printed the two halves may both miss that input, so the equality weakens
to inclusion.  P and E come from the typed generator (any stack effect for E, any number of
yields, soft failures included) and from DWARF traversals on sample binaries.
"""
import os, random, time
from collections import Counter

from .. import gen as G
from ..drv import Driver, DriverCrash, DriverTimeout
from ..harness import Evidence, run_pool, finish
from ..render import render

PID = "C04"
RULE = ("P: random typed program (depth <= 2, 1-4 statements) or a DWARF traversal (entry, entry attribute, unit, symbol, "
        "entry @AT_location elem ...) on a sample binary; E: random typed sub-expression of arbitrary stack effect generated "
        "against P's output types, or a DWARF expression; every ?word/!word pair of the core and DWARF vocabularies on "
        "const/str/seq/DIE/attribute/CU/symbol/loclist operands.  Non-trivial: E changes the stack depth or yields != 1 "
        "times, and P yields >= 2 stacks of depth >= 2; for word pairs: the pair splits P's results (both halves non-empty) "
        "or reports an error.  Distinct by (P, E / word).")

SAMPLES = ["a1.out", "nontrivial-types.o", "enum.o", "bitcount.o", "dwz-partial2-1", "testfile_const_type", "char_16_32.o"]
DW_PREFIXES = ["entry", "entry attribute", "unit", "symbol", "entry ?(@AT_location) @AT_location", "entry @AT_location elem",
               "entry abbrev", "entry abbrev attribute", "abbrev", "raw entry", "raw entry attribute", "entry address",
               "1 entry", "entry dup child", "\"x\" entry attribute value"]
DW_EXPRS = ["child", "attribute", "@AT_name", "parent", "name", "offset 0x40 ?lt", "child child", "root", "unit",
            "value", "label", "form", "?haschildren", "?root", "@AT_type @AT_name", "attribute ?AT_name value",
            "elem", "length", "address", "drop", "drop drop", "dup", "1 add", "type", "pos 2 ?lt", "child*", "parent+",
            "@AT_decl_line 3 ?gt", "label ?TAG_subprogram", "?TAG_base_type", "high", "low", "abbrev", "code", "binding",
            "size", "visibility", "symbol", "entry", "\"%s\"", "?AT_name", "!AT_type", "?LANG_C89", "@AT_language"]


def full(s):
    """Canonical form of a dumped stack incl. positions."""
    def cv(v):
        t = v["t"]
        if t == "c":
            return ("c", v["v"], v["d"], v["p"])
        if t == "s":
            return ("s", v["x"], v["p"])
        if t == "q":
            return ("q", tuple(cv(e) for e in v["e"]), v["p"])
        d = {k: (cv2(x)) for k, x in v.items() if k not in ("sh",)}
        return (t, tuple(sorted((k, repr(x)) for k, x in d.items())))

    def cv2(x):
        return x
    return tuple(cv(v) for v in s)


def run(drv, q, tok=""):
    return drv.run(q, tok, limit=4000, steps=3000000)


def ok(r):
    return "res" in r and r.get("end") and "error" not in r and "cerror" not in r


def split_check(ev, what, key, rp, ry, rn, nt_hint, query):
    """results(yes) + results(no) = results(P)."""
    if not (ok(rp) and ok(ry) and ok(rn)):
        # Hard failures must hit both halves alike.
        if ok(rp) and ("error" in ry) != ("error" in rn) and "cerror" not in ry and "cerror" not in rn:
            ev.violations.append({"property": PID, "query": query, "reason": what + ": one half fails hard, the other does not: %r / %r" % (ry.get("error"), rn.get("error")),
                                  "signature": "C04:hard:" + query[:150]})
        ev.inconc("compile/run-time error or cap")
        return
    p = Counter(full(s) for s in rp["res"])
    y = Counter(full(s) for s in ry["res"])
    n = Counter(full(s) for s in rn["res"])
    errs = bool(ry["stderr"] or rn["stderr"])
    both = y + n
    nt = nt_hint or (bool(ry["res"]) and bool(rn["res"])) or errs
    ev.case(key=key, nontrivial=nt)
    ev.label(what + (":with-diagnostic" if errs else ""))
    bad = None
    if any(both[k] > p[k] for k in both):
        extra = [k for k in both if both[k] > p[k]]
        bad = "yields a stack that is not an (unchanged) input stack, or yields one twice: %r" % (extra[:2],)
    elif not errs and both != p:
        bad = "an input stack is yielded by neither the positive nor the negative form: %r" % (list((p - both).elements())[:2],)
    elif errs and what == "?word/!word" and len(ry["res"]) + len(rn["res"]) + min(ry["stderr"].count(b"Error"), rn["stderr"].count(b"Error")) > len(rp["res"]):
        # a bare assertion word looks at each stack once and prints at most one diagnostic for it: a stack for which
        # both forms print one is a stack on which X reports an error, and then neither ?X nor !X holds
        bad = "%d + %d stacks pass ?X / !X although X reported an error on %d of the %d" % (
            len(ry["res"]), len(rn["res"]), min(ry["stderr"].count(b"Error"), rn["stderr"].count(b"Error")), len(rp["res"]))
    elif errs and what == "?word/!word" and ry["stderr"].count(b"Error") == rn["stderr"].count(b"Error") \
            and len(ry["res"]) + len(rn["res"]) + ry["stderr"].count(b"Error") < len(rp["res"]):
        # ... and a stack on which X reports nothing is in exactly one half, also when it comes after one on which X failed
        bad = "%d + %d stacks pass ?X / !X and X reported an error on %d: %d of the %d input stacks are in neither half although X said nothing about them" % (
            len(ry["res"]), len(rn["res"]), ry["stderr"].count(b"Error"), len(rp["res"]) - len(ry["res"]) - len(rn["res"]) - ry["stderr"].count(b"Error"), len(rp["res"]))
    elif y & n and not errs:
        # the same stack object in both halves is only possible if P yields it more than once
        dup = [k for k in (y & n) if y[k] + n[k] > p[k]]
        if dup:
            bad = "both ?X and !X hold for %r" % (dup[:2],)
    if bad:
        ev.violations.append({"property": PID, "query": query, "reason": what + ": " + bad, "signature": "C04:" + what + ":" + query[:150]})
    return nt


def work_core(task):
    seed, start, count = task
    ev = Evidence()
    drv = Driver()
    try:
        for i in range(start, start + count):
            if len(ev.violations) >= 30:
                break       # verdict settled
            rnd = random.Random((seed << 32) ^ (i * 2654435761 & 0xffffffff) ^ 0xC04)
            g = G.Gen(rnd, G.Cfg(max_depth=2, soft=0.08))
            scope = G.Scope()
            # ballast: some prefixes start from an already deep stack (sub-expression contexts copy the
            # whole stack and put back only the values they keep)
            ballast, bst = [], []
            if rnd.random() < 0.4:
                for _ in range(rnd.randint(2, 6)):
                    k = rnd.random()
                    if k < 0.5:
                        ballast.append(g.lit()); bst.append(G.C)
                    elif k < 0.8:
                        ballast.append(g.strlit()); bst.append(G.S)
                    else:
                        ballast.append(("elist",)); bst.append(G.Q)
                ev.label("ballast")
            pnode, pst = g.seq(list(bst), scope, 2, rnd.randint(1, 4))
            if ballast:
                pnode = ("cat", ballast + [pnode])
            if rnd.random() < 0.6:
                pnode = ("cat", [pnode, ("alt", [g.lit(), g.strlit(), ("elist",)][:rnd.randint(2, 3)])])
                pst = pst + [G.U]
            elif rnd.random() < 0.3:
                # values of every type at positions 0, 1, 2, ...: blocks, strings, sequences taken out of a sequence
                items = [("block", "", (), ("lit", k, "dec")) if rnd.random() < 0.6 else rnd.choice([g.lit(), g.strlit(), ("elist",)]) for k in range(rnd.randint(2, 4))]
                pnode = ("cat", [pnode, ("cap", (), ("alt", items)), ("word", rnd.choice(["elem", "relem"]))])
                pst = pst + [G.U]
                ev.label("positions-on-prefix")
            enode, est = g.seq(list(pst), G.Scope(scope), 2, rnd.randint(1, 3))
            P, E = "(" + render(pnode) + ")", render(enode)
            eff = len(est) - len(pst)
            try:
                rp = run(drv, P)
                if not ok(rp):
                    ev.inconc("prefix failed")
                    continue
                deep = len(rp["res"]) >= 2 and all(len(s) >= 2 for s in rp["res"])
                # ?(E) / !(E)
                ry, rn = run(drv, "%s ?(%s)" % (P, E)), run(drv, "%s !(%s)" % (P, E))
                re_ = run(drv, "%s (%s)" % (P, E))
                varied = ok(re_) and len(re_["res"]) != len(rp["res"])
                nt = split_check(ev, "?(E)/!(E)", (P, E), rp, ry, rn, deep and (eff != 0 or varied), "%s ?(%s)" % (P, E))
                if nt and rnd.random() < 0.01:
                    ev.sample({"P": P[:150], "E": E[:150], "P_results": len(rp["res"]), "yes": len(ry.get("res", [])), "no": len(rn.get("res", []))})
                # the block spelling of the same assertion, applied on the spot and through a name
                ry, rn = run(drv, "%s ?{%s} apply" % (P, E)), run(drv, "%s !{%s} apply" % (P, E))
                split_check(ev, "?{E}/!{E}", (P, E), rp, ry, rn, deep and (eff != 0 or varied), "%s !{%s} apply" % (P, E))
                if i % 4 == 0:
                    ry = run(drv, "let ?holds := ?{%s}; let !holds := !{%s}; %s ?holds" % (E, E, P))
                    rn = run(drv, "let ?holds := ?{%s}; let !holds := !{%s}; %s !holds" % (E, E, P))
                    split_check(ev, "?name/!name", (P, E), rp, ry, rn, deep, "let ?holds := ?{%s}; let !holds := !{%s}; %s !holds" % (E, E, P))
                # infix
                e2, _ = g.one_value(list(pst), G.Scope(scope), 1)
                e1, _ = g.one_value(list(pst), G.Scope(scope), 1)
                op = rnd.choice(["==", "!=", "<", ">=", "=~"])
                inf = "(%s %s %s)" % (render(e1) if e1[0] not in ("alt", "or", "infix") else "(" + render(e1) + ")", op,
                                      render(e2) if e2[0] not in ("alt", "or", "infix") else "(" + render(e2) + ")")
                ry, rn = run(drv, "%s %s" % (P, inf)), run(drv, "%s !(%s)" % (P, inf))
                split_check(ev, "infix", (P, inf), rp, ry, rn, deep, "%s %s" % (P, inf))
                # [E]
                rc = run(drv, "%s [%s]" % (P, E))
                if ok(rc) and ok(re_) and "Error" not in rc["stderr"].decode("latin-1") + re_["stderr"].decode("latin-1"):
                    ev.case(key=("cap", P, E), nontrivial=deep and (eff != 0 or varied))
                    ev.label("[E]")
                    below = [full(s[:-1]) for s in rc["res"]]
                    bad = None
                    if below != [full(s) for s in rp["res"]]:
                        bad = "[E] changed, dropped or duplicated a stack below the sequence"
                    elif any(not s or s[-1]["t"] != "q" for s in rc["res"]):
                        bad = "[E] did not push a sequence"
                    elif len(rp["res"]) == 1:
                        want = [full([s[-1]])[0] for s in re_["res"] if s]
                        got = [full([e])[0] for e in rc["res"][0][-1]["e"]]
                        if Counter(want) != Counter(got):
                            bad = "[E] captured %r, E yields TOS %r" % (got[:3], want[:3])
                    if bad:
                        ev.violations.append({"property": PID, "query": "%s [%s]" % (P, E), "reason": bad, "signature": "C04:cap:" + P + E})
                # let
                if len(est) == 0 and ok(re_) and re_["res"] and all(len(s_) == 0 for s_ in re_["res"]):
                    # E leaves nothing to bind: that is an error, not a binding that eats the surrounding stack
                    rl = run(drv, "%s let Xx := %s;" % (P, E))
                    ev.case(key=("let0", P, E), nontrivial=True)
                    ev.label("let-nothing-to-bind")
                    if ok(rl) and rl["res"]:
                        ev.violations.append({"property": PID, "query": "%s let Xx := %s;" % (P, E), "signature": "C04:let0:" + P + E,
                                              "reason": "E leaves no value, yet `let` yields %d stack(s): %r" % (len(rl["res"]), [full(s_) for s_ in rl["res"][:2]])})
                if len(est) >= 1:
                    rl = run(drv, "%s let Xx := %s;" % (P, E))
                    if ok(rl) and ok(re_) and not rl["stderr"] and not re_["stderr"]:
                        ev.case(key=("let", P, E), nontrivial=deep and varied)
                        ev.label("let")
                        p = Counter(full(s) for s in rp["res"])
                        l = Counter(full(s) for s in rl["res"])
                        bad = None
                        if set(l) - set(p):
                            bad = "let changed the stack: %r" % (list(set(l) - set(p))[:2],)
                        elif len(rl["res"]) != len(re_["res"]):
                            bad = "let yields %d stacks, E yields %d results" % (len(rl["res"]), len(re_["res"]))
                        if not bad and len(est) == len(pst) + 1 and not any(s_ and s_[-1]["t"] == "k" for s_ in re_["res"]):
                            # (a name bound to a block applies it instead of pushing it: not judged here)
                            # "add only the bound names": the name must denote what E left on top, the stack
                            # below must be the incoming one
                            rx = run(drv, "%s let Xx := %s; Xx" % (P, E))
                            if ok(rx) and not rx["stderr"]:
                                ev.label("let-value")
                                want = Counter(full([s_[-1]])[0] for s_ in re_["res"] if s_)
                                got = Counter(full([s_[-1]])[0] for s_ in rx["res"] if s_)
                                if want != got:
                                    bad = "let bound %r, E leaves %r on top" % (list((got - want).elements())[:2], list((want - got).elements())[:2])
                                elif len(rp["res"]) == 1 and any(full(s_[:-1]) != full(rp["res"][0]) for s_ in rx["res"]):
                                    bad = "let changed the stack below the bound value"
                        if bad:
                            ev.violations.append({"property": PID, "query": "%s let Xx := %s;" % (P, E), "reason": bad, "signature": "C04:let:" + P + E})
                continuation(ev, drv, rnd, g, P, pst, E, est, scope, rp)
            except DriverCrash as e:
                ev.violations.append({"property": PID, "query": "%s ?(%s)" % (P, E), "reason": "driver crashed: " + e.report[-3000:],
                                      "signature": "C04:crash:" + P + E})
            except DriverTimeout:
                ev.inconc("watchdog")
    finally:
        drv.kill()
    return ev


# Contexts that hold on every stack (or bind a name nobody reads): P <context> must be P, not only in what a dump of
# the stack shows but in everything that can be computed from it afterwards.  (Not `?(dup == dup)`: an infix
# comparison reads its operands through names, and a name bound to a block applies it -- with a block on top that
# context runs the block.  Thorough tier, 9 false alarms, corrected.)
INERT = ["let Xx := 0;", "let Xx := \"s\";", "let Xx := [];", "?(0)", "?(drop)", "?(drop drop)", "!(0 1 ?eq)", "!(drop 0 1 ?eq)",
         "[1] drop", "[] drop", "[dup] drop", "(0 == 0)", "(\"a\" != \"b\")", "?(0 == 0)", "!(0 == 1)", "?(dup type == T_CONST || true)",
         "let Xx Yy := 1 2;", "?(let Zz := 1;)", "(0 == 0) (1 == 1)"]
BINARY = {G.C: ["add", "sub", "mul"], G.S: ["add", "?find", "!find", "?starts", "!starts", "?ends", "!ends"],
          G.Q: ["add", "?find", "!find", "?starts", "!starts", "?ends", "!ends"]}


def continuation(ev, drv, rnd, g, P, pst, E, est, scope, rp):
    """results(P I K) = results(P K) for an inert context I and a continuation K -- in particular one that pops
    down to two values of one type and applies a word that is dispatched on the types of both."""
    ks = []
    for j in range(0, max(0, len(pst) - 1)):
        a, b = pst[len(pst) - j - 2], pst[len(pst) - j - 1]
        if a == b and a in BINARY:
            ks.append("drop " * j + rnd.choice(BINARY[a]))
    if len(pst) >= 1 and pst[-1] in (G.S, G.Q):
        ks.append("length")
    try:
        knode, _ = g.seq(list(pst), G.Scope(scope), 1, rnd.randint(1, 3))
        ks.append(render(knode))
    except Exception:
        pass
    rnd.shuffle(ks)
    for K in ks[:2]:
        I = rnd.choice(INERT)
        if I.startswith(("?(drop", "!(drop", "[dup]", "?(dup")) and len(pst) < (2 if "drop drop" in I else 1):
            continue
        q0, q1 = "%s %s" % (P, K), "%s %s %s" % (P, I, K)
        r0, r1 = run(drv, q0), run(drv, q1)
        if "cerror" in r0 or "cerror" in r1 or not (r0.get("end") or "error" in r0) or not (r1.get("end") or "error" in r1):
            ev.inconc("continuation does not compile or is capped")
            continue
        depth4 = any(len(s_) == 4 for s_ in rp["res"])
        ev.case(key=("cont", P, I, K), nontrivial=len(pst) >= 2)
        ev.label("continuation")
        if depth4:
            ev.label("continuation:stack-of-4")
        a = ([full(s_) for s_ in r0.get("res", [])], r0.get("error") is not None, r0["stderr"].count(b"Error"))
        b = ([full(s_) for s_ in r1.get("res", [])], r1.get("error") is not None, r1["stderr"].count(b"Error"))
        if a != b:
            ev.violations.append({"property": PID, "query": q1, "reference": q0, "signature": "C04:cont:" + q1[:200],
                                  "reason": "the inert context %s changes what follows: without it %d result(s), %d diagnostic(s)%s; with it %d result(s), %d diagnostic(s)%s; first difference %r"
                                  % (I, len(a[0]), a[2], " and a failure" if a[1] else "", len(b[0]), b[2], " and a failure" if b[1] else "",
                                     next(((x, y) for x, y in zip(a[0] + [None], b[0] + [None]) if x != y), None))})


def work_words(task):
    """Every ?word/!word pair of both vocabularies on several operand types."""
    lo, hi, fn = task
    ev = Evidence()
    drv = Driver(timeout=90)
    try:
        words = sorted(set(drv.vocab("core") + drv.vocab("dw")))
        pairs = [w for w in words if w.startswith("?") and ("!" + w[1:]) in words][lo:hi]
        tok = "V%d" % drv.open(os.path.join("/repo/tests", fn), False)
        prefixes = ["(1, \"a\", [], [1], 0x10, true)", "1 (2, \"ab\", [1, 2])", "(\"ab\" \"a\", [1] [], 1 2, 2 1, \"a\" 1)",
                    "entry", "entry attribute", "unit", "symbol", "entry ?(@AT_location) @AT_location", "entry @AT_location elem",
                    "entry abbrev", "entry abbrev attribute", "entry address", "raw entry", "entry dup parent", "entry dup",
                    # two operands of the DWARF types: address sets of 0, 1, 2 and 3 runs in every combination (overlapping or
                    # not, the one below with fewer or with more runs than the one on top), a set and an address, two DIEs,
                    # two attributes, a DIE and one of its attributes
                    "(0 0x25 aset, 0x10 0x20 aset 0x40 0x50 aset add, 0 0 aset, 1 2 aset 4 5 aset add 7 9 aset add) "
                    "(0x20 0x30 aset 0x40 0x50 aset add, 0x22 0x24 aset, 0x100 0x101 aset 3 add 8 add, 0 0 aset)",
                    "(0 0x25 aset, 0x10 0x20 aset 0x40 0x50 aset add, 0 0 aset) (0x10, 0x30, 0x45, 0)",
                    "entry (|D| D D child)", "entry (|D| D attribute (pos < 2) D attribute (pos < 2))", "entry (|D| D D attribute (pos < 2))",
                    "entry address (pos < 6) (|A| A A 4 add, A 0 0 aset, 0x10000 0x10004 aset A)",
                    # operands on which the word itself fails: patterns that are not regular expressions
                    "\"abc\" (\"(\", \"[\", \"a{2,1}\", \"b\", \"*\", \"abc\")", "(\"(\", \"x\") (\"(\", \"\\\\\")"]
        base = {}
        for P in prefixes:
            r = run(drv, P, tok)
            if ok(r) and r["res"]:
                base[P] = r
        for w in pairs:
            for P, rp in base.items():
                q = "%s %s" % (P, w)
                ry, rn = run(drv, q, tok), run(drv, "%s !%s" % (P, w[1:]), tok)
                split_check(ev, "?word/!word", (fn, P, w), rp, ry, rn, False, q)
        # Cooked DIEs that inherit attributes through DW_AT_abstract_origin / DW_AT_specification: an
        # assertion about an attribute must leave the DIE on the stack alone there too.  One sample
        # with such links and one generated forest with link trees, every pair, prefix `entry`.
        from .. import dwforest as DF
        from ..dwgen import build_file
        from ..dwcheck import TempElf
        g = DF.ForestGen(random.Random(0xC04 + lo), DF.FCfg(max_units=3, max_dies=30, partial=0.5, bulk=0.0))
        with TempElf(build_file(g.forest())) as path:
            for f2 in (os.path.join("/repo/tests", "nullptr.o"), path):
                tok2 = "V%d" % drv.open(f2, False)
                rp = run(drv, "entry", tok2)
                if not (ok(rp) and rp["res"]):
                    continue
                for w in pairs:
                    ry, rn = run(drv, "entry " + w, tok2), run(drv, "entry !" + w[1:], tok2)
                    split_check(ev, "?word/!word", (os.path.basename(f2)[:8], "entry", w, lo), rp, ry, rn, False, "entry " + w)
                ev.label("inheriting-dies-file")
        # location expressions in which an operation occurs once, twice, three times: ?OP_x / !OP_x look at a whole
        # expression ("some operation has that opcode"), however many there are
        oppairs = [w for w in pairs if w.startswith(("?OP_", "?DW_OP_"))]
        if oppairs:
            from ..dwgen import Attr, Die, Unit, Forest, TAG, AT, FORM
            simple = [0x06, 0x12, 0x13, 0x14, 0x16, 0x17, 0x19, 0x1a, 0x1b, 0x1c, 0x1d, 0x1e, 0x1f, 0x20, 0x21, 0x22, 0x24, 0x25, 0x26, 0x27,
                      0x29, 0x2a, 0x2b, 0x2c, 0x2d, 0x2e, 0x30, 0x31, 0x50, 0x51, 0x6f, 0x96, 0x9c, 0x9f]
            dies = []
            rr = random.Random(0x0904 + lo)
            for code in simple:
                for k in (1, 2, 3):
                    dies.append(Die(TAG["variable"], [Attr(AT["location"], FORM["exprloc"], bytes([code] * k))]))
                other = rr.choice(simple)
                dies.append(Die(TAG["variable"], [Attr(AT["location"], FORM["exprloc"], bytes([code, other, code]))]))
            f3 = Forest([Unit(Die(TAG["compile_unit"], [Attr(AT["name"], FORM["string"], b"ops.c")], dies), 4)])
            with TempElf(build_file(f3)) as path3:
                tok3 = "V%d" % drv.open(path3, False)
                rp = run(drv, "entry @AT_location", tok3)
                if ok(rp) and rp["res"]:
                    for w in oppairs:
                        ry, rn = run(drv, "entry @AT_location " + w, tok3), run(drv, "entry @AT_location !" + w[1:], tok3)
                        split_check(ev, "?word/!word", ("ops", w, lo), rp, ry, rn, False, "entry @AT_location " + w)
                    ev.label("repeated-operations-file")
        ev.sample({"file": fn, "word_pairs": len(pairs), "prefixes": list(base)}, cap=2)
    except DriverCrash as e:
        ev.violations.append({"property": PID, "reason": "driver crashed: " + e.report[-3000:], "query": e.request[:200], "signature": "C04:wcrash:" + e.request[:100]})
    except DriverTimeout:
        ev.inconc("watchdog")
    finally:
        drv.kill()
    return ev


def work_dw(task):
    fn, seed = task
    ev = Evidence()
    drv = Driver(timeout=90)
    rnd = random.Random(seed ^ hash(fn) & 0xffff)
    try:
        tok = "V%d" % drv.open(os.path.join("/repo/tests", fn), rnd.random() < 0.3)
        for P in DW_PREFIXES:
            rp = run(drv, P, tok)
            if not ok(rp) or not rp["res"]:
                continue
            deep = len(rp["res"]) >= 2 and all(len(s) >= 2 for s in rp["res"])
            for E in DW_EXPRS:
                ry, rn = run(drv, "%s ?(%s)" % (P, E), tok), run(drv, "%s !(%s)" % (P, E), tok)
                split_check(ev, "dwarf ?(E)/!(E)", (fn, P, E), rp, ry, rn, deep, "%s ?(%s)" % (P, E))
            ev.label("dwarf-prefix")
    except DriverCrash as e:
        ev.violations.append({"property": PID, "reason": "driver crashed: " + e.report[-3000:], "query": e.request[:200], "signature": "C04:dcrash:" + e.request[:100]})
    except DriverTimeout:
        ev.inconc("watchdog")
    finally:
        drv.kill()
    return ev


def main(tier, seed):
    t0 = time.time()
    n = 2500 if tier == "quick" else 60000
    ev = Evidence()
    per = max(25, n // 48)
    ev.merge(run_pool(work_core, [(seed, s, min(per, n - s)) for s in range(0, n, per)]))
    # every assertion pair of the vocabularies (973 on the pinned tree; counted, not assumed)
    d = Driver()
    try:
        words = set(d.vocab("core") + d.vocab("dw"))
    finally:
        d.kill()
    nw = len([w for w in words if w.startswith("?") and ("!" + w[1:]) in words])
    ev.extra["assertion_word_pairs"] = nw
    step = 48 if tier == "quick" else 24
    files = SAMPLES[:2] if tier == "quick" else SAMPLES
    ev.merge(run_pool(work_words, [(lo, lo + step, files[(lo // step) % len(files)]) for lo in range(0, nw, step)]))
    ev.merge(run_pool(work_dw, [(f, seed) for f in (SAMPLES[:4] if tier == "quick" else SAMPLES)]))
    return finish(PID, tier, seed, ev, RULE, t0,
                  assumptions=["two executions of the same program on the same input give the same results (C12)",
                               "when a diagnostic is printed, the equality is weakened to inclusion (the statement lets neither form hold on an erroring input)"],
                  health={"word pairs checked": ev.labels.get("?word/!word", 0) + ev.labels.get("?word/!word:with-diagnostic", 0) > 1000,
                          "dwarf prefixes checked": ev.labels.get("dwarf-prefix", 0) > 10,
                          "?OP_x pairs on expressions with repeated operations": ev.labels.get("repeated-operations-file", 0) > 3,
                          "[E] and let checked": ev.labels.get("[E]", 0) > 100 and ev.labels.get("let", 0) > 100,
                          "continuations after inert contexts (also on stacks of exactly 4)": ev.labels.get("continuation", 0) > 1000 and ev.labels.get("continuation:stack-of-4", 0) > 100})


def replay(path):
    import json
    rec = json.load(open(path))
    drv = Driver()
    print(drv.run(rec["query"]))
    drv.kill()
    return 0
