"""C17 -- location lists, their operations and abbreviations are consistent with the DIEs.

Locations: generated expressions covering every operand class (none, unsigned, signed, two
operands, block, DIE reference, nested expression) as DW_FORM_exprloc / block forms and as
location lists with 0-5 ranges (.debug_loc for DWARF 2-4, .debug_loclists for DWARF 5).  Per
attribute: one element per stored range, in stored order, with `address` = the range; per
element: `length` = number of `elem` results, `relem` = `elem` reversed, per operation its stored
offset, opcode and operands with sign (`offset`, `label`, `value` and the driver's dump of the
Dwarf_Op), `?OP_x` holds on the element iff some operation has that opcode.
Abbreviations: on generated forests (shared tables, DW_FORM_indirect, implicit_const) every
DIE's `abbrev` must carry the DIE's code, tag, children flag and (name, form) list (forms apart
under DW_FORM_indirect); `abbrev entry` lists each abbreviation of a table exactly once.  Sample
binaries: the same laws, with llvm-dwarfdump --debug-abbrev as independent reader for tables.
"""
import glob, os, random, re, struct, subprocess, time

from .. import dwforest as DF
from ..dwgen import Attr, Die, Unit, Forest, TAG, AT, FORM, ATE, build_file, uleb, sleb, FORM_NAME, AT_NAME
from ..dwcheck import TempElf
from ..drv import Driver, DriverCrash, DriverTimeout
from ..harness import Evidence, run_pool, finish
from ..hdr import dwarf_constants

PID = "C17"
RULE = ("locations: per generated file 40 location attributes (all nine names decoded as locations: location, frame_base, return_addr, data_member_location, data_location, segment, static_link, use_location, vtable_elem_location), each an expression of 1-6 operations drawn from 60 opcodes of all "
        "operand classes, as exprloc/block or as a list of 0-5 (range, expression) entries; abbreviations: every DIE of generated "
        "forests (<= 8 units sharing tables) and of the sample binaries.  Non-trivial: an expression with >= 2 operations incl. a "
        "signed or two-operand one, a list with >= 2 ranges, an abbreviation table shared by >= 2 units or an indirect form.  "
        "Distinct by expression bytes / (file, DIE).")

# opcode table: name -> (code, operand kinds); kinds: u1 u2 u4 u8 s1 s2 s4 s8 uleb sleb addr
OPS = {
    "addr": (0x03, ["addr"]), "deref": (0x06, []), "const1u": (0x08, ["u1"]), "const1s": (0x09, ["s1"]), "const2u": (0x0a, ["u2"]),
    "const2s": (0x0b, ["s2"]), "const4u": (0x0c, ["u4"]), "const4s": (0x0d, ["s4"]), "const8u": (0x0e, ["u8"]), "const8s": (0x0f, ["s8"]),
    "constu": (0x10, ["uleb"]), "consts": (0x11, ["sleb"]), "dup": (0x12, []), "drop": (0x13, []), "over": (0x14, []), "pick": (0x15, ["u1"]),
    "swap": (0x16, []), "rot": (0x17, []), "abs": (0x19, []), "and": (0x1a, []), "div": (0x1b, []), "minus": (0x1c, []), "mul": (0x1e, []),
    "neg": (0x1f, []), "not": (0x20, []), "or": (0x21, []), "plus": (0x22, []), "plus_uconst": (0x23, ["uleb"]), "shl": (0x24, []),
    "eq": (0x29, []), "lit0": (0x30, []), "lit17": (0x41, []), "lit31": (0x4f, []), "reg0": (0x50, []), "reg5": (0x55, []), "reg31": (0x6f, []),
    "breg0": (0x70, ["sleb"]), "breg7": (0x77, ["sleb"]), "breg31": (0x8f, ["sleb"]), "regx": (0x90, ["uleb"]), "fbreg": (0x91, ["sleb"]),
    "bregx": (0x92, ["uleb", "sleb"]), "piece": (0x93, ["uleb"]), "deref_size": (0x94, ["u1"]), "xderef_size": (0x95, ["u1"]), "nop": (0x96, []),
    "push_object_address": (0x97, []), "call_frame_cfa": (0x9c, []), "bit_piece": (0x9d, ["uleb", "uleb"]), "stack_value": (0x9f, []),
    "implicit_value": (0x9e, ["block"]), "GNU_push_tls_address": (0xe0, []), "form_tls_address": (0x9b, []),
}
# operations whose operand refers to a DIE of the unit (CU-relative offset)
TYPED = {"regval_type": (0xa5, ["uleb", "dierefnum"]), "deref_type": (0xa6, ["u1", "dierefnum"]), "GNU_regval_type": (0xf5, ["uleb", "dierefnum"]),
         "GNU_deref_type": (0xf6, ["u1", "dierefnum"]), "convert": (0xa8, ["dierefnum"]), "reinterpret": (0xa9, ["dierefnum"]),
         "GNU_convert": (0xf7, ["dierefnum"]), "GNU_reinterpret": (0xf9, ["dierefnum"]), "const_type": (0xa4, ["dieref", "cblock"]),
         "GNU_const_type": (0xf4, ["dieref", "cblock"])}
SIGNED_KINDS = ("s1", "s2", "s4", "s8", "sleb")


def enc_operand(kind, v, typedie_off=None):
    if kind == "addr":
        return struct.pack("<Q", v)
    if kind[0] in "us" and kind[1:].isdigit():
        n = int(kind[1:])
        return (v & ((1 << (8 * n)) - 1)).to_bytes(n, "little")
    if kind == "uleb":
        return uleb(v)
    if kind == "sleb":
        return sleb(v)
    if kind == "block":
        return uleb(len(v)) + v
    if kind == "cblock":
        return bytes([len(v)]) + v
    if kind in ("dieref", "dierefnum"):
        return uleb(v)
    raise ValueError(kind)


def rand_operand(rnd, kind):
    if kind == "addr":
        return rnd.choice([0, 0x1000, (1 << 63) + 4, (1 << 64) - 1])
    if kind in ("u1", "u2", "u4", "u8"):
        n = int(kind[1:])
        return rnd.choice([0, 1, (1 << (8 * n - 1)) - 1, 1 << (8 * n - 1), (1 << (8 * n)) - 1])
    if kind in ("s1", "s2", "s4", "s8"):
        n = int(kind[1:])
        return rnd.choice([0, 1, -1, (1 << (8 * n - 1)) - 1, -(1 << (8 * n - 1))])
    if kind == "uleb":
        return rnd.choice([0, 1, 127, 128, 300, 16384, (1 << 31), (1 << 32) - 1, (1 << 32) + 1, (1 << 63), (1 << 64) - 1])
    if kind == "sleb":
        return rnd.choice([0, 1, -1, 63, 64, -64, -65, 1000, -1000, -(1 << 31), (1 << 31) - 1, 1 << 31, -(1 << 31) - 1, 1 << 40,
                           -5000000000, (1 << 63) - 1, -(1 << 63)])
    if kind in ("block", "cblock"):
        return bytes(rnd.randint(0, 255) for _ in range(rnd.choice([0, 1, 4, 8] if kind == "block" else [1, 4, 8])))
    raise ValueError(kind)


class LocBuilder:
    def __init__(self, rnd, version):
        self.r = rnd
        self.v = version
        self.loc = bytearray()        # .debug_loc or .debug_loclists body
        self.cases = []
        self.base_type = Die(TAG["base_type"], [Attr(AT["name"], FORM["string"], b"int"), Attr(AT["byte_size"], FORM["data1"], 4),
                                                 Attr(AT["encoding"], FORM["data1"], ATE["signed"])])
        if version >= 5:
            # header of the single location-list table
            self.loc += b"\0" * 12

    def expression(self, allow_typed=True):
        """Returns (bytes, [(name, code, offset, [(kind, value)])])."""
        n = self.r.randint(1, 6)
        out = bytearray()
        ops = []
        for _ in range(n):
            pool = list(OPS.items())
            if allow_typed and self.r.random() < 0.25:
                pool = list(TYPED.items())
            name, (code, kinds) = self.r.choice(pool)
            off = len(out)
            out.append(code)
            operands = []
            for k in kinds:
                if k in ("dieref", "dierefnum"):
                    operands.append((k, "TYPE"))
                    out += b"\x7f"       # placeholder, patched once the type DIE's offset is known (< 0x7f)
                else:
                    v = rand_operand(self.r, k)
                    operands.append((k, v))
                    out += enc_operand(k, v)
            ops.append((name, code, off, operands))
        if self.r.random() < 0.3:
            # a branch: DW_OP_skip / DW_OP_bra carry a signed 2-byte displacement from the end of the operation to
            # the start of another operation of the expression (libdw refuses targets that are not); what is stored
            # -- and what `value` is to report -- is the displacement
            i = self.r.randint(0, len(ops))
            name, code = self.r.choice([("skip", 0x2f), ("bra", 0x28)])
            at = ops[i][2] if i < len(ops) else len(out)
            moved = [(n_, c_, o_ + 3, opr) for n_, c_, o_, opr in ops[i:]]
            allops = ops[:i] + [(name, code, at, None)] + moved
            tgt = self.r.choice(allops)[2]
            disp = tgt - (at + 3)
            allops[i] = (name, code, at, [("s2", disp)])
            out = bytearray(out[:at]) + bytes([code]) + enc_operand("s2", disp) + out[at:]
            ops = allops
        return bytes(out), ops

    def patch(self, expr, ops, type_off):
        b = bytearray(expr)
        for name, code, off, operands in ops:
            pos = off + 1
            for k, v in operands:
                if k in ("dieref", "dierefnum"):
                    b[pos] = type_off
                    pos += 1
                else:
                    pos += len(enc_operand(k, v))
        return bytes(b)

    def build(self):
        rnd = self.r
        dies = [self.base_type]
        pending = []
        for i in range(40):
            kind = rnd.choice(["expr", "expr", "list"])
            # DW_AT_data_member_location in a data form is a constant in DWARF 2/3, not a list pointer
            # ("every location attribute": the nine names atval.cc decodes as location expressions)
            at = rnd.choice(["location", "frame_base", "return_addr", "location", "data_location", "segment", "static_link", "use_location", "vtable_elem_location"]
                            + (["data_member_location"] * 2 if kind == "expr" or self.v >= 4 else []))
            if kind == "expr":
                expr, ops = self.expression()
                form = "exprloc" if self.v >= 4 else rnd.choice(["block1", "block", "block2"])
                a = Attr(AT[at], FORM[form], expr)
                d = Die(TAG["variable"], [a])
                dies.append(d)
                pending.append(("expr", d, a, [(None, None, expr, ops)]))
            else:
                nr = rnd.choice([0, 1, 2, 3, 5])
                entries = []
                lo = 0x10
                for _ in range(nr):
                    hi = lo + rnd.choice([1, 4, 0x100, 0, 0])      # (0: an entry with an empty range, begin == end; it is stored, so it is an element)
                    expr, ops = self.expression()
                    entries.append((lo, hi, expr, ops))
                    lo = hi + rnd.choice([0, 8])
                form = "sec_offset" if self.v >= 4 else "data4"
                a = Attr(AT[at], FORM[form], 0)
                d = Die(TAG["variable"], [a])
                dies.append(d)
                pending.append(("list", d, a, entries))
        root = Die(TAG["compile_unit"], [Attr(AT["name"], FORM["string"], b"loc.c"), Attr(AT["low_pc"], FORM["addr"], 0x1000)], dies)
        units = [Unit(root, self.v)]
        if self.r.random() < 0.6:
            # another unit in front, of the same shape: what is relative to the unit (DIE operands of typed operations)
            # is then not what it is relative to the section, and the DIE at the same relative offset of the first unit
            # is a different type
            pre = Die(TAG["compile_unit"], [Attr(AT["name"], FORM["string"], b"pre.c"), Attr(AT["low_pc"], FORM["addr"], 0x1000)],
                      [Die(TAG["base_type"], [Attr(AT["name"], FORM["string"], b"not"), Attr(AT["byte_size"], FORM["data1"], 1),
                                              Attr(AT["encoding"], FORM["data1"], ATE["unsigned_char"])])])
            units.insert(0, Unit(pre, self.v))
        f = Forest(units)
        f.layout()
        toff = self.base_type.offset - f.units[-1].offset
        assert toff < 0x7f
        base = 0x1000
        for kind, d, a, entries in pending:
            fixed = [(lo, hi, self.patch(e, ops, toff), ops) for lo, hi, e, ops in entries]
            if kind == "expr":
                a.value = fixed[0][2]
                self.cases.append((d, a, [(0, (1 << 64) - 1, fixed[0][2], fixed[0][3])], False))
            else:
                a.value = len(self.loc)
                # base address selection entries (DW_LLE_base_address; the pair (-1, address) in .debug_loc) anywhere
                # in the list -- in front, between entries, at the end: the entries given as offsets that follow one
                # are relative to it, up to the next selection or the end of the list
                cur = base
                absolute = []
                selections = 0
                for j, (lo, hi, e, ops) in enumerate(fixed + [(None, None, None, None)]):
                    if self.r.random() < 0.3:
                        cur = self.r.choice([0x2000, 0x40000, 0x100, cur + 0x10000, 0x7f0000000000, base])
                        selections += 1 if j > 0 else 0
                        self.loc += (bytes([6]) + struct.pack("<Q", cur)) if self.v >= 5 else struct.pack("<QQ", (1 << 64) - 1, cur)
                    if j == len(fixed):
                        break
                    if self.v >= 5:
                        c = self.r.randint(0, 2)
                        if c == 0:
                            self.loc += bytes([4]) + uleb(lo) + uleb(hi) + uleb(len(e)) + e       # offset_pair (relative to the base)
                            absolute.append((cur + lo, cur + hi, e, ops))
                        elif c == 1:
                            self.loc += bytes([7]) + struct.pack("<QQ", base + lo, base + hi) + uleb(len(e)) + e   # start_end
                            absolute.append((base + lo, base + hi, e, ops))
                        else:
                            self.loc += bytes([8]) + struct.pack("<Q", base + lo) + uleb(hi - lo) + uleb(len(e)) + e  # start_length
                            absolute.append((base + lo, base + hi, e, ops))
                    else:
                        self.loc += struct.pack("<QQH", lo, hi, len(e)) + e
                        absolute.append((cur + lo, cur + hi, e, ops))
                self.loc += b"\0" if self.v >= 5 else struct.pack("<QQ", 0, 0)
                self.selections_inside = getattr(self, "selections_inside", 0) + (1 if selections and len(fixed) >= 2 else 0)
                self.cases.append((d, a, absolute, True))
        secs = []
        if self.v >= 5:
            body = bytes(self.loc[4:])
            hdr = struct.pack("<IHBBI", len(body), 5, 8, 0, 0)
            secs.append((b".debug_loclists", hdr + body[8:]))
        else:
            secs.append((b".debug_loc", bytes(self.loc)))
        return f, secs, toff


def expected_values(ops, type_die):
    """[(atom, offset, [expected value descriptors])]."""
    out = []
    for name, code, off, operands in ops:
        vals = []
        for k, v in operands:
            if k == "addr" or k.startswith("u") and k[1:].isdigit() or k == "uleb":
                vals.append(("num", v))
            elif k in SIGNED_KINDS:
                vals.append(("num", v))
            elif k in ("block", "cblock"):
                vals.append(("block", list(v)))
            elif k == "dieref":
                vals.append(("die", type_die.offset))
            elif k == "dierefnum":
                vals.append(("dienum", type_die.offset))
        out.append((code, off, vals))
    return out


def check_locs(drv, ev, f, secs, toff, cases, builder, rnd, version, recipe):
    data = build_file(f, extra_sections=secs)
    unit_off = f.units[-1].offset
    with TempElf(data) as path:
        h = drv.open(path, rnd.random() < 0.3)
        tok = "V%d" % h
        try:
            for d, a, ranges, is_list in cases:
                q = ("entry (offset == %d) attribute ?0 value (|L| [L] [L address] [L length] [L elem] [L relem] [L elem offset] "
                     "[L elem label] [L elem (|O| [O value])] [L elem pos] [L relem pos])") % d.offset
                r = drv.run(q, tok, limit=50, steps=5000000)
                nops = sum(len(x[3]) for x in ranges)
                nt = (any(len(x[3]) >= 2 and any(k in SIGNED_KINDS or len(o) >= 2 for _, _, _, o in x[3] for k, _ in o) for x in ranges)) or len(ranges) >= 2
                ev.case(key=(version, a.form, tuple(x[2] for x in ranges)), nontrivial=nt)
                ev.label("loc:list" if is_list else "loc:expr")
                ev.label("ranges:%d" % len(ranges))
                bad = None
                if "error" in r:
                    bad = "error: %s" % r["error"]
                elif len(r["res"]) != len(ranges):
                    bad = "yields %d elements, %d ranges stored" % (len(r["res"]), len(ranges))
                else:
                    for i, (row, (lo, hi, expr, ops)) in enumerate(zip(r["res"], ranges)):
                        L, addr, length, elem, relem, offs, labels, values, epos, rpos = [x["e"] for x in row[-10:]]
                        lle = L[0]
                        exp = expected_values(ops, builder.base_type)
                        if lle.get("t") != "lle" or "low" not in lle:
                            bad = "`value` of the location attribute is not a location list element but %r" % ({k: v for k, v in lle.items() if k in ("t", "v", "x", "d")},)
                            break
                        if lle["p"] != i:
                            bad = "element #%d has position %d" % (i, lle["p"])
                        elif (int(lle["low"]), int(lle["high"])) != (lo, hi):
                            bad = "element #%d covers %#x..%#x, stored %#x..%#x" % (i, int(lle["low"]), int(lle["high"]), lo, hi)
                        elif [(int(s), int(l)) for s, l in addr[0]["r"]] != ([(lo, hi - lo)] if hi > lo else []):
                            bad = "`address` of element #%d is %r, the range is %#x..%#x" % (i, addr[0]["r"], lo, hi)
                        elif [int(x["v"]) for x in length] != [len(ops)] or len(elem) != len(ops):
                            bad = "length %r, elem yields %d, %d operations stored" % ([x["v"] for x in length], len(elem), len(ops))
                        elif [(o["atom"], o["off"]) for o in elem] != [(c, off) for c, off, _ in exp]:
                            bad = "operations (opcode, offset) %r, stored %r" % ([(o["atom"], o["off"]) for o in elem], [(c, off) for c, off, _ in exp])
                        elif [(o["atom"], o["off"]) for o in relem] != [(c, off) for c, off, _ in reversed(exp)]:
                            bad = "relem is not elem reversed"
                        elif [int(x["v"]) for x in offs] != [off for _, off, _ in exp] or [int(x["v"]) for x in labels] != [c for c, _, _ in exp]:
                            bad = "`offset`/`label` of the operations: %r / %r" % ([x["v"] for x in offs], [x["v"] for x in labels])
                        elif [int(x["v"]) for x in epos] != list(range(len(ops))) or [int(x["v"]) for x in rpos] != list(range(len(ops))):
                            bad = "positions of elem/relem results"
                        else:
                            for (c, off, want), got in zip(exp, values):
                                g = got["e"]
                                if len(g) != len(want):
                                    bad = "operation %#x at %d: `value` yields %d operand(s), %d stored" % (c, off, len(g), len(want))
                                    break
                                for (kind, w), gv in zip(want, g):
                                    if kind == "num" and not (gv["t"] == "c" and int(gv["v"]) == w):
                                        bad = "operation %#x at %d: operand %s, stored %d" % (c, off, gv.get("v", gv["t"]), w)
                                    elif kind == "block" and not (gv["t"] == "q" and [int(x["v"]) for x in gv["e"]] == w):
                                        bad = "operation %#x at %d: block operand %r, stored %r" % (c, off, gv.get("e", gv["t"]), w)
                                    elif kind == "die" and not (gv["t"] == "die" and gv["off"] == w):
                                        bad = "operation %#x at %d: DIE operand %r, stored reference to %#x" % (c, off, gv.get("off", gv["t"]), w)
                                    elif kind == "dienum" and not ((gv["t"] == "c" and int(gv["v"]) in (w, w - unit_off)) or (gv["t"] == "die" and gv["off"] == w)):
                                        bad = "operation %#x at %d: type operand %r, stored reference to %#x" % (c, off, gv.get("v", gv["t"]), w)
                                if bad:
                                    break
                        if bad:
                            break
                    # ?OP_x on the element
                    if not bad and ranges:
                        present = set(c for _, _, _, ops in ranges for _, c, _, _ in ops)
                        names = dwarf_constants()
                        byc = {}
                        for nme, v in names.items():
                            if nme.startswith("DW_OP_"):
                                byc.setdefault(v, nme)
                        probe = [byc[c] for c in sorted(present) if c in byc][:4] + ["DW_OP_xderef", "DW_OP_lit9"]
                        for w in probe:
                            # (both spellings of the word, OP_x and DW_OP_x, each in its ? and ! form)
                            rr = drv.run("entry (offset == %d) attribute ?0 value (|L| [L ?%s pos] [L !%s pos] [L ?%s pos] [L !%s pos])" % (d.offset, w[3:], w[3:], w, w), tok, limit=50)
                            if "error" in rr or "cerror" in rr:
                                continue
                            code = names[w]
                            for i, (row, (lo, hi, expr, ops)) in enumerate(zip(rr["res"], ranges)):
                                holds = len(row[-4]["e"]) == 1
                                nholds = len(row[-3]["e"]) == 1
                                has = any(c == code for _, c, _, _ in ops)
                                if holds != has or nholds == holds:
                                    bad = "?%s on element #%d is %s, the expression %s that opcode" % (w[3:], i, holds, "has" if has else "lacks")
                                    break
                                if (len(row[-2]["e"]) == 1) != has or (len(row[-1]["e"]) == 1) == has:
                                    bad = "?%s / !%s on element #%d are %s / %s, the expression %s that opcode" % (w, w, i, len(row[-2]["e"]) == 1, len(row[-1]["e"]) == 1, "has" if has else "lacks")
                                    break
                            ev.label("?OP_x")
                            if bad:
                                break
                if bad:
                    ev.violations.append({"property": PID, "recipe": recipe, "die": d.offset, "reason": "DWARF %d %s/%s: %s  (stderr %r)" % (
                        version, AT_NAME.get(a.name), FORM_NAME.get(a.form), bad, r.get("stderr", b"")[:100]), "query": q,
                        "signature": "C17:loc:" + bad[:60]})
                elif nt and rnd.random() < 0.01:
                    ev.sample({"dwarf_version": version, "form": FORM_NAME.get(a.form), "ranges": [(hex(lo), hex(hi), e.hex()) for lo, hi, e, _ in ranges][:3]})
        finally:
            drv.req("vclose %d" % h)


def work_loc(task):
    seed, start, count = task
    ev = Evidence()
    drv = Driver(timeout=120)
    try:
        for i in range(start, start + count):
            rnd = random.Random((seed << 32) ^ (i * 2654435761 & 0xffffffff) ^ 0xC17)
            version = rnd.choice([2, 3, 4, 5])
            b = LocBuilder(rnd, version)
            f, secs, toff = b.build()
            try:
                check_locs(drv, ev, f, secs, toff, b.cases, b, rnd, version, {"seed": seed, "index": i})
                ev.labels["lists-with-a-base-selection-behind-the-first-entry"] = ev.labels.get("lists-with-a-base-selection-behind-the-first-entry", 0) + getattr(b, "selections_inside", 0)
            except DriverCrash as e:
                ev.violations.append({"property": PID, "recipe": {"seed": seed, "index": i}, "reason": "driver crashed: " + e.report[-3000:],
                                      "signature": "C17:crash:" + e.request[:60]})
            except DriverTimeout:
                ev.inconc("watchdog")
    finally:
        drv.kill()
    return ev


QAB = ("entry (|D| [D offset] [D abbrev code] [D abbrev label] [D abbrev ?haschildren] [D abbrev attribute label] [D abbrev attribute form] "
       "[D raw attribute label] [D raw attribute form] [D label] [D ?haschildren] [D abbrev] [D abbrev offset] [D abbrev attribute offset])")


def check_abbrevs(drv, ev, path, f=None, what="generated"):
    h = drv.open(path, True)
    tok = "V%d" % h
    try:
        r = drv.run(QAB, tok, limit=200000, steps=500000000)
        ru = drv.run("unit (|U| [U] [U offset] [U abbrev offset] [U abbrev entry code] [U abbrev entry offset])", tok, limit=5000, steps=500000000)
        ra = drv.run("abbrev (|A| [A] [A offset] [A entry code])", tok, limit=5000, steps=500000000)
    finally:
        drv.req("vclose %d" % h)
    if any("error" in x or not x.get("end") for x in (r, ru, ra)):
        if any(x.get("error") and "No DWARF" in x["error"] for x in (r, ru, ra)):
            return None, 0
        if any(x.get("error") and "invalid offset" in x["error"] for x in (ru, ra)) and "error" not in r:
            # an abbreviation table without the terminating zero code at the very end of the section
            # (tests/empty): malformed input, libdw reports the walk past the end
            ev.inconc("abbreviation table without terminator: " + os.path.basename(path))
            return None, 0
        return "abbreviation queries failed: %r" % [x.get("error") for x in (r, ru, ra)], 0
    indirect = FORM["indirect"]
    nt = 0
    model = {d.offset: d for d in f.all_dies()} if f is not None else None
    for row in r["res"]:
        off, code, label, hc, alab, aform, rlab, rform, dlabel, dhc, ab, aboff, aoffs = [x["e"] for x in row[-13:]]
        o = int(off[0]["v"])
        if len(code) != 1 or len(ab) != 1:
            return "DIE %#x: abbrev yields %d values" % (o, len(ab)), nt
        names = [int(x["v"]) for x in alab]
        forms = [int(x["v"]) for x in aform]
        rn = [int(x["v"]) for x in rlab]
        rf = [int(x["v"]) for x in rform]
        if int(label[0]["v"]) != int(dlabel[0]["v"]):
            return "DIE %#x: abbreviation tag %s, DIE tag %s" % (o, label[0]["v"], dlabel[0]["v"]), nt
        if len(hc) != len(dhc):
            return "DIE %#x: abbreviation children flag %d, DIE %d" % (o, len(hc), len(dhc)), nt
        if names != rn:
            return "DIE %#x: abbreviation attribute names %r, DIE's %r" % (o, names, rn), nt
        if len(forms) != len(rf) or any(a != b and a != indirect for a, b in zip(forms, rf)):
            return "DIE %#x: abbreviation forms %r, DIE's %r" % (o, forms, rf), nt
        dump = ab[0]
        if (dump["code"], dump["tag"], dump["ch"]) != (int(code[0]["v"]), int(label[0]["v"]), len(hc)) or \
                [(x[0], x[1]) for x in dump["attrs"]] != list(zip(names, forms)):
            return "DIE %#x: words disagree with the abbreviation object: %r" % (o, dump), nt
        if [int(x["v"]) for x in aoffs] != [x[2] for x in dump["attrs"]]:
            return "DIE %#x: abbreviation attribute offsets %r vs %r" % (o, [x["v"] for x in aoffs], [x[2] for x in dump["attrs"]]), nt
        if indirect in forms:
            nt += 1
        if model is not None:
            d = model.get(o)
            if d is None:
                return "DIE %#x is not in the model" % o, nt
            if int(code[0]["v"]) != d.abbrev_code or forms != [a.abbrev_form for a in d.attrs]:
                return ("DIE %#x: abbreviation code %s forms %r, written code %d forms %r"
                        % (o, code[0]["v"], forms, d.abbrev_code, [a.abbrev_form for a in d.attrs])), nt
            if int(aboff[0]["v"]) != d.unit.abbrevs.offset + d.unit.abbrevs.entry_offsets[d.abbrev_code]:
                return "DIE %#x: abbreviation offset %s, written at %d" % (o, aboff[0]["v"], d.unit.abbrevs.offset + d.unit.abbrevs.entry_offsets[d.abbrev_code]), nt
    # tables: each abbreviation exactly once
    tables = {}
    unit_dw = {}
    for row in ru["res"]:
        udump = row[-5]["e"][0]
        uoff, taboff, codes, offs = [[int(x["v"]) for x in c["e"]] for c in row[-4:]]
        taboff = [(udump["dw"], taboff[0])]
        unit_dw[(udump["dw"], udump["off"])] = udump["dw"]
        if len(set(codes)) != len(codes):
            return "unit %#x: `abbrev entry` lists a code twice: %r" % (uoff[0], codes), nt
        if sorted(offs) != offs or len(set(offs)) != len(offs):
            return "unit %#x: abbreviations not in stored order" % uoff[0], nt
        if taboff[0] in tables and tables[taboff[0]] != codes:
            return "table %r listed differently through two units" % (taboff[0],), nt
        if taboff[0] in tables:
            nt += 1
        tables[taboff[0]] = codes
    listed = {}
    dws = {}
    for (dw, cu), v in unit_dw.items():
        dws[(dw, cu)] = dw
    for row in ra["res"]:
        adump = row[-3]["e"][0]
        taboff, codes = [[int(x["v"]) for x in c["e"]] for c in row[-2:]]
        # the abbreviation unit is dumped with the CU it was reached through: find that CU's Dwarf
        dw = next((d for (d, cu) in unit_dw if cu == 0 and False), None)
        cands = [d for (d, cu) in unit_dw if True]
        key = None
        for (d, cuo), _ in unit_dw.items():
            if (d, taboff[0]) in tables and (d, taboff[0]) not in listed:
                key = (d, taboff[0])
                break
        if key is None:
            return "`abbrev` lists table %#x more often than the units use it" % taboff[0], nt
        taboff = [key]
        if taboff[0] in listed:
            return "`abbrev` lists table %r twice" % (taboff[0],), nt
        listed[taboff[0]] = codes
    if listed != tables:
        return "`abbrev` lists tables %r, the units use %r" % (sorted(listed), sorted(tables)), nt
    if f is not None:
        want = {}
        for u in f.units:
            want[u.abbrevs.offset] = [e[0] for e in u.abbrevs.entries]
        if want != {k[1]: v for k, v in tables.items()}:
            return "tables %r, written %r" % (tables, want), nt
    return None, nt


def dwarfdump_abbrevs(path):
    out = subprocess.run(["llvm-dwarfdump-14", "--debug-abbrev", path], stdout=subprocess.PIPE, stderr=subprocess.PIPE).stdout.decode("latin-1")
    tabs = {}
    cur = None
    for line in out.splitlines():
        m = re.match(r"Abbrev table for offset: 0x([0-9a-fA-F]+)", line)
        if m:
            cur = int(m.group(1), 16)
            tabs[cur] = []
            continue
        m = re.match(r"\[(\d+)\] (DW_TAG_\w+)\s+DW_CHILDREN_(yes|no)", line)
        if m and cur is not None:
            tabs[cur].append(int(m.group(1)))
    return tabs


def work_abbrev_gen(task):
    seed, start, count = task
    ev = Evidence()
    drv = Driver(timeout=180)
    try:
        for i in range(start, start + count):
            rnd = random.Random((seed << 32) ^ (i * 2654435761 & 0xffffffff) ^ 0x0C17)
            g = DF.ForestGen(rnd, DF.FCfg(max_units=rnd.choice([2, 4, 8]), max_dies=rnd.choice([20, 50]), shared_abbrevs=0.7))
            f = g.forest()
            data = build_file(f)
            try:
                with TempElf(data) as path:
                    why, nt = check_abbrevs(drv, ev, path, f)
            except DriverCrash as e:
                ev.violations.append({"property": PID, "recipe": {"seed": seed, "index": i, "kind": "abbrev"}, "reason": "driver crashed: " + e.report[-3000:],
                                      "signature": "C17:abcrash:%d" % i})
                continue
            except DriverTimeout:
                ev.inconc("watchdog")
                continue
            ev.case(n=len(f.all_dies()))
            for k in range(nt):
                ev.nontrivial.add("%x" % hash((data, k)))
            ev.label("abbrev:generated")
            if g.labels.get("shared-abbrev-unit", 0) >= 2:
                ev.label("abbrev:shared-table")
            if why:
                ev.violations.append({"property": PID, "recipe": {"seed": seed, "index": i, "kind": "abbrev"}, "reason": "abbrev: " + why,
                                      "signature": "C17:ab:" + why[:60]})
            elif nt and rnd.random() < 0.03:
                ev.sample({"units": len(f.units), "tables": len(set(id(u.abbrevs) for u in f.units)), "dies": len(f.all_dies()), "indirect_or_shared": nt})
    finally:
        drv.kill()
    return ev


def work_samples(paths):
    ev = Evidence()
    drv = Driver(timeout=600)
    try:
        for path in paths:
            try:
                why, nt = check_abbrevs(drv, ev, path, None, "sample")
                if why is None and nt == 0 and False:
                    pass
                ev.case(key=("sample", path), nontrivial=True)
                ev.label("abbrev:sample")
                if why:
                    ev.violations.append({"property": PID, "file": path, "reason": os.path.basename(path) + ": abbrev: " + why,
                                          "signature": "C17:sample:" + os.path.basename(path)})
                # location laws on samples: length == #elem, relem reversed
                h = drv.open(path, False)
                r = drv.run("entry attribute ?(form (== DW_FORM_exprloc || == DW_FORM_sec_offset || == DW_FORM_block1 || == DW_FORM_data4)) "
                            "?(label (== DW_AT_location || == DW_AT_frame_base || == DW_AT_data_member_location)) value ?(type == T_LOCLIST_ELEM) "
                            "(|L| [L length] [L elem offset] [L relem offset] [L elem label])", "V%d" % h, limit=20000, steps=500000000)
                drv.req("vclose %d" % h)
                if "error" not in r:
                    for row in r["res"]:
                        ln, eo, ro, el = [[int(x["v"]) for x in c["e"]] for c in row[-4:]]
                        ev.case(key=("sloc", path, tuple(eo), tuple(el)), nontrivial=len(eo) >= 2)
                        ev.label("loc:sample")
                        if ln != [len(eo)] or ro != list(reversed(eo)):
                            ev.violations.append({"property": PID, "file": path, "reason": "%s: location element: length %r, elem offsets %r, relem %r" % (os.path.basename(path), ln, eo, ro),
                                                  "signature": "C17:sloc:" + os.path.basename(path)})
                            break
            except DriverCrash as e:
                ev.violations.append({"property": PID, "file": path, "reason": "driver crashed: " + e.report[-3000:], "signature": "C17:scrash:" + os.path.basename(path)})
            except DriverTimeout:
                ev.inconc("watchdog: " + os.path.basename(path))
            except RuntimeError:
                ev.inconc("cannot open: " + os.path.basename(path))
    finally:
        drv.kill()
    return ev


def main(tier, seed):
    t0 = time.time()
    ev = Evidence()
    n = 160 if tier == "quick" else 5000
    per = max(2, n // 64)
    ev.merge(run_pool(work_loc, [(seed, s, min(per, n - s)) for s in range(0, n, per)]))
    na = 1200 if tier == "quick" else 30000
    per = max(10, na // 48)
    ev.merge(run_pool(work_abbrev_gen, [(seed, s, min(per, na - s)) for s in range(0, na, per)]))
    samples = sorted(p for p in glob.glob("/repo/tests/*") if os.path.isfile(p) and open(p, "rb").read(4) == b"\x7fELF")
    ev.merge(run_pool(work_samples, [samples[i::10] for i in range(10)]))
    return finish(PID, tier, seed, ev, RULE, t0,
                  assumptions=["libdw's expression decoder (dwarf_getlocations) is trusted for well-formed expressions; branch operations are not generated (libdw validates their targets)",
                               "operands that reference a type DIE may be reported as the DIE or as its (unit-relative or absolute) offset",
                               "the element of a single expression covers 0..0xffffffffffffffff; `address` of it is the set [0, 2^64-1) (the last address is not representable in an address set, C16)"],
                  health={"lists and expressions": ev.labels.get("loc:list", 0) > 100 and ev.labels.get("loc:expr", 0) > 100,
                          "lists with a base address selection behind the first entry": ev.labels.get("lists-with-a-base-selection-behind-the-first-entry", 0) > 100,
                          "multi-range lists": sum(ev.labels.get("ranges:%d" % k, 0) for k in (2, 3, 5)) > 50,
                          "?OP_x checked": ev.labels.get("?OP_x", 0) > 100,
                          "shared tables": ev.labels.get("abbrev:shared-table", 0) > 20,
                          "samples": ev.labels.get("abbrev:sample", 0) >= 10})


def replay(path):
    import json
    rec = json.load(open(path))
    print(rec.get("reason"))
    return 0
