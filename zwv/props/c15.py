"""C15 -- notation does not change meaning: sugar, layout and the simplifier are transparent.

Differential, engine vs engine: every generated program is run in its canonical rendering and
in variants the documentation declares equivalent; results must be identical (same sequence
for pure layout/simplifier variants, same multiset for structural rewrites), and a compile
error on one side must be a compile error on the other.

Variants: whitespace / newline / the three comment styles between tokens; redundant
parentheses; integer radix-prefix spellings; escape spellings; "a"\\ "b" splitting; raw
strings; %s %d %x %o %b vs %( ... %); E? vs (E,); if vs (?(C) A, !(C) B); ?(E)/!(E) vs
([E] != []) / ([E] == []); infix vs ?(let ..; let ..; .. ?op); compiled with and without
tree::simplify.
"""
import random, time
from collections import Counter

from .. import gen as G, model as M
from ..drv import Driver, DriverCrash, DriverTimeout
from ..harness import Evidence, run_pool, finish
from ..render import render
from ..shrink import children, replace_at, is_node
from .c01 import canon_stack, rand_prefix, with_prefix

PID = "C15"
RULE = ("seeded random typed programs (depth <= 3) plain or behind a 2-3-yield prefix; for each, every layout variant "
        "(6 whitespace/comment fillers, redundant parentheses, empty expressions `()` sprinkled between statements, 3 integer spellings, 4 escape spellings, string splitting, "
        "sugar off), every single-position structural rewrite (E? / if / ?(E) / !(E) / infix / raw string), and the "
        "unsimplified build; the directives %s %d %x %o %b against their %( ... %) expansions on DWARF values too (attributes, symbols, location operations, DIEs, abbreviations, units of four sample files: their `value` is a named constant, an address, a string).  Non-trivial: the rewrite position is nested inside another construct, or the simplifier "
        "changed the tree (printed trees differ), or a comment was inserted.  Distinct by (program, variant).")

INFIXW = {"==": "?eq", "!=": "?ne", "<": "?lt", "<=": "?le", ">": "?gt", ">=": "?ge", "=~": "?match", "!~": "!match"}

WS = [
    lambda i: "  ",
    lambda i: "\n",
    lambda i: "\t \n ",
    lambda i: " /* c%d */ " % i,
    lambda i: " // line %d\n" % i,
    # Inside %( %) the scanner counts brackets and quotes textually, comments included (known
    # finding, reported separately): there the comment text is kept free of them.
    lambda i, sp=0: (" # hash %d\n" % i) if sp else (" # hash ) ] \" %d\n" % i),
    lambda i: (" ", "\n", " /**/ ", " #\n", " //\n\t")[i % 5],
]


def nop_fill(r, k):
    """Spellings of the empty expression to insert at one gap of a concatenation."""
    x = r.random()
    if x < (0.45, 0.25)[k]:
        return []
    if x < 0.7:
        return ["()"]
    if x < 0.85:
        return ["()", "()"]
    if x < 0.93:
        return ["(() ())"]
    return ["()", "( )", "(())"]


def stack_effect_ok_for_capture(node):
    """?(E) vs ([E] != []) needs E to leave a value to capture: require that E ends by pushing."""
    k = node[0]
    if k in ("lit", "str", "elist", "cap", "block"):
        return True
    if k == "cat" and node[1]:
        return stack_effect_ok_for_capture(node[1][-1])
    if k == "word" and node[1] in ("true", "false", "dup", "over", "T_CONST", "T_STR", "T_SEQ"):
        return True
    return False


def raw_ok(b):
    """Can the bytes B stand in a raw (segment of a) literal as they are?  A raw literal has no way to say a
    double quote or NUL; `%` is said `%%` as everywhere; a backslash is lexed together with the byte after it
    (both are kept), so that byte must exist and be neither `%` (half of `%%`) nor a quote."""
    if b'"' in b or b"\0" in b:
        return False
    i = 0
    while i < len(b):
        if b[i] == 0x5c:
            if i + 1 >= len(b) or b[i + 1] in (0x25, 0x22):
                return False
            i += 2
        else:
            i += 1
    return True


def rewrite_here(n, rnd):
    """Equivalent forms of node N itself: list of (rule, new node)."""
    out = []
    k = n[0]
    if k == "opt":
        out.append(("E?=(E,)", ("alt", [n[1], ("nop",)])))
    if k == "if":
        out.append(("if=alt", ("scope", (), ("alt", [("cat", [("sub", True, (), n[1]), ("scope", (), n[2])]),
                                                      ("cat", [("sub", False, (), n[1]), ("scope", (), n[3])])]))))
    if k == "sub" and not n[2] and stack_effect_ok_for_capture(n[3]):
        out.append(("?(E)=([E]!=[])", ("scope", (), ("infix", ("cap", (), n[3]), "!=" if n[1] else "==", ("elist",)))))
    if k == "infix" and n[2] in INFIXW:
        a, b = "Tmpa%d" % rnd.randint(0, 9), "Tmpb%d" % rnd.randint(0, 9)
        out.append(("infix=?(let)", ("sub", True, (), ("cat", [("let", (a,), n[1]), ("let", (b,), n[3]),
                                                              ("read", a), ("read", b), ("word", INFIXW[n[2]])]))))
    if k == "str" and not n[2] and n[1] and all(raw_ok(p) for p in n[1] if isinstance(p, bytes)):
        # r"a\\nb" denotes the bytes as written, i.e. the same as "a\\\\nb"; %%, %s and %( %) work as in any literal
        has = lambda f: any(isinstance(p, bytes) and f(p) for p in n[1])
        rule = "raw-string"
        if has(lambda p: b"\\" in p):
            rule = "raw-string-backslash"
        elif has(lambda p: b"%" in p):
            rule = "raw-string-percent"
        elif any(not isinstance(p, bytes) for p in n[1]):
            rule = "raw-string-splice"
        out.append((rule, ("str", n[1], True)))
        if sum(len(p) if isinstance(p, bytes) else 1 for p in n[1]) >= 2:
            out.append(("raw-string-mixed", ("str", n[1], "mixed")))
    return out


def all_rewrites(node, rnd, nested=False):
    """Yield (rule, nested?, new tree) for one rewrite at each applicable position."""
    for rule, new in rewrite_here(node, rnd):
        yield rule, nested, new
    inner = nested or node[0] not in ("cat",) and not (node[0] == "scope" and not node[1])
    for path, child in children(node):
        for rule, nst, new in all_rewrites(child, rnd, inner):
            yield rule, nst, replace_at(node, path, new)


def full_stack(s):
    def cv(v):
        if v["t"] == "q":
            return ("q", tuple(cv(e) for e in v["e"]), v["p"])
        return (v["t"], v.get("v"), v.get("x"), v.get("d"), v["p"])
    return tuple(cv(v) for v in s)


def run(drv, text, flags=0):
    return drv.run(text, flags=flags, limit=3000, steps=2000000)


def outcome(r):
    if "cerror" in r:
        return ("cerror",)
    if "error" in r:
        return ("error", len(r.get("res", [])))
    if not r.get("end"):
        return ("capped",)
    return ("ok",)


def same(r0, r1, ordered):
    o0, o1 = outcome(r0), outcome(r1)
    if o0[0] == "capped" or o1[0] == "capped":
        return None
    if o0 != o1:
        return "outcome differs: %r vs %r (%s / %s)" % (o0, o1, r0.get("cerror") or r0.get("error"), r1.get("cerror") or r1.get("error"))
    if o0[0] != "ok":
        return None
    a = [canon_stack(s) for s in r0["res"]]
    b = [canon_stack(s) for s in r1["res"]]
    if ordered:
        if a != b:
            return "result sequences differ (%d vs %d results)" % (len(a), len(b))
        # a pure change of notation (layout, spelling, simplifier) must not even change positions
        pa = [full_stack(s) for s in r0["res"]]
        pb = [full_stack(s) for s in r1["res"]]
        if pa != pb:
            k = next(i for i in range(len(pa)) if pa[i] != pb[i])
            return "result #%d has the same values at different positions: %r vs %r" % (k, pa[k], pb[k])
    elif Counter(a) != Counter(b):
        return "result multisets differ: only-canonical %r only-variant %r" % (
            list((Counter(a) - Counter(b)).elements())[:2], list((Counter(b) - Counter(a)).elements())[:2])
    if ordered and (r0["stderr"].count(b"Error:") > 0) != (r1["stderr"].count(b"Error:") > 0):
        return "one side reports errors, the other does not"
    return None


def work(task):
    seed, start, count, depth = task
    ev = Evidence()
    drv = Driver()
    try:
        for i in range(start, start + count):
            if len(ev.violations) >= 30:
                break       # verdict settled
            rnd = random.Random((seed << 32) ^ (i * 2654435761 & 0xffffffff) ^ 0xC15)
            g = G.Gen(rnd, G.Cfg(max_depth=depth, soft=0.03, scope_errors=0.01 if i % 5 == 0 else 0.0))
            pre = rand_prefix(rnd) if rnd.random() < 0.5 else None
            node, _ = g.program([] if pre is None else [G.U])
            node = with_prefix(pre, node)
            if i % 16 == 5:
                # postfix operators stacked on one another (E+?, E*?, E?+, E??, (E+)? ...) over a small step function,
                # captured, so that the order of the results is part of the value
                step = rnd.choice([("cat", [("lit", 1, "dec"), ("word", "add"), ("sub", True, (), ("cat", [("word", "dup"), ("lit", rnd.randint(2, 5), "dec"), ("word", "?lt")]))]),
                                   ("cat", [("word", "elem"), ("sub", True, (), ("cat", [("word", "type"), ("word", "T_SEQ"), ("word", "?eq")]))])])
                start = ("lit", rnd.randint(0, 2), "dec") if step[1][0][0] == "lit" else ("cap", (), ("alt", [("lit", 1, "dec"), ("cap", (), ("alt", [("lit", 2, "dec"), ("cap", (), ("lit", 3, "dec"))]))]))
                e = step
                for op in [rnd.choice(["plus", "star", "opt"]) for _ in range(rnd.randint(2, 3))]:
                    e = (op, e)
                if "opt" not in [x for x in (e[0], e[1][0])]:
                    e = ("opt", e)
                node = ("cap", (), ("cat", [start, e]))
                ev.label("stacked-postfix-operators")
            text = render(node)
            try:
                r0 = run(drv, text)
                variants = []
                for wi, ws in enumerate(WS):
                    variants.append(("layout:ws%d" % wi, render(node, ws=ws), True, wi >= 3))
                variants.append(("layout:parens", render(node, parens=True), True, False))
                for st in (1, 2):
                    variants.append(("spelling:int%d" % st, render(node, intstyle=st), True, False))
                for st in (1, 2, 3, 4, 5, 6):
                    variants.append(("spelling:esc%d" % st, render(node, escstyle=st), True, False))
                variants.append(("string:split", render(node, split=lambda j: rnd.random() < 0.5,
                                                        splitws=rnd.choice([" ", "", "\n", "\t \n"])), True, False))
                variants.append(("sugar:off", render(node, sugar=False), True, False))
                # the empty expression is the identity: sprinkle it between statements (1-3 per gap, also nested)
                for k in (0, 1):
                    nr = random.Random(rnd.random())
                    variants.append(("layout:nops%d" % k, render(node, nops=lambda nr=nr, k=k: nop_fill(nr, k)), True, False))
                for name, vt, ordered, cmt in variants:
                    if vt == text:
                        continue
                    r1 = run(drv, vt)
                    why = same(r0, r1, ordered)
                    if not why and name.startswith("layout:nops"):
                        # here the simplifier has NOPs to remove: the variant must also agree with itself unsimplified
                        why = same(r1, run(drv, vt, flags=1), True)
                        if why:
                            why = "with vs without tree::simplify: " + why
                    ev.case(key=(text, name), nontrivial=cmt or name in ("string:split", "sugar:off") or name.startswith("layout:nops"))
                    ev.label(name)
                    if why:
                        ev.violations.append({"property": PID, "rule": name, "query": text, "variant": vt, "reason": "%s: %s" % (name, why),
                                              "signature": "C15:%s:%s" % (name, text[:120])})
                # simplifier on/off
                r1 = run(drv, text, flags=1)
                why = same(r0, r1, True)
                tr = drv.tree(text)
                fired = "raw" in tr and tr["raw"] != tr["simp"]
                ev.case(key=(text, "simplify"), nontrivial=fired)
                ev.label("simplify:fired" if fired else "simplify:noop")
                if why:
                    ev.violations.append({"property": PID, "rule": "simplify", "query": text, "reason": "with vs without tree::simplify: " + why,
                                          "trees": tr.get("raw", "")[:300] + " => " + tr.get("simp", "")[:300],
                                          "signature": "C15:simplify:" + text[:120]})
                # structural rewrites, one position at a time
                nrw = 0
                for rule, nested, new in all_rewrites(node, rnd):
                    nrw += 1
                    if nrw > 12:
                        break
                    vt = render(new)
                    r1 = run(drv, vt)
                    # E? and (E,) are the same alternatives in the same order, a raw literal is the same literal: the
                    # results must come in the same order too; the other rewrites introduce new constructs (compared as multisets)
                    why = same(r0, r1, rule == "E?=(E,)" or rule.startswith("raw-string"))
                    ev.case(key=(text, rule, vt), nontrivial=nested)
                    ev.label("rewrite:" + rule)
                    if nested:
                        ev.label("rewrite-nested")
                    if why:
                        ev.violations.append({"property": PID, "rule": rule, "query": text, "variant": vt, "reason": "%s: %s" % (rule, why),
                                              "signature": "C15:%s:%s" % (rule, text[:120])})
                    elif nested and rnd.random() < 0.01:
                        ev.sample({"rule": rule, "canonical": text[:200], "variant": vt[:200], "results": len(r0.get("res", []))})
            except DriverCrash as e:
                ev.violations.append({"property": PID, "query": text, "reason": "driver crashed: " + e.report[-3000:],
                                      "signature": "C15:crash:" + text[:100]})
            except DriverTimeout:
                ev.inconc("watchdog")
    finally:
        drv.kill()
    return ev


# The directives stand for `%( value hex %)` etc. whatever is on top of the stack -- also a DWARF value, whose
# `value` is a named constant, an address, a string, a DIE ...
DW_SUGAR_FILES = ["/repo/tests/a1.out", "/repo/tests/nontrivial-types.o", "/repo/tests/y-mips.o", "/repo/tests/enum.o"]
DW_SUGAR_PREFIXES = ["entry attribute", "entry attribute ?AT_name", "entry attribute ?AT_language", "entry attribute ?AT_low_pc", "symbol",
                     "entry @AT_location elem", "entry ?(@AT_location) @AT_location", "entry", "entry attribute value", "entry attribute label",
                     "entry attribute form", "entry abbrev", "entry abbrev attribute", "unit", "entry address", "symbol label", "entry offset",
                     "entry @AT_decl_line", "entry @AT_encoding", "entry @AT_const_value", "entry attribute ?AT_byte_size"]
DW_SUGAR = [("%s", "%( %)"), ("%d", "%( value %)"), ("%x", "%( value hex %)"), ("%o", "%( value oct %)"), ("%b", "%( value bin %)"),
            ("<%d|%x>", "<%( value %)|%( value hex %)>")]


def work_dw_sugar(path):
    import os
    ev = Evidence()
    drv = Driver(timeout=120)
    try:
        tok = "V%d" % drv.open(path, False)
        for P in DW_SUGAR_PREFIXES:
            for short, long_ in DW_SUGAR:
                q0, q1 = '%s "%s"' % (P, short), '%s "%s"' % (P, long_)
                r0, r1 = drv.run(q0, tok, limit=3000, steps=50000000), drv.run(q1, tok, limit=3000, steps=50000000)
                if "cerror" in r0 or "cerror" in r1:
                    if ("cerror" in r0) != ("cerror" in r1):
                        ev.violations.append({"property": PID, "query": q0, "variant": q1, "file": path, "signature": "C15:dwsugar:" + P + short,
                                              "reason": "one spelling compiles, the other does not: %r / %r" % (r0.get("cerror"), r1.get("cerror"))})
                    continue
                a = ([full_stack(s_) for s_ in r0["res"]], r0.get("error"), r0["stderr"].count(b"Error"))
                b = ([full_stack(s_) for s_ in r1["res"]], r1.get("error"), r1["stderr"].count(b"Error"))
                ev.case(key=("dwsugar", os.path.basename(path), P, short), nontrivial=bool(r0["res"]))
                ev.label("dwarf-values:" + short)
                if a != b:
                    k = next((k for k, (x, y) in enumerate(zip(a[0] + [None], b[0] + [None])) if x != y), -1)
                    ev.violations.append({"property": PID, "query": q0, "variant": q1, "file": path, "signature": "C15:dwsugar:" + P + short,
                                          "reason": "on %s: %s yields %d result(s), %d diagnostic(s); its expansion %s yields %d, %d; first difference at #%d: %r vs %r"
                                          % (os.path.basename(path), q0, len(a[0]), a[2], q1, len(b[0]), b[2], k, (a[0] + [None])[k] if k >= 0 else None, (b[0] + [None])[k] if k >= 0 else None)})
    except DriverCrash as e:
        ev.violations.append({"property": PID, "query": e.request[:200], "file": path, "reason": "driver crashed: " + e.report[-2500:], "signature": "C15:dwsugar-crash:" + path})
    except DriverTimeout:
        ev.inconc("watchdog")
    finally:
        drv.kill()
    return ev


KNOWN_COMMENT = '"%( 1 # ) comment\n %)"'


def known_findings(ev):
    """Demonstrate the listed known finding; silent if it no longer reproduces."""
    from ..harness import load_known
    drv = Driver()
    try:
        for k in load_known():
            if k.get("property") == PID and k.get("status") == "known" and k.get("signature") == "comment-with-bracket-in-splice":
                r = drv.run(KNOWN_COMMENT)
                if "cerror" in r:
                    ev.known_hits[k["signature"]] = k["what"]
    finally:
        drv.kill()


def main(tier, seed):
    t0 = time.time()
    n, depth = (2000, 3) if tier == "quick" else (40000, 3)
    per = max(10, n // 64)
    ev = run_pool(work, [(seed, s, min(per, n - s), depth) for s in range(0, n, per)])
    known_findings(ev)
    ev.merge(run_pool(work_dw_sugar, DW_SUGAR_FILES))
    ev.extra["programs"] = n
    need = ["rewrite:E?=(E,)", "rewrite:if=alt", "rewrite:?(E)=([E]!=[])", "rewrite:infix=?(let)", "rewrite:raw-string",
            "rewrite:raw-string-backslash", "rewrite:raw-string-percent", "rewrite:raw-string-splice", "rewrite:raw-string-mixed",
            "simplify:fired", "stacked-postfix-operators", "dwarf-values:%d", "dwarf-values:%x", "spelling:esc4", "spelling:esc5", "spelling:esc6", "string:split", "sugar:off", "layout:ws4", "layout:nops0", "layout:nops1"]
    return finish(PID, tier, seed, ev, RULE, t0,
                  assumptions=["equivalences as stated in doc/syntax.rst; ?(E) vs ([E] != []) only where E ends by pushing a value",
                               "string literals nested inside %( %) keep their backslashes and quotes (in every escape spelling); comments inside %( %) avoid brackets and quotes (known finding)"],
                  health={("class %s non-empty" % k): ev.labels.get(k, 0) > 0 for k in need})


def replay(path):
    import json
    rec = json.load(open(path))
    drv = Driver()
    r0 = run(drv, rec["query"])
    if rec.get("rule") == "simplify":
        r1 = run(drv, rec["query"], flags=1)
        why = same(r0, r1, True)
    else:
        r1 = run(drv, rec["variant"])
        why = same(r0, r1, rec.get("rule", "").startswith(("layout", "spelling", "string", "sugar")))
    print(why)
    drv.kill()
    return 1 if why else 0
