"""C05 -- navigation words (parent/child/root/unit/entry) agree on every DIE.

For every DIE of every input (generated forests with partial-unit import graphs nested several
levels incl. double imports; sample binaries), in raw and in cooked mode, the laws of the
statement are evaluated in Python over the driver's direct dumps of the yielded values (DIE
identity = Dwarf, offset and -- in cooked mode -- the import path), so a defect in `==` cannot
mask them.  For generated forests the model additionally supplies the expected entry list,
children, parent, root and unit of every DIE.
"""
import glob, os, random, time

from .. import dwforest as DF
from ..dwgen import build_file, TAG, AT
from ..dwcheck import TempElf, TempElfSet, forest_files, SCRATCH
from ..drv import Driver, DriverCrash, DriverTimeout
from ..harness import Evidence, run_pool, finish

PID = "C05"
RULE = ("every DIE of generated forests (<= 8 units, partial units imported through <= 4 levels, twice into one unit, under "
        "nested hosts) and of the ELF files in /repo/tests, raw and cooked.  Laws per DIE D: each C in `D child` has `C parent` = D; "
        "`D root` = last of `D parent*` and satisfies ?root; `unit entry` = `entry`; set(`U entry`) = set(`U root child*`); "
        "`D unit` is the unit whose raw `entry` lists D; D fetched twice by the same route is equal with equal offset/label/"
        "attributes; plus the model's expected values on generated forests.  Non-trivial: the DIE is at depth >= 2 or inside a "
        "partial unit reached through >= 1 import.  Distinct by (file, mode, DIE route).")

QD = ("entry (|D| [D] [D child] [D parent] [D root] [D unit] [D ?root] [D parent*] [D root ?root] [D offset] [D label] "
      "[D attribute label] [D D ?eq])")
QU = "unit (|U| [U] [U entry] [U root] [U root child*])"
QUU = "(|W| W entry (|D| D offset [W raw unit (|U| ?(U D unit ?eq))] length))"
QE = ("unit (|U| U [U entry] length [U root child*] length [U entry (|D| D ?(U root child* (|E| E D ?eq)))] length "
      "[U root child* (|D| D ?(U entry (|E| E D ?eq)))] length)")


def ident(d, cooked):
    return (d["dw"], d["off"], tuple(d["imp"]) if cooked else ())


def laws(ev, what, mode, rd, ru, rd2, model=None):
    """rd: per-DIE rows; ru: per-unit rows.  Returns (reason or None, number of non-trivial DIEs)."""
    cooked = mode == "cooked"
    rows = rd["res"]
    nt = 0
    entry_seq = []
    for i, row in enumerate(rows):
        D = row[0]["e"][0]
        me = ident(D, cooked)
        entry_seq.append(me)
        kids = row[1]["e"]
        par = row[2]["e"]
        root = row[3]["e"]
        unit = row[4]["e"]
        isroot = len(row[5]["e"]) == 1
        chain = row[6]["e"]
        if D["p"] != i:
            return "entry: DIE #%d has position %d" % (i, D["p"]), nt
        if len(root) != 1 or len(unit) != 1:
            return "DIE %#x: root/unit yield %d/%d values" % (D["off"], len(root), len(unit)), nt
        if len(par) > 1:
            return "DIE %#x: parent yields %d values" % (D["off"], len(par)), nt
        if (len(par) == 0) != isroot:
            return "DIE %#x: ?root is %s but parent yields %d" % (D["off"], isroot, len(par)), nt
        # parent* chain: D, parent, grandparent, ...; its end is the root
        if not chain or ident(chain[0], cooked) != me:
            return "DIE %#x: parent* does not start with the DIE itself" % D["off"], nt
        last = chain[-1]
        if ident(last, cooked)[:2] != ident(root[0], cooked)[:2]:
            return ("DIE %#x (import path %r): `root` is %#x but the parent chain ends at %#x"
                    % (D["off"], D["imp"], root[0]["off"], last["off"])), nt
        if len(row[7]["e"]) != 1:
            return "DIE %#x: its root does not satisfy ?root" % D["off"], nt
        if len(row[11]["e"]) != 1:
            return "DIE %#x does not equal itself" % D["off"], nt
        if len(chain) >= 3 or D["imp"]:
            nt += 1
        # positions of children 0..n-1
        if [k["p"] for k in kids] != list(range(len(kids))):
            return "DIE %#x: children are numbered %r" % (D["off"], [k["p"] for k in kids]), nt
    # child/parent agreement needs the rows of the children: index rows by identity
    by_id = {}
    for row in rows:
        by_id.setdefault(ident(row[0]["e"][0], cooked), row)
    for row in rows:
        D = row[0]["e"][0]
        me = ident(D, cooked)
        for k in row[1]["e"]:
            # `child` starts a fresh traversal: the import path of a yielded child is relative to D
            # (the statement only asks for `==`, under which a shorter path matches).
            kid = ident(k, cooked)
            krow = by_id.get((kid[0], kid[1], kid[2] + me[2])) or by_id.get(kid)
            if krow is None:
                return "DIE %#x: child %#x (path %r) is not listed by `entry`" % (D["off"], k["off"], k["imp"]), nt
            kp = krow[2]["e"]
            if len(kp) != 1 or ident(kp[0], cooked)[:2] != me[:2]:
                return "child %#x of DIE %#x has parent %s" % (k["off"], D["off"], [hex(x["off"]) for x in kp]), nt
            if cooked and tuple(kp[0]["imp"]) != me[2] and krow is by_id.get((kid[0], kid[1], kid[2] + me[2])):
                return ("child %#x (path %r) of DIE %#x (path %r): `parent` yields that DIE with import path %r"
                        % (k["off"], k["imp"], D["off"], list(me[2]), kp[0]["imp"])), nt
    # unit entry == entry
    useq = []
    for urow in ru["res"]:
        U = urow[0]["e"][0]
        ent = urow[1]["e"]
        if [e["p"] for e in ent] != list(range(len(ent))):
            return "unit %#x: `entry` positions %r" % (U["off"], [e["p"] for e in ent][:10]), nt
        useq += [ident(e, cooked) for e in ent]
        sub = urow[3]["e"]
        # Sets up to `==`: a DIE with a shorter import path equals every longer-path variant.
        if set(ident(e, False) for e in ent) != set(ident(e, False) for e in sub):
            return "unit %#x: set(entry) differs from set(root child*): %d vs %d DIEs" % (U["off"], len(ent), len(sub)), nt
        if len(set(ident(e, cooked) for e in sub)) != len(sub):
            return "unit %#x: root child* yields a DIE twice" % U["off"], nt
    if useq != entry_seq:
        return "`unit entry` differs from `entry` (%d vs %d DIEs)" % (len(useq), len(entry_seq)), nt
    # same route twice
    if rd2 is not None:
        if len(rd2["res"]) != len(rows):
            return "second traversal yields %d DIEs, first %d" % (len(rd2["res"]), len(rows)), nt
        for a, b in zip(rows, rd2["res"]):
            if ident(a[0]["e"][0], cooked) != ident(b[0]["e"][0], cooked) or \
                    [x["v"] for x in a[8]["e"]] != [x["v"] for x in b[8]["e"]] or \
                    [x["v"] for x in a[9]["e"]] != [x["v"] for x in b[9]["e"]] or \
                    [x["v"] for x in a[10]["e"]] != [x["v"] for x in b[10]["e"]]:
                return "DIE %#x differs between two traversals by the same route" % a[0]["e"][0]["off"], nt
    return None, nt


def model_check(f, mode, rd, ru):
    """Generated forests: expected entry list, children, parent, root, unit from the model."""
    cooked = mode == "cooked"
    if cooked:
        exp = DF.cooked_entries(f)
    else:
        exp = [(d, ()) for d in DF.raw_entries(f)]
    rows = rd["res"]
    if len(rows) != len(exp):
        return "%s entry yields %d DIEs, the model %d" % (mode, len(rows), len(exp))
    # which file a DIE belongs to (the file itself or its supplementary file) is part of what it is: two DIEs at one
    # offset of the two files are different DIEs
    main_dw = rows[0][0]["e"][0]["dw"] if rows else None
    in_alt = lambda die: die.unit not in f.units
    for row, (d, chain) in zip(rows, exp):
        D = row[0]["e"][0]
        for what_, got_, want_ in (("DIE", [D], [d]), ("parent", row[2]["e"], [DF.cooked_parent(d, chain)[0]] if cooked and DF.cooked_parent(d, chain) else ([d.parent] if (not cooked and d.parent) else [])),
                                   ("root", row[3]["e"], [DF.cooked_root(d, chain) if cooked else d.unit.root])):
            if len(got_) == len(want_) and any((g_["dw"] != main_dw) != in_alt(w_) for g_, w_ in zip(got_, want_)):
                return "%s DIE %#x (path %r): its %s %#x is a DIE of the %s, the model has it in the %s" % (
                    mode, d.offset, [c.offset for c in chain], what_, got_[0]["off"], "supplementary file" if got_[0]["dw"] != main_dw else "file itself",
                    "supplementary file" if in_alt(want_[0]) else "file itself")
        want_imp = [c.offset for c in chain]
        if D["off"] != d.offset or (cooked and D["imp"] != want_imp):
            return "%s entry: got DIE %#x path %r, model %#x path %r" % (mode, D["off"], D["imp"], d.offset, want_imp)
        kids = DF.cooked_children(d, chain) if cooked else [(c, ()) for c in d.children]
        got = [(k["off"], (k["imp"] + want_imp) if cooked else []) for k in row[1]["e"]]
        if got != [(c.offset, [x.offset for x in ch]) for c, ch in kids]:
            return "%s DIE %#x: children %r, model %r" % (mode, d.offset, got[:8], [(c.offset, [x.offset for x in ch]) for c, ch in kids][:8])
        par = DF.cooked_parent(d, chain) if cooked else ((d.parent, ()) if d.parent else None)
        gotp = [(k["off"]) for k in row[2]["e"]]
        if gotp != ([par[0].offset] if par else []):
            return "%s DIE %#x (path %r): parent %r, model %r" % (mode, d.offset, want_imp, gotp, [par[0].offset] if par else [])
        root = DF.cooked_root(d, chain) if cooked else d.unit.root
        if [k["off"] for k in row[3]["e"]] != [root.offset]:
            return "%s DIE %#x (path %r): root %r, model %#x" % (mode, d.offset, want_imp, [k["off"] for k in row[3]["e"]], root.offset)
        if [k["off"] for k in row[4]["e"]] != [d.unit.offset]:
            return "%s DIE %#x: unit %r, model %#x" % (mode, d.offset, [k["off"] for k in row[4]["e"]], d.unit.offset)
    units = DF.cooked_units(f) if cooked else DF.raw_units(f)
    if [r[0]["e"][0]["off"] for r in ru["res"]] != [u.offset for u in units]:
        return "%s unit: %r, model %r" % (mode, [r[0]["e"][0]["off"] for r in ru["res"]], [u.offset for u in units])
    return None


def check_file(drv, ev, path, what, f=None):
    out = []
    for mode in ("raw", "cooked"):
        h = drv.open(path, mode == "raw")
        tok = "V%d" % h
        try:
            rd = drv.run(QD, tok, limit=30000, steps=200000000)
            ru = drv.run(QU, tok, limit=2000, steps=200000000)
            rd2 = drv.run(QD, tok, limit=30000, steps=200000000)
        finally:
            drv.req("vclose %d" % h)
        if any("error" in r or not r.get("end") for r in (rd, ru, rd2)):
            err = [r.get("error") for r in (rd, ru, rd2)]
            if any(e and "No DWARF" in e for e in err):
                ev.inconc("no DWARF: " + os.path.basename(path))
            elif any(e for e in err):
                out.append((mode, "navigation query failed: %r" % err, 0, 0))
            else:
                ev.inconc("capped: " + os.path.basename(path))
            continue
        why, nt = laws(ev, what, mode, rd, ru, rd2)
        if not why and f is not None:
            why = model_check(f, mode, rd, ru)
        if not why and f is not None:
            # the same, judged by the engine's own `==`: every DIE of `U entry` has an equal among `U root child*` and
            # the other way round (the two producers hand out the same DIEs, whatever route they note down for them)
            h = drv.open(path, mode == "raw")
            try:
                re_ = drv.run(QE, "V%d" % h, limit=2000, steps=400000000)
            finally:
                drv.req("vclose %d" % h)
            # ... and `D unit` is one unit: among all the units of the file and of its supplementary file exactly one is
            # `==` to it (two units at one offset of the two files are different units)
            if not why and getattr(f, "alt", None) is not None:
                h = drv.open(path, mode == "raw")
                try:
                    ru_ = drv.run(QUU, "V%d" % h, limit=30000, steps=400000000)
                finally:
                    drv.req("vclose %d" % h)
                if "error" not in ru_ and ru_.get("end"):
                    ev.label("engine-equality-of-units")
                    for s_ in ru_["res"]:
                        if int(s_[-1]["v"]) != 1:
                            why = "DIE %#x: %d of the file's units are `==` to its `unit`" % (int(s_[-2]["v"]), int(s_[-1]["v"]))
                            break
            if "error" not in re_ and re_.get("end"):
                ev.label("engine-equality-of-entry-and-child-closure")
                for s_ in re_["res"]:
                    n = [int(x["v"]) for x in s_[-4:]]
                    # (the closure keeps one of several DIEs that are `==`, so the two lists may differ in length)
                    if n[2] != n[0] or n[3] != n[1]:
                        why = ("unit %#x: `U entry` yields %d DIEs, `U root child*` %d; %d of the former have an `==` among the latter, %d of the latter among the former"
                               % (s_[-5]["off"], n[0], n[1], n[2], n[3]))
                        break
        out.append((mode, why, nt, len(rd["res"])))
    return out


def work_gen(task):
    seed, start, count = task
    ev = Evidence()
    drv = Driver(timeout=180)
    try:
        for i in range(start, start + count):
            rnd = random.Random((seed << 32) ^ (i * 2654435761 & 0xffffffff) ^ 0xC05)
            g = DF.ForestGen(rnd, DF.FCfg(max_units=rnd.choice([2, 4, 6]), max_dies=rnd.choice([15, 40]), partial=0.85,
                                          max_depth=rnd.choice([3, 5]), alt=0.15))
            f = g.forest()
            data, others = forest_files(f)
            try:
                with TempElfSet(data, others) as path:
                    res = check_file(drv, ev, path, "generated", f)
            except DriverCrash as e:
                ev.violations.append({"property": PID, "elf_hex": data.hex(), "other_files": [[n_, d_.hex()] for n_, d_ in others], "recipe": {"seed": seed, "index": i},
                                      "reason": "driver crashed: " + e.report[-3000:], "signature": "C05:crash:%d:%d" % (seed, i)})
                continue
            except DriverTimeout:
                ev.inconc("watchdog")
                continue
            for l, n in g.labels.items():
                if l in ("import-edge", "double-import", "nested-import-host", "alt-import", "alt-import-nested", "alt-import-nested-same-root-offset"):
                    ev.label("gen:" + l, n)
            for mode, why, nt, ndies in res:
                ev.case(n=max(ndies, 1))
                for k in range(nt):
                    ev.nontrivial.add("%x" % hash((data, mode, k)))
                ev.label("mode:" + mode)
                if why:
                    ev.violations.append({"property": PID, "elf_hex": data.hex(), "other_files": [[n_, d_.hex()] for n_, d_ in others], "recipe": {"seed": seed, "index": i}, "mode": mode,
                                          "reason": "%s: %s" % (mode, why), "signature": "C05:gen:%s:%s" % (mode, why[:60])})
            if g.labels.get("import-edge", 0) >= 2 and rnd.random() < 0.03:
                ev.sample({"units": [(u.offset, "partial" if u.partial else "compile") for u in f.units],
                           "imports": g.labels.get("import-edge"), "cooked_dies": len(DF.cooked_entries(f)), "raw_dies": len(DF.raw_entries(f))})
    finally:
        drv.kill()
    return ev


def work_samples(paths):
    ev = Evidence()
    drv = Driver(timeout=400)
    try:
        for path in paths:
            try:
                res = check_file(drv, ev, path, "sample")
            except DriverCrash as e:
                ev.violations.append({"property": PID, "file": path, "reason": "driver crashed: " + e.report[-3000:],
                                      "signature": "C05:crash:" + os.path.basename(path)})
                continue
            except DriverTimeout:
                ev.inconc("watchdog: " + os.path.basename(path))
                continue
            for mode, why, nt, ndies in res:
                ev.case(n=max(ndies, 1))
                for k in range(nt):
                    ev.nontrivial.add("%x" % hash((path, mode, k)))
                ev.label("sample:" + mode)
                if why:
                    ev.violations.append({"property": PID, "file": path, "mode": mode, "reason": "%s %s: %s" % (os.path.basename(path), mode, why),
                                          "signature": "C05:sample:%s:%s:%s" % (os.path.basename(path), mode, why[:50])})
    finally:
        drv.kill()
    return ev


def main(tier, seed):
    t0 = time.time()
    n = 4000 if tier == "quick" else 60000
    ev = Evidence()
    per = max(10, n // 48)
    ev.merge(run_pool(work_gen, [(seed, s, min(per, n - s)) for s in range(0, n, per)]))
    samples = sorted(p for p in glob.glob("/repo/tests/*") if os.path.isfile(p) and open(p, "rb").read(4) == b"\x7fELF")
    ev.merge(run_pool(work_samples, [samples[i::10] for i in range(10)]))
    ev.extra["generated_forests"] = n
    return finish(PID, tier, seed, ev, RULE, t0,
                  assumptions=["DIE identity in the oracle: Dwarf handle, offset and (cooked) import path as dumped from the value objects",
                               "libdw's decoding of well-formed DWARF is trusted"],
                  health={"imports generated": ev.labels.get("gen:import-edge", 0) > 100, "double imports": ev.labels.get("gen:double-import", 0) > 5,
                          "both modes": ev.labels.get("mode:raw", 0) > 0 and ev.labels.get("mode:cooked", 0) > 0,
                          "samples": ev.labels.get("sample:cooked", 0) >= 10})


def replay(path):
    import json
    rec = json.load(open(path))
    drv = Driver(timeout=180)
    ev = Evidence()
    try:
        if "recipe" in rec:
            seed, i = rec["recipe"]["seed"], rec["recipe"]["index"]
            rnd = random.Random((seed << 32) ^ (i * 2654435761 & 0xffffffff) ^ 0xC05)
            g = DF.ForestGen(rnd, DF.FCfg(max_units=rnd.choice([2, 4, 6]), max_dies=rnd.choice([15, 40]), partial=0.85,
                                          max_depth=rnd.choice([3, 5])))
            f = g.forest()
            with TempElf(build_file(f)) as p:
                res = check_file(drv, ev, p, "generated", f)
        else:
            res = check_file(drv, ev, rec["file"], "sample")
    finally:
        drv.kill()
    bad = [(m, w) for m, w, _, _ in res if w]
    print(bad)
    return 1 if bad else 0
