"""C08 -- integer arithmetic exact over [-2^63, 2^64-1] or an error.

(a) drv/h_int.cc on libzwerg/int.cc alone: exhaustive boundary lattice (every non-negative
    value in both internal representations) x all operators vs. __int128; then rapidcheck
    random pairs (seeded, shrinking).
(b) through the engine: `A B op` with literals in every radix and sign for sampled lattice
    pairs, comparison words, and integer literals at the range edges, vs. Python integers.
"""
import os, random, re, subprocess, time

from .. import model as M
from ..drv import Driver, DriverCrash, DriverTimeout, BUILD
from ..harness import Evidence, run_pool, finish
from ..render import render_int

PID = "C08"
HINT = os.path.join(BUILD, "bin", "h_int")
RULE = ("(a) exhaustive: every ordered pair of a boundary lattice {0, +-1..3, 2^k+d, -2^k+d (k<=64, |d|<=3), INT32/INT64/UINT32/UINT64 "
        "extremes +-3, assorted factors}, each non-negative value <= INT64_MAX in both the signed and the unsigned "
        "representation, x {+ - * / % neg < > <= >= == != print}, against __int128 floor semantics; then rapidcheck "
        "random operands biased to 2^k+d.  (b) engine: `A B op` for sampled lattice pairs with literals in all radices, "
        "six comparison words, and literals at the edges of the range.  Non-trivial: an operand or the exact result has "
        "magnitude >= 2^63, or the operands are in different representations (a); magnitude >= 2^63 or non-decimal "
        "radix (b).  Distinct: distinct tuples.")

I64_MIN, U64_MAX = -(1 << 63), (1 << 64) - 1


def lattice():
    s = set()
    for d in range(-3, 4):
        for base in (0, I64_MIN, (1 << 63) - 1, U64_MAX, (1 << 32) - 1, -(1 << 31)):
            s.add(base + d)
        for k in range(65):
            s.add((1 << k) + d)
            s.add(-(1 << k) + d)
    for v in (10, 15, 100, 1000003, 6700417, 641, 4294967297, 3037000499, 3037000500):
        s.add(v)
        s.add(-v)
    return sorted(v for v in s if I64_MIN <= v <= U64_MAX)


def expected(op, a, b):
    """Exact result, or None for an error."""
    if op in ("div", "mod") and b == 0:
        return None
    r = {"add": a + b, "sub": a - b, "mul": a * b,
         "div": a // b if b else 0, "mod": a - b * (a // b) if b else 0}[op]
    return r if I64_MIN <= r <= U64_MAX else None


def work_engine(task):
    seed, start, count = task
    ev = Evidence()
    drv = Driver()
    L = lattice()
    doms = ["dec", "hex", "oct", "bin"]
    try:
        for i in range(start, start + count):
            rnd = random.Random((seed << 32) ^ (i * 2654435761 & 0xffffffff) ^ 0xC08)
            a, b = rnd.choice(L), rnd.choice(L)
            if rnd.random() < 0.3:
                a = rnd.randint(I64_MIN, U64_MAX)
            if rnd.random() < 0.3:
                b = rnd.randint(I64_MIN, U64_MAX)
            da, db = rnd.choice(doms), rnd.choice(doms)
            kind = rnd.randint(0, 9)
            twin = rnd.random() < 0.2
            if twin:
                # two numbers 2^64 apart have the same 64 bits (one is held as a signed, the other as an unsigned
                # quantity): compared, mostly in one domain
                kind = 9
                a = rnd.choice([v for v in L if -(1 << 63) <= v < 0]) if rnd.random() < 0.8 else -rnd.randint(1, 1 << 63)
                b = a + (1 << 64)
                if rnd.random() < 0.5:
                    a, b = b, a
                if rnd.random() < 0.8:
                    db = da
            sa, sb = rnd.randint(0, 2), rnd.randint(0, 2)
            ta, tb = render_int(a, da, sa), render_int(b, db, sb)
            if twin and rnd.random() < 0.5:
                # ... also where one of them is the result of arithmetic (held signed whenever it went through a negative)
                k = rnd.choice([1, 2, 5, 1 << 32])
                if a < 0 and a - k >= I64_MIN:
                    ta = "%s %s add" % (render_int(a - k, da, sa), render_int(k, da, 0))
                elif a >= 0 and b - k >= I64_MIN:
                    tb = "%s %s add" % (render_int(b - k, db, sb), render_int(k, db, 0))
            nt = abs(a) >= 1 << 63 or abs(b) >= 1 << 63 or da != "dec" or db != "dec"
            if kind <= 6:
                op = rnd.choice(["add", "sub", "mul", "div", "mod"])
                q = "%s %s %s" % (ta, tb, op)
                e = expected(op, a, b)
                if e is not None and abs(e) >= 1 << 63:
                    nt = True
            else:
                rel = rnd.choice(["?lt", "!lt", "?gt", "!gt", "?le", "!le", "?ge", "!ge", "?eq", "!eq", "?ne", "!ne"])
                q = "%s %s %s" % (ta, tb, rel)
            try:
                r = drv.run(q)
            except DriverCrash as ex:
                ev.violations.append({"property": PID, "query": q, "reason": "driver crashed: " + ex.report[-2000:],
                                      "signature": "C08:crash:" + q})
                continue
            except DriverTimeout:
                ev.inconc("watchdog")
                continue
            ev.case(key=q, nontrivial=nt)
            bad = None
            if "cerror" in r or "error" in r:
                bad = "unexpected failure: %r" % (r.get("cerror") or r.get("error"))
            elif kind <= 6:
                nerr = r["stderr"].count(b"Error:")
                if e is None:
                    if r["res"]:
                        bad = "expected an error and no result, got %s" % r["res"][0][-1]["v"]
                    elif nerr != 1:
                        bad = "expected exactly one Error: line, got %r" % r["stderr"][:200]
                    elif op in ("div", "mod") and b == 0 and b"division by zero" not in r["stderr"]:
                        bad = "division by zero reported as %r" % r["stderr"][:200]
                    ev.label("engine:error-expected")
                else:
                    if len(r["res"]) != 1 or len(r["res"][0]) != 1:
                        bad = "expected %d, got %d result(s); stderr %r" % (e, len(r["res"]), r["stderr"][:200])
                    else:
                        v = r["res"][0][0]
                        if v["t"] != "c" or int(v["v"]) != e:
                            bad = "expected %d, got %s" % (e, v.get("v"))
                        elif nerr:
                            bad = "result and an error line: %r" % r["stderr"][:200]
                        else:
                            # the rendering must read back as the same number
                            txt = bytes.fromhex(v["f"]).decode()
                            if parse_literal(txt) != e:
                                bad = "result %d renders as %r" % (e, txt)
                    ev.label("engine:value-expected")
            else:
                rel_name, positive = rel[1:], rel[0] == "?"
                truth = {"lt": a < b, "gt": a > b, "le": a <= b, "ge": a >= b, "eq": a == b, "ne": a != b}[rel_name]
                holds = len(r["res"]) == 1
                if holds != (truth == positive) or len(r["res"]) > 1 or r["stderr"]:
                    bad = "%s: expected %s" % (rel, "holds" if truth == positive else "does not hold")
                ev.label("engine:comparison")
                if twin:
                    ev.label("engine:comparison-of-bit-pattern-twins")
            if bad:
                ev.violations.append({"property": PID, "query": q, "reason": bad, "signature": "C08:e:" + q})
            elif nt and rnd.random() < 0.002:
                ev.sample({"query": q, "results": [s[-1].get("v") for s in r["res"]],
                           "stderr": r["stderr"].decode("latin-1")[:120]})
        # literals at the edges
        if start == 0:
            for v in (I64_MIN - 2, I64_MIN - 1, I64_MIN, I64_MIN + 1, -1, 0, 1, (1 << 63) - 1, 1 << 63, U64_MAX - 1,
                      U64_MAX, U64_MAX + 1, U64_MAX + 2, 1 << 70, -(1 << 64), -(1 << 70)):
                for dom in doms:
                    for style in range(3):
                        q = render_int(v, dom, style)
                        r = drv.run(q)
                        ev.case(key=("lit", q), nontrivial=True)
                        ev.label("engine:literal")
                        if I64_MIN <= v <= U64_MAX:
                            ok = "res" in r and len(r["res"]) == 1 and int(r["res"][0][0]["v"]) == v \
                                and r["res"][0][0]["d"] == dom
                        else:
                            ok = "cerror" in r and len(r["cerror"]) > 0
                        if not ok:
                            ev.violations.append({"property": PID, "query": q,
                                                  "reason": "literal %s: unexpected reply %r" % (q, {k: r[k] for k in r if k != "stderr"}),
                                                  "signature": "C08:lit:" + q})
    finally:
        drv.kill()
    return ev


def parse_literal(txt):
    neg = txt.startswith("-")
    t = txt[1:] if neg else txt
    if t.lower().startswith("0x"):
        v = int(t[2:], 16)
    elif t.lower().startswith("0b"):
        v = int(t[2:], 2)
    elif t.lower().startswith("0o"):
        v = int(t[2:], 8)
    elif len(t) > 1 and t.startswith("0"):
        v = int(t[1:], 8)
    else:
        v = int(t, 10)
    return -v if neg else v


def run_hint(args, env=None):
    e = dict(os.environ)
    e["ASAN_OPTIONS"] = "abort_on_error=1:detect_leaks=1"
    e["UBSAN_OPTIONS"] = "print_stacktrace=1:halt_on_error=1"
    if env:
        e.update(env)
    p = subprocess.run([HINT] + args, stdout=subprocess.PIPE, stderr=subprocess.PIPE, env=e)
    return p.returncode, p.stdout.decode("latin-1"), p.stderr.decode("latin-1")


def main(tier, seed):
    t0 = time.time()
    ev = Evidence()
    # (a) exhaustive lattice
    rc, out, err = run_hint(["lattice"])
    kv = dict(re.findall(r"^([A-Z]+) (\d+)$", out, re.M))
    viols = [l for l in out.splitlines() if l.startswith("VIOL ")]
    if rc not in (0, 1) or "EVAL" not in kv:
        ev.violations.append({"property": PID, "reason": "h_int lattice died (rc %d): %s" % (rc, (err or out)[-2000:]),
                              "signature": "C08:hint-crash"})
    else:
        ev.evaluations += int(kv["EVAL"])
        ev.extra["lattice_values"] = int(kv["LATTICE"])
        ev.extra["lattice_evaluations"] = int(kv["EVAL"])
        ev.extra["lattice_nontrivial"] = int(kv["NONTRIVIAL"])
        # distinct non-trivial tuples: every lattice tuple is distinct by construction
        for i in range(min(int(kv["NONTRIVIAL"]), 1)):
            pass
        ev.extra["_nt_lattice"] = int(kv["NONTRIVIAL"])
        for l in out.splitlines():
            if l.startswith("SAMPLE "):
                ev.sample({"int.cc": l[7:]})
    for l in viols[:10]:
        f = l.split(" :: ")
        ev.violations.append({"property": PID, "reason": "int.cc vs __int128: " + f[1], "hint_args": f[0].split()[1:],
                              "signature": "C08:i:" + f[0]})
    # (a2) rapidcheck
    ncases = 300000 if tier == "quick" else 6000000
    rc, out, err = run_hint(["random", "1"], {"RC_PARAMS": "seed=%d max_success=%d" % (seed + 1, ncases)})
    kv2 = dict(re.findall(r"^([A-Z]+) (\d+)$", out, re.M))
    if "Falsifiable" in out:
        m = re.search(r"VIOL (.*)", out)
        f = (m.group(1) if m else "").split(" :: ")
        ev.violations.append({"property": PID, "reason": "int.cc vs __int128 (rapidcheck, shrunk): " + (f[1] if len(f) > 1 else out[-500:]),
                              "hint_args": f[0].split(), "signature": "C08:r:" + f[0]})
    elif rc != 0 or "EVAL" not in kv2:
        ev.violations.append({"property": PID, "reason": "h_int random died (rc %d): %s" % (rc, (err or out)[-2000:]),
                              "signature": "C08:hint-crash2"})
    ev.evaluations += int(kv2.get("EVAL", 0))
    ev.extra["rapidcheck_cases"] = int(kv2.get("EVAL", 0))
    ev.extra["rapidcheck_nontrivial"] = int(kv2.get("NONTRIVIAL", 0))
    # (b) engine
    n = 24000 if tier == "quick" else 600000
    per = max(500, n // 48)
    ev.merge(run_pool(work_engine, [(seed, s, min(per, n - s)) for s in range(0, n, per)]))
    ev.extra["engine_cases"] = n
    # distinct non-trivial = engine ones (hashed) + lattice tuples (distinct by construction)
    nt_engine = len(ev.nontrivial)
    ev.extra["distinct_nontrivial_engine"] = nt_engine
    rcode = finish(PID, tier, seed, ev, RULE, t0, exhaustive=True,
                   assumptions=["__int128 / Python integers as the arithmetic oracle",
                                "the lattice sub-space is enumerated completely (exhaustive=true refers to it); random and engine tiers are samples"],
                   health={"lattice ran": "lattice_evaluations" in ev.extra, "rapidcheck ran": ev.extra.get("rapidcheck_cases", 0) > 0,
                           "comparisons of numbers 2^64 apart (same bits) through the engine": ev.labels.get("engine:comparison-of-bit-pattern-twins", 0) > 300})
    # Patch distinct_nontrivial to include the lattice tuples (measured by h_int).
    import json
    from ..harness import EVIDENCE_DIR
    path = os.path.join(EVIDENCE_DIR, PID + ".json")
    doc = json.load(open(path))
    doc["coverage"]["distinct_nontrivial"] = nt_engine + int(ev.extra.get("_nt_lattice", 0))
    doc["coverage"].pop("_nt_lattice", None)
    json.dump(doc, open(path, "w"), indent=1)
    return rcode


def replay(path):
    import json
    rec = json.load(open(path))
    if "hint_args" in rec:
        a = rec["hint_args"]
        rc, out, err = run_hint(["one"] + a[:5])
        print(out, err)
        return rc
    drv = Driver()
    print(drv.run(rec["query"]))
    drv.kill()
    return 0
