"""C13 -- no memory error, UB, leak or broken state lifecycle on any run.

Everything runs on the ASan+UBSan build with asserts on and the scon shadow-map hook
(-DDWGREP_VERIF), so the oracle is: no sanitizer report, no hook abort, no assert, and
LeakSanitizer finds nothing once all API objects are destroyed.

(a) abandonment: generated core programs and the tests.sh query corpus (on sample DWARF files,
    raw and cooked), compiled once and executed with the result set abandoned after every
    possible number of pulls 0..n; leak check after each batch;
(b) rejected queries: truncations / deletions of the same programs, leak check;
(c) coverage-guided fuzzing of query bytes (drv/fuzz_query.cc, libFuzzer): empty corpus and
    the tests.sh corpus, token dictionary.
"""
import os, random, time

from .. import gen as G
from ..drv import Driver, DriverCrash, DriverTimeout, hexs, BUILD
from ..fuzzrun import prepare, run_campaign, reproduce, seeds_from_tests
from ..harness import Evidence, run_pool, finish
from ..render import render

PID = "C13"
RULE = ("(a) every generated program (typed generator, depth <= 3) and every tests.sh query (on tests/a1.out, "
        "tests/dwz-partial2-1, tests/nontrivial-types.o; raw and cooked) is executed n+2 times with the result set "
        "destroyed after k = 0..n+1 pulls; (b) every prefix and single-token deletion of a sample of them is compiled "
        "(most are rejected); LeakSanitizer runs after each batch with all API objects destroyed; (c) libFuzzer over "
        "query bytes + execution mode + number of pulls; (d) ~1100 templates and random programs of blocks nested 2-4 deep that read captured variables of every enclosing level (before, inside and after an inner block, through parameters and local bindings); (e) 2000 backquoted captures (1-7 backquotes dropping values of mixed types from under the new sequence, then words dispatched on what is left) compared with the binder that takes the same values off.  Non-trivial: a case that abandons a non-empty result set, "
        "applies a closure, goes through if/overload state unions, or is a rejected query; plus distinct coverage "
        "features reached by the fuzzer (reported separately).  Distinct by program text x input x pull count.")

SAMPLES = ["/repo/tests/a1.out", "/repo/tests/dwz-partial2-1", "/repo/tests/nontrivial-types.o"]


def recursion_overflow(report, node=None, text=None):
    """Known finding `unbounded-closure-recursion`: the C stack is exhausted by a program that applies
    blocks without bound.  Accepted as that only if the sanitizer says stack-overflow, the program has a
    block, and the reference model cannot bound it either (or there is no model of it: fuzzed bytes)."""
    if "stack-overflow" not in report:
        return False
    if node is not None:
        from .. import model as M
        if "'block'" not in repr(node):
            return False
        try:
            M.run(node, (), 200000)
        except (M.Inconclusive, M.HardError, RecursionError):
            return True
        except Exception:
            return False
        return False
    return text is not None and "{" in text


def crash_record(what, text, rep):
    return {"property": PID, "kind": what, "query": text, "reason": "sanitizer/assert/hook abort: " + rep[-3500:],
            "signature": "C13:crash:" + first_repo_frame(rep) + ":" + text[:80]}


def first_repo_frame(rep):
    import re
    m = re.search(r"(DWGREP_VERIF scon: [^\n]*)", rep)
    if m:
        return m.group(1)[:120]
    m = re.search(r"Assertion `([^']*)' failed", rep)
    if m:
        return "assert:" + m.group(1)[:100]
    m = re.search(r"(/repo/[\w/.+-]+:\d+)", rep)
    return m.group(1) if m else "unknown"


def abandon_all(drv, ev, text, stack_tok, flags=0, maxn=40):
    """Compile once; execute with k pulls for k = 0..n+1.  Returns number of results or None."""
    r = drv.parse(text, flags)
    if "q" not in r:
        ev.label("rejected")
        ev.case(key=("rej", text), nontrivial=True)
        return None
    q = r["q"]
    n = None
    k = 0
    try:
        while True:
            x = drv.req("exec %d %s" % (q, stack_tok))
            if "r" not in x:
                break
            rid = x["r"]
            got = 0
            ended = False
            for _ in range(k):
                y = drv.req("next %d 200000" % rid)
                if "stack" in y:
                    got += 1
                else:
                    ended = True
                    break
            drv.req("rdestroy %d" % rid)
            ev.case(key=(text, stack_tok, k), nontrivial=(got > 0 and not ended) or ("{" in text) or ("if " in text))
            if got > 0 and not ended:
                ev.label("abandoned-non-empty")
            if ended or k >= maxn:
                n = got
                break
            k += 1
    finally:
        drv.req("qdestroy %d" % q)
    return n


def leak_gate(drv, ev, batch_desc, texts):
    l = drv.leak()
    ev.label("leak-checks")
    if l.get("leaks"):
        ev.violations.append({"property": PID, "kind": "leak", "query": " ;; ".join(texts[-25:])[:1500],
                              "reason": "LeakSanitizer after %s with all API objects destroyed: %s"
                                        % (batch_desc, l["stderr"].decode("latin-1")[-3000:]),
                              "signature": "C13:leak:" + first_repo_frame(l["stderr"].decode("latin-1"))})
        return False
    return True


def work_gen(task):
    seed, start, count, depth = task
    ev = Evidence()
    drv = Driver()
    texts = []
    try:
        for i in range(start, start + count):
            rnd = random.Random((seed << 32) ^ (i * 2654435761 & 0xffffffff) ^ 0xC13)
            g = G.Gen(rnd, G.Cfg(max_depth=depth, soft=0.15))
            node, _ = g.program()
            text = render(node)
            texts.append(text)
            try:
                abandon_all(drv, ev, text, "", flags=rnd.choice([0, 0, 1]))
                # rejected variants: prefixes and token deletions
                if i % 4 == 0:
                    toks = text.split(" ")
                    for j in range(1, len(toks), max(1, len(toks) // 6)):
                        v = " ".join(toks[:j])
                        abandon_all(drv, ev, v, "", maxn=2)
                        v = " ".join(toks[:j] + toks[j + 1:])
                        abandon_all(drv, ev, v, "", maxn=2)
                if len(texts) % 25 == 0:
                    leak_gate(drv, ev, "25 generated programs", texts)
            except DriverCrash as e:
                if recursion_overflow(e.report, node):
                    ev.excluded_known["unbounded-closure-recursion"] = ev.excluded_known.get("unbounded-closure-recursion", 0) + 1
                else:
                    ev.violations.append(crash_record("generated", text, e.report))
            except DriverTimeout:
                ev.inconc("watchdog")
        leak_gate(drv, ev, "generated programs", texts)
        rc, txt = drv.close()
        if rc not in (0,):
            ev.violations.append({"property": PID, "kind": "exit", "reason": "driver exit status %s at orderly shutdown: %s" % (rc, txt[-3000:]),
                                  "signature": "C13:exit:" + first_repo_frame(txt)})
    finally:
        drv.kill()
    return ev


def closure_nest(rnd, depth, visible, counter):
    """Items of a block body: reads of names bound at any enclosing level, local bindings, blocks (with or without
    parameters, applied on the spot or through a name) that do the same one level down."""
    items = []
    visible = list(visible)
    for _ in range(rnd.randint(1, 4)):
        c = rnd.random()
        if c < 0.45 and visible:
            items.append(("read", rnd.choice(visible)))
        elif c < 0.85 and depth > 0:
            ids = ()
            if rnd.random() < 0.3:
                counter[0] += 1
                ids = ("P%d" % counter[0],)
                items.append(("lit", counter[0], "dec"))
            blk = ("block", "", ids, ("cat", closure_nest(rnd, depth - 1, visible + list(ids), counter)))
            if rnd.random() < 0.7:
                items += [blk, ("word", "apply")]
            else:
                counter[0] += 1
                nm = "F%d" % counter[0]
                items += [("let", (nm,), blk), ("read", nm)]
        else:
            counter[0] += 1
            nm = "L%d" % counter[0]
            items.append(("let", (nm,), ("lit", 1000 + counter[0], "dec")))
            visible.append(nm)
    return items


def work_closures(task):
    """Blocks in blocks in blocks reading captured variables of every enclosing level: a closure's environment is
    an array indexed by numbers handed out at compile time, nothing checks them at run time."""
    seed, start, count = task
    ev = Evidence()
    drv = Driver()
    texts = []
    from .c03 import upvalue_programs
    templ = upvalue_programs()
    try:
        for i in range(start, start + count):
            if len(ev.violations) >= 30:
                break       # verdict settled
            rnd = random.Random((seed << 32) ^ (i * 2654435761 & 0xffffffff) ^ 0xC13C)
            if i < len(templ):
                node = templ[i][1]
            else:
                counter = [0]
                node = ("cat", [("let", ("A",), ("lit", 1, "dec")), ("let", ("B",), ("lit", 20, "dec")),
                                ("cap", (), ("cat", [("block", "", (), ("cat", closure_nest(rnd, rnd.randint(1, 3), ["A", "B"], counter))), ("word", "apply")]))])
            text = render(node)
            texts.append(text)
            try:
                r = drv.run(text, limit=50, steps=200000)
                ev.case(key=("closures", text), nontrivial=text.count("{") >= 3)
                ev.label("closure-nest")
                if "cerror" in r:
                    ev.label("closure-nest:rejected")
                if len(texts) % 100 == 0:
                    leak_gate(drv, ev, "100 closure programs", texts[-100:])
            except DriverCrash as e:
                ev.violations.append(crash_record("closures", text, e.report))
            except DriverTimeout:
                ev.inconc("watchdog")
        rc, txt = drv.close()
        if rc not in (0,):
            ev.violations.append({"property": PID, "kind": "exit", "reason": "driver exit status %s at orderly shutdown: %s" % (rc, txt[-3000:]),
                                  "signature": "C13:exit:" + first_repo_frame(txt)})
    finally:
        drv.kill()
    return ev


def work_backtick(task):
    """The (undocumented) backquoted capture: n backquotes before `[` drop n values from under the new sequence --
    the one caller of stack::drop(n).  Stacks of mixed types 2-9 deep, 1-7 backquotes, followed by words that are
    dispatched on the types of what is left.  Oracle: the sanitizers, and the same program with the n values taken
    off by a binder instead: (|X1 .. Xn| [E])."""
    seed, start, count = task
    ev = Evidence()
    drv = Driver()
    vals = {"c": ["1", "0x10", "-3"], "s": ['"x"', '"ab"'], "q": ["[]", "[1, 2]", '["a"]']}
    tails = ["", "add", "drop add", "swap add", "drop drop add", "length", "swap length", "drop length", "drop \"y\" add", "drop drop length",
             "drop drop drop add", "?empty", "drop ?find", "type", "drop type swap type"]
    try:
        for i in range(start, start + count):
            if len(ev.violations) >= 30:
                break       # verdict settled
            rnd = random.Random((seed << 32) ^ (i * 2654435761 & 0xffffffff) ^ 0xBAC)
            n = rnd.randint(1, 7)
            keep = rnd.randint(1, 3)
            stack = [rnd.choice(vals[rnd.choice("csq")]) for _ in range(keep + n)]
            body = rnd.choice(["7", "", "1, 2", '"z"'])
            K = rnd.choice(tails)
            q1 = "%s %s[%s] %s" % (" ".join(stack), "`" * n, body, K)
            q0 = "%s (|%s| [%s]) %s" % (" ".join(stack), " ".join("X%d" % k for k in range(n)), body, K)
            try:
                r1, r0 = drv.run(q1, limit=50), drv.run(q0, limit=50)
                ev.case(key=("backtick", q1), nontrivial=n >= 2)
                ev.label("backtick-capture")
                if n >= 4:
                    ev.label("backtick-capture:4+")
                a = ([json_stack(s_) for s_ in r1.get("res", [])], "cerror" in r1, "error" in r1, r1.get("stderr", b"").count(b"Error"))
                b = ([json_stack(s_) for s_ in r0.get("res", [])], "cerror" in r0, "error" in r0, r0.get("stderr", b"").count(b"Error"))
                if a != b:
                    ev.violations.append({"property": PID, "kind": "backtick", "query": q1, "reference": q0, "signature": "C13:backtick:" + q1,
                                          "reason": "dropping %d values below a captured sequence leaves a stack that behaves differently from the one a binder leaves: %r vs %r; stderr %r"
                                          % (n, a, b, r1.get("stderr", b"")[-300:])})
            except DriverCrash as e:
                ev.violations.append(crash_record("backtick", q1, e.report))
            except DriverTimeout:
                ev.inconc("watchdog")
        rc, txt = drv.close()
        if rc not in (0,):
            ev.violations.append({"property": PID, "kind": "exit", "reason": "driver exit status %s at orderly shutdown: %s" % (rc, txt[-3000:]),
                                  "signature": "C13:exit:" + first_repo_frame(txt)})
    finally:
        drv.kill()
    return ev


def json_stack(st):
    def cv(v):
        if v["t"] == "q":
            return ("q", tuple(cv(e) for e in v["e"]))
        return (v["t"], v.get("v"), v.get("x"), v.get("d"))
    return tuple(cv(v) for v in st)


def work_int_edges(task):
    """No undefined arithmetic: every ordered pair of the values at which 64-bit arithmetic wraps, through every
    arithmetic and comparison word, written as literals (held unsigned when non-negative) and as results of
    arithmetic (held signed) -- under UBSan."""
    lo, hi = task
    ev = Evidence()
    drv = Driver()
    I64_MIN = -(1 << 63)
    vals = [I64_MIN, I64_MIN + 1, -(1 << 32), -2, -1, 0, 1, 2, (1 << 32), (1 << 63) - 1, 1 << 63, (1 << 64) - 2, (1 << 64) - 1]
    forms = []
    for v in vals:
        forms.append(str(v))
        if I64_MIN <= v - 1 and v <= (1 << 63) - 1:
            forms.append("%d 1 add" % (v - 1))          # the same number as the result of signed arithmetic
    words = ["add", "sub", "mul", "div", "mod", "?lt", "?eq", "?gt"]
    cases = [(a, b, w) for a in forms for b in forms for w in words][lo:hi]
    try:
        for a, b, w in cases:
            q = "%s %s %s" % (a, b, w)
            try:
                drv.run(q, limit=5)
                ev.case(key=("int-edge", q), nontrivial=True)
                ev.label("int-edge")
            except DriverCrash as e:
                ev.violations.append(crash_record("int-edge", q, e.report))
            except DriverTimeout:
                ev.inconc("watchdog")
        rc, txt = drv.close()
        if rc not in (0,):
            ev.violations.append({"property": PID, "kind": "exit", "reason": "driver exit status %s at orderly shutdown: %s" % (rc, txt[-3000:]),
                                  "signature": "C13:exit:" + first_repo_frame(txt)})
    finally:
        drv.kill()
    return ev


def work_corpus(task):
    lo, hi = task
    ev = Evidence()
    drv = Driver()
    qs = seeds_from_tests()[lo:hi]
    try:
        hs = []
        for f in SAMPLES:
            if os.path.exists(f):
                hs.append(("V%d" % drv.open(f, False), f + ":cooked"))
                hs.append(("V%d" % drv.open(f, True), f + ":raw"))
        done = []
        for q in qs:
            for tok, nm in hs + [("", "empty")]:
                try:
                    abandon_all(drv, ev, q, tok, maxn=12)
                    ev.label("corpus-query")
                except DriverCrash as e:
                    ev.violations.append(crash_record("corpus on " + nm, q, e.report))
                    hs = []
                    for f in SAMPLES:
                        if os.path.exists(f):
                            hs.append(("V%d" % drv.open(f, False), f + ":cooked"))
                            hs.append(("V%d" % drv.open(f, True), f + ":raw"))
                except DriverTimeout:
                    ev.inconc("watchdog")
            done.append(q)
            if len(done) % 20 == 0:
                leak_gate(drv, ev, "20 corpus queries on sample files", done)
        leak_gate(drv, ev, "corpus queries", done)
        ev.sample({"corpus_query": qs[0] if qs else None, "inputs": [n for _, n in hs]})
    finally:
        drv.kill()
    return ev


# ------------------------------------------------------------------ every rejection site, with a payload

PAYLOADS = ["[1, 2] elem", "(1, 2) \"x%s\"", "{1 2 add}", "if 1 then [2] else \"3\"", "let Q := [1, [2]]; Q", "\"a%( [1] %)b\""]
ERROR_TEMPLATES = [
    "let \"x%%s\" := %s;", "let \"x%%( 1 %%)\" := %s;", "let \"ok\" := %s; ok", "let \"a\" \"b\" := %s;", "let \"\" := %s;",
    "%s (", "%s )", "%s ]", "[%s", "{%s", "%s }", "?(%s", "!(%s", "%s \"abc", "%s \"%%( 1", "%s \"%%( ( %%)\"", "%s \"%%( ) %%)\"",
    "%s 1x", "%s 99999999999999999999999", "%s 0x", "%s 08", "%s \x01", "let A := %s; let A := 1;", "%s Bb", "%s ||", "|| %s",
    "if %s then 1", "if %s", "if 1 then %s else", "%s , ,", "let := %s;", "let A B := %s", "let A := %s", "%s \"\\xZZ\"",
    "%s \"%%q\"", "(|A A| %s)", "{|A| %s} {|", "%s ?{", "%s '", "%s **", "%s \"a\"\\", "%s r\"abc", "%s /* unterminated",
    "%s \"%%( \"%%( if %%)\" %%)\"", "%s \"%%( 1x %%)", "(%s == )", "(== %s ==)", "%s `", "%s ``[", "%s == == 1", "[|A| %s", "[|A %s]",
    "let A := 1; {A %s} {|A|", "%s \"%%( let %%)\"", "%s \"%%s%%( 1 %%)%%( ( %%)\"", "?(|A| %s) A", "%s then", "%s else 1", "%s :=", "%s ;",
]


def _splice_nest(n, core):
    t = core
    for _ in range(n):
        t = '"%%( ' + t + ' %%)"'
    return t


# the limit on nested format strings is reached in the innermost literal: by another %( %), by each directive (their
# sub-parsers are started from different lexer actions), one level before, at and beyond the limit
ERROR_TEMPLATES += ["%s " + _splice_nest(n, core) for n in (98, 99, 100, 130)
                    for core in ('"%%s"', '"a%%xb"', '"%%o%%b"', '"%%d"', '"%%( 1 %%)"', '"%%( ( %%)"', '1')]


# ------------------------------------------------- run-time failures inside every kind of sub-expression

FAILERS = ["drop drop", "(drop drop, 1)", "(1, drop drop)", "((2, 3) swap drop drop drop)", "[5] elem drop drop", "\"%s%s\"",
           "(|A B| A)", "swap"]
FAIL_CONTEXTS = ["1 %s", "1 ?(%s)", "1 !(%s)", "1 (%s == 1)", "1 (1 == %s)", "1 [%s]", "1 let A := %s;", "1 \"%%( %s %%)\"",
                 "1 if (%s) then 1 else 2", "1 if 1 then (%s) else 2", "1 {%s} apply", "1 ?{%s} apply", "1 (%s)*", "1 (%s)+", "1 (%s)?",
                 "1 (2, %s)", "1 (%s || 2)", "1 (!() || %s)", "(1, 2) ?((3, 4) %s)", "1 ?(?(%s))", "1 [?((1, 2) %s)]",
                 "1 (|X| ?(X %s))", "1 let F := {%s}; (F, F)", "(1, 2, 3) (?(== 2) %s, 7)"]


def work_runtime_failures(task):
    """The query is well-formed and fails while it runs (stack underflow), inside every sub-expression context;
    results before the failure are pulled, the failing pull is made, *and pulled again*, then everything is
    destroyed: no state may be left constructed, nothing may leak."""
    lo, hi = task
    ev = Evidence()
    drv = Driver()
    try:
        for ctx in FAIL_CONTEXTS[lo:hi]:
            batch = []
            for f in FAILERS:
                text = ctx % f
                batch.append(text)
                try:
                    r = drv.parse(text)
                    if "q" not in r:
                        ev.label("runtime-failure:rejected")
                        continue
                    q = r["q"]
                    for extra in (0, 1, 3):
                        x = drv.req("exec %d " % q)
                        if "r" not in x:
                            break
                        rid = x["r"]
                        failed = False
                        for _ in range(12):
                            y = drv.req("next %d 200000" % rid)
                            if "stack" in y:
                                continue
                            failed = "error" in y
                            break
                        for _ in range(extra):
                            drv.req("next %d 200000" % rid)       # pulling again after the failure / the end
                        drv.req("rdestroy %d" % rid)
                        ev.case(key=(text, extra), nontrivial=failed)
                        ev.label("runtime-failure:failed" if failed else "runtime-failure:no-failure")
                    drv.req("qdestroy %d" % q)
                except DriverCrash as e:
                    ev.violations.append(crash_record("runtime-failure", text, e.report))
                except DriverTimeout:
                    ev.inconc("watchdog")
            if not leak_gate(drv, ev, "run-time failures inside `%s`" % ctx, batch):
                ev.violations[-1]["signature"] += ":" + ctx
        rc, txt = drv.close()
        if rc not in (0,):
            ev.violations.append({"property": PID, "kind": "exit", "reason": "driver exit status %s at orderly shutdown: %s" % (rc, txt[-3000:]),
                                  "signature": "C13:exit:" + first_repo_frame(txt)})
    finally:
        drv.kill()
    return ev


def work_errors(task):
    lo, hi = task
    ev = Evidence()
    drv = Driver()
    texts = []
    try:
        for t in ERROR_TEMPLATES[lo:hi]:
            batch = []
            for pl in PAYLOADS:
                text = t % pl
                batch.append(text)
                try:
                    for fl in (0, 1, 4):
                        abandon_all(drv, ev, text, "", flags=fl, maxn=2)
                except DriverCrash as e:
                    ev.violations.append(crash_record("error-path", text, e.report))
                except DriverTimeout:
                    ev.inconc("watchdog")
            ev.label("error-template")
            # leak check per template, so that a report names the rejection site
            if not leak_gate(drv, ev, "rejecting `%s`" % t, batch):
                ev.violations[-1]["signature"] += ":" + t
        rc, txt = drv.close()
        if rc not in (0,):
            ev.violations.append({"property": PID, "kind": "exit", "reason": "driver exit status %s at orderly shutdown: %s" % (rc, txt[-3000:]),
                                  "signature": "C13:exit:" + first_repo_frame(txt)})
    finally:
        drv.kill()
    return ev


def work_named_arith(task):
    """Arithmetic and casts on named constants give numbers that name nothing in their domain; every
    renderer must cope with them (full, brief inside a sequence, %s %d %x %o %b, value, the dump)."""
    lo, hi = task
    ev = Evidence()
    drv = Driver()
    try:
        names = [w for w in sorted(set(drv.vocab("core") + drv.vocab("dw"))) if w[0] not in "?!@" and (w.startswith(("T_", "DW_", "ST")) or w in ("true", "false"))]
        # a spread over all families, the same every run
        fams = {}
        for w in names:
            fams.setdefault(w.split("_")[0] + "_" + (w.split("_")[1] if w.startswith("DW_") else ""), []).append(w)
        picked = sorted(w for ws in fams.values() for w in (ws[0], ws[-1], ws[len(ws) // 2]))
        ops = ["7 sub", "300 add", "-1 mul", "0x7fffffffffffffff add", "2 div", "hex", "-9 add 2 mod"]
        rends = ["", "\"%s\"", "[()] \"%s\"", "\"%x %o %b %d\" swap drop", "value", "[(), 1] elem type"]
        cases = [(w, o, r) for w in picked for o in ops for r in rends][lo:hi]
        texts = []
        for w, o, r in cases:
            text = "%s %s (|V| V %s)" % (w, o, r)
            texts.append(text)
            try:
                abandon_all(drv, ev, text, "", maxn=3)
            except DriverCrash as e:
                ev.violations.append(crash_record("named-arith", text, e.report))
            except DriverTimeout:
                ev.inconc("watchdog")
            ev.label("named-constant-arithmetic")
        leak_gate(drv, ev, "arithmetic on named constants", texts)
    finally:
        drv.kill()
    return ev


KNOWN_RECURSION = "let .loop := {|N loop| N 1 add {loop} loop}; let loop := {{.loop} .loop}; 0 loop"


def known_findings(ev):
    """Demonstrate the listed known finding on the production-like build; silent if it no longer reproduces."""
    import subprocess
    from ..harness import load_known
    for k in load_known():
        if k.get("property") == PID and k.get("status") == "known" and k.get("signature") == "unbounded-closure-recursion":
            cli = os.path.join(BUILD, "bin", "dwgrep-plain")
            try:
                p = subprocess.run([cli, "-c", "-e", KNOWN_RECURSION], stdout=subprocess.PIPE, stderr=subprocess.PIPE, timeout=120)
            except (OSError, subprocess.TimeoutExpired):
                continue
            if p.returncode not in (0, 1, 2):
                ev.known_hits[k["signature"]] = k["what"]


# Values that outlive the query that made them: the command line tool compiles, runs and destroys the expression of
# every --a argument before the main query runs, and hands the values over; a value must carry (or keep alive)
# everything it needs.  X is the --a expression, P the program that uses its values; `--a X -e P` = `-e "X P"`.
OUTLIVE_MAKERS = ["{|A| A 1 add}", "{|A| {|B| A B add}}", "let K := 7; {|A| K A add}", "{|A| [A, {A 2 mul}]}", "({|A| A}, {|A| A A mul})",
                  "let G := {|A| A 2 mul}; {|B| B G 1 add}", "[{|A| A 1 add}, {|A| A 10 add}]", "{|A| A (1 add 5 mod)*}", "{|A| \"<%( A %)>\"}",
                  "let S := \"abc\"; {|A| S length A add}", "{|A| if (A > 2) then {A 1 sub} else {A 100 add}}", "{|A| let B := A 1 add; {|C| A B C add add}}",
                  "[1, 2, 3]", "\"str\"", "{}", "{|A| }", "let M := [5, 6]; {|A| M elem A add}", "{|F| 3 F}"]
OUTLIVE_USERS = ["(|F| 41 F)", "(|F| 5 F (|G| 10 G))", "(|F| 3 F elem)", "(|F| F elem (|G| 4 G))", "(|F| [1 F, 2 F])", "(|F| 2 F (|R| R))", "(|F| (1, 2, 3) F)",
                 "(|F| {|A| A F} (|H| 6 H))", "(|F| 4 F (|G| G))", "(|F| [F] elem (|G| 9 G))", "(|F| F length)", "(|F| {|A| A 1 add} F)", "(|F| 1 F 2 F add)"]


def work_outlive(task):
    import subprocess
    lo, hi = task
    ev = Evidence()
    cli = os.path.join(BUILD, "bin", "dwgrep")
    env = dict(os.environ, ASAN_OPTIONS="detect_leaks=0:abort_on_error=0", UBSAN_OPTIONS="print_stacktrace=1:halt_on_error=1")
    pairs = [(x, p_) for x in OUTLIVE_MAKERS for p_ in OUTLIVE_USERS]
    for x, p_ in pairs[lo:hi]:
        try:
            a = subprocess.run([cli, "-h", "--a", x, "-e", p_], stdout=subprocess.PIPE, stderr=subprocess.PIPE, env=env, timeout=120)
            b = subprocess.run([cli, "-h", "-e", "(%s) %s" % (x, p_) if not x.startswith("let ") else "%s %s" % (x, p_)], stdout=subprocess.PIPE, stderr=subprocess.PIPE, env=env, timeout=120)
            # two arguments: every combination
            c = subprocess.run([cli, "-h", "--a", x, "--a", "(1, 2)", "-e", "drop %s" % p_], stdout=subprocess.PIPE, stderr=subprocess.PIPE, env=env, timeout=120)
        except subprocess.TimeoutExpired:
            ev.inconc("watchdog")
            continue
        ev.case(key=("outlive", x, p_), nontrivial=b.returncode == 0)
        ev.label("value-outlives-its-query")
        if b.returncode == 0:
            ev.label("value-outlives-its-query:applied")
        why = None
        for r, what in ((a, "--a X -e P"), (c, "--a X --a '(1, 2)' -e 'drop P'")):
            if r.returncode not in (0, 1, 2) or b"Sanitizer" in r.stderr or b"runtime error" in r.stderr:
                why = "%s: the tool died (status %d): %s" % (what, r.returncode, r.stderr.decode("latin-1")[-2500:])
                break
        canon = (lambda t: sorted(t.split(b"\n"))) if x.startswith("(") else (lambda t: t)      # (the order in which an alternation re-fed with a second input yields is not specified)
        if why is None and (a.returncode, canon(a.stdout)) != (b.returncode, canon(b.stdout)):
            why = "`--a X -e P` prints %r (status %d), the one query `X P` prints %r (status %d); stderr %r" % (a.stdout[:200], a.returncode, b.stdout[:200], b.returncode, a.stderr[-300:])
        if why is None and b.returncode == 0 and not x.startswith("(") and c.stdout != b.stdout * 2:
            why = "`--a X --a '(1, 2)' -e 'drop P'` prints %r, twice the output of `X P` is %r" % (c.stdout[:200], (b.stdout * 2)[:200])
        if why:
            ev.violations.append({"property": PID, "kind": "outlive", "maker": x, "user": p_, "query": "--a '%s' -e '%s'" % (x, p_), "reason": why, "signature": "C13:outlive:%s:%s" % (x, p_)})
    ev.sample({"value_outlives_query": "--a '{|A| {|B| A B add}}' -e '(|MK| 5 MK (|ADD| 10 ADD))'", "expect": "15, as from the one query"})
    return ev


def work_asets(task):
    """Address-set expressions (the only values with a non-trivial C++ container behind them that the core
    generator does not produce), each element pulled one by one and abandoned at every point."""
    seed, start, count = task
    ev = Evidence()
    drv = Driver()
    from .c16 import SetGen
    texts = []
    try:
        for i in range(start, start + count):
            rnd = random.Random((seed << 32) ^ (i * 2654435761 & 0xffffffff) ^ 0xA5E7)
            base = rnd.choice([0, 0, (1 << 32) - 5, (1 << 63) - 5])
            text, _ = SetGen(rnd, base, 14).expr(rnd.randint(1, 4))
            text += rnd.choice([" elem", " relem", " range", "", " (|X| X X add)", " dup overlap"])
            texts.append(text)
            try:
                abandon_all(drv, ev, text, "", maxn=6)
            except DriverCrash as e:
                ev.violations.append(crash_record("aset", text, e.report))
            except DriverTimeout:
                ev.inconc("watchdog")
            ev.label("aset-expression")
        leak_gate(drv, ev, "address-set expressions", texts)
    finally:
        drv.kill()
    return ev


def main(tier, seed):
    t0 = time.time()
    ev = Evidence()
    known_findings(ev)
    na = 1200 if tier == "quick" else 30000
    ev.merge(run_pool(work_asets, [(seed, s_, min(60, na - s_)) for s_ in range(0, na, 60)]))
    npairs = len(OUTLIVE_MAKERS) * len(OUTLIVE_USERS)
    ev.merge(run_pool(work_outlive, [(lo, lo + 8) for lo in range(0, npairs, 8)]))
    ev.merge(run_pool(work_named_arith, [(lo, lo + 400) for lo in range(0, 6400, 400)]))
    ev.merge(run_pool(work_runtime_failures, [(lo, lo + 2) for lo in range(0, len(FAIL_CONTEXTS), 2)]))
    ev.merge(run_pool(work_errors, [(lo, lo + 4) for lo in range(0, len(ERROR_TEMPLATES), 4)]))
    ev.extra["error_templates"] = len(ERROR_TEMPLATES)
    ngen, depth, fuzz_s, fuzz_w = (1600, 3, 45, 12) if tier == "quick" else (40000, 3, 900, 16)
    per = max(50, ngen // 32)
    ev.merge(run_pool(work_gen, [(seed, s, min(per, ngen - s), depth) for s in range(0, ngen, per)]))
    ncl = 3000 if tier == "quick" else 40000
    ev.merge(run_pool(work_closures, [(seed, s, min(100, ncl - s)) for s in range(0, ncl, 100)]))
    ev.extra["closure_programs"] = ncl
    ev.merge(run_pool(work_int_edges, [(lo_, lo_ + 400) for lo_ in range(0, 23 * 23 * 8, 400)]))
    nbt = 2000 if tier == "quick" else 40000
    ev.merge(run_pool(work_backtick, [(seed, s, min(100, nbt - s)) for s in range(0, nbt, 100)]))
    nq = len(seeds_from_tests())
    step = max(5, nq // 16)
    ev.merge(run_pool(work_corpus, [(lo, min(lo + step, nq)) for lo in range(0, nq, step)]))
    # (c) fuzzing: two corpora
    dw = SAMPLES[0]
    feats = 0
    for name, with_seeds, share in (("seeded", True, 0.65), ("empty", False, 0.35)):
        wd = os.path.join(BUILD, "fuzz-c13-" + name)
        nseed = prepare(wd, with_seeds)
        res = run_campaign(wd, max(10, int(fuzz_s * share)), fuzz_w, seed, dw)
        st = res["stats"]
        ev.extra["fuzz_" + name] = st
        ev.extra["fuzz_execs"] = ev.extra.get("fuzz_execs", 0) + st.get("execs", 0)     # (time-boxed: reported apart from the deterministic count)
        feats += st.get("ft", 0)
        if "execs" not in st:
            ev.violations.append({"property": PID, "kind": "fuzz", "reason": "libFuzzer produced no statistics: " + res["log_tail"],
                                  "signature": "C13:fuzz-broken"})
        for art in res["crashes"][:8]:
            fails, rep = reproduce(art, dw)
            data = open(art, "rb").read()
            if fails == 0:
                ev.inconc("fuzz artifact did not reproduce")
                continue
            if recursion_overflow(rep, text=data[:-2].decode("latin-1")):
                ev.excluded_known["unbounded-closure-recursion"] = ev.excluded_known.get("unbounded-closure-recursion", 0) + 1
                continue
            keep = os.path.join(BUILD, "..", "replays", PID)
            os.makedirs(keep, exist_ok=True)
            dst = os.path.join(keep, os.path.basename(art))
            with open(dst, "wb") as f:
                f.write(data)
            ev.violations.append({"property": PID, "kind": "fuzz", "artifact": dst, "input_hex": data.hex(),
                                  "query": data[:-2].decode("latin-1"), "reason": "libFuzzer: " + rep[-3500:],
                                  "signature": "C13:fuzz:" + first_repo_frame(rep)})
    ev.extra["fuzz_coverage_features"] = feats
    ev.sample({"fuzz": "coverage-guided campaign over query bytes", "features": feats})
    return finish(PID, tier, seed, ev, RULE, t0,
                  assumptions=["uninstrumented libdw/libelf internals are trusted",
                               "dynamic detection on executed paths only"],
                  health={"fuzzer ran": feats > 0, "integer edges under UBSan": ev.labels.get("int-edge", 0) > 3000, "backquoted captures with >= 4 backquotes": ev.labels.get("backtick-capture:4+", 0) > 500, "nested closures ran": ev.labels.get("closure-nest", 0) > 2000 and ev.labels.get("closure-nest:rejected", 0) < 100, "leak checks ran": ev.labels.get("leak-checks", 0) > 0,
                          "values applied after their query is gone": ev.labels.get("value-outlives-its-query:applied", 0) > 60,
                          "non-empty result sets were abandoned": ev.labels.get("abandoned-non-empty", 0) > 0})


def replay(path):
    import json
    rec = json.load(open(path))
    if rec.get("artifact") and os.path.exists(rec["artifact"]):
        fails, rep = reproduce(rec["artifact"], SAMPLES[0])
        print(rep)
        return 1 if fails else 0
    drv = Driver()
    ev = Evidence()
    try:
        print(abandon_all(drv, ev, rec["query"], ""))
        print(drv.leak())
    except DriverCrash as e:
        print(e.report[-3000:])
        return 1
    finally:
        drv.kill()
    return 0
