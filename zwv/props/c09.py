"""C09 -- comparison is one consistent total order; equality respects constant domains.

Pools of 60-130 values (integers in every domain incl. named DW_*/ELF families and arch-specific
symbol domains, positions, addresses, booleans, slot types; strings; nested sequences; address
sets; DWARF values from sample files: DIEs raw and cooked and through different import routes,
attributes, units, abbreviations, location list elements and ops, symbols).  The driver evaluates
all comparison words and infix forms over all ordered pairs in-process (`matrix`); the laws of
the statement are then checked over all pairs and all triples in Python.
"""
import os, random, time

from ..drv import Driver, DriverCrash, DriverTimeout, hexs
from ..harness import Evidence, run_pool, finish, load_known

PID = "C09"
RULE = ("fixed boundary pools + seeded random sub-pools drawn from ~200 value expressions; per pool all n^2 ordered pairs "
        "x 18 comparison forms (12 words, 6 infix) and all n^3 triples.  Laws: trichotomy per same-type pair, == reflexive/"
        "symmetric/transitive, < irreflexive/transitive, A<B <=> B>A, alias table cell by cell, no diagnostic for any pair, "
        "cross-type pairs ordered in one consistent direction, arithmetic domains by value, unrelated named domains never "
        "equal, strings bytewise, sequences by length then element-wise, duplicates equal.  Non-trivial: a pair of distinct "
        "values spanning >= 2 constant domains or >= 2 types (distinct = such unordered pairs; each had all 18 comparison "
        "forms evaluated both ways and took part in n triples; the number of triples spanning two classes is reported as "
        "nontrivial_triples).")

WORDS = ["?eq", "!eq", "?ne", "!ne", "?lt", "!lt", "?gt", "!gt", "?le", "!le", "?ge", "!ge"]
INFIX = ["==", "!=", "<", ">", "<=", ">="]
QUERIES = WORDS + ["?(|A B| A %s B)" % op for op in INFIX]

CORE_EXPRS = [
    "0", "1", "2", "-1", "0x1", "01", "0b1", "0x2", "-0x1", "3", "0x3", "255", "0xff", "0377",
    "9223372036854775807", "9223372036854775808", "0xffffffffffffffff", "-9223372036854775808", "-0x8000000000000000",
    "1", "0x10", "16",
    # non-negative values held in the *signed* internal representation (literals are unsigned or negative; these
    # come out of arithmetic), next to unsigned ones >= 2^63: the comparison must go by value, not by representation
    "5 5 sub", "7 -7 add", "10 -3 add", "-5 -1 mul", "-9223372036854775807 -1 mul", "-6 -2 div", "0xff -1 add hex", "-1 1 add",
    "0x7fffffffffffffff 1 add", "0xfffffffffffffffe", "9223372036854775807 -1 mul -1 mul",
    "true", "false", "T_CONST", "T_STR", "T_SEQ", "T_DIE", "T_ATTR",
    "\"ab\" elem pos", "\"abc\" relem pos", "0 3 aset elem", "0 3 aset low", "1 2 aset high",
    "DW_TAG_member", "DW_AT_bit_size", "DW_FORM_data4", "DW_OP_addr", "DW_ATE_address", "DW_LANG_C89", "DW_TAG_array_type",
    "DW_AT_sibling", "DW_FORM_addr", "DW_TAG_compile_unit", "DW_AT_name", "DW_TAG_member", "DW_INL_inlined", "DW_ACCESS_public",
    "DW_VIS_local", "DW_VIRTUALITY_virtual", "DW_ID_case_sensitive", "DW_CC_normal", "DW_ORD_row_major", "DW_DSC_label",
    "DW_DS_unsigned", "DW_ADDR_none", "DW_END_big", "DW_DEFAULTED_no", "DW_MACINFO_define", "DW_MACRO_GNU_define",
    "STT_FUNC", "STT_OBJECT", "STT_NOTYPE", "STB_GLOBAL", "STB_LOCAL", "STV_DEFAULT", "STV_HIDDEN",
    "STT_ARM_TFUNC", "STT_SPARC_REGISTER", "STT_GNU_IFUNC", "STB_MIPS_SPLIT_COMMON", "STB_GNU_UNIQUE",
    "\"\"", "\"a\"", "\"ab\"", "\"b\"", "\"a\\x00\"", "\"a\\x00b\"", "\"\\xff\"", "\"\\x7f\"", "\"A\"", "\"ab\"", "\"aa\"", "\"\\x80a\"",
    "\"a\\x00c\"", "\"a\\x00bb\"", "\"a\\x00b\\x00\"", "\"\\x00\"", "\"\\x00\\x00\"", "\"\\x00a\"", "\"\\x00b\"", "\"ab\\x00\"",
    "[]", "[1]", "[1, 2]", "[2, 1]", "[\"a\", 1]", "[[]]", "[1, \"a\"]", "[0x1]", "[[1], [2]]", "[2]", "[1, 2]", "[[2], [1]]",
    "[1, 2, 3]", "[\"\"]", "[[], []]", "[true]", "[1, 1]", "[1, 2, 3, 4]", "[1, 2, 3, 5]", "[4, 3, 2, 1]", "[1, 2, 3, 4, 5]",
    "[1, 2, 3, 4]", "[0, 9, 9, 9, 9]", "[\"a\", \"b\", \"c\", \"d\"]", "[\"a\", \"b\", \"c\", \"e\"]",
    "0 0 aset", "0 1 aset", "1 3 aset", "0 1 aset 2 3 aset add", "0 3 aset", "1 3 aset", "0 1 aset 2 4 aset add", "5 9 aset",
    # sets with the same runs at the same starts that differ in the length of one run (first, middle, last)
    "0 2 aset 4 add", "0 1 aset 4 add", "0 2 aset 4 6 aset add 9 add", "0 1 aset 4 6 aset add 9 add", "0 2 aset 4 7 aset add 9 add",
    "0 2 aset 4 6 aset add 9 11 aset add", "0x10 0x30 aset", "0x20 0x30 aset",
]

DW_EXPRS = [
    "Dw entry (pos < 8)", "Dw raw entry (pos < 8)", "Dw entry (pos < 3) raw", "Dw entry (pos < 4) attribute (pos < 3)",
    "Dw raw entry (pos < 3) attribute (pos < 3)", "Dw unit", "Dw raw unit", "Dw entry (pos < 6) abbrev", "Dw abbrev",
    "Dw entry abbrev attribute (pos < 4)", "Dw symbol (pos < 6)", "Dw entry ?(@AT_location) @AT_location (pos < 4)",
    "Dw entry @AT_location elem (pos < 3)", "Dw", "Dw raw", "Dw entry (pos < 4) address", "Dw entry (pos == 1)", "Dw entry (pos == 1)",
    "Dw entry label (pos < 5)", "Dw entry attribute form (pos < 5)", "Dw entry attribute label (pos < 5)",
    "Dw entry @AT_language", "Dw entry @AT_encoding", "Dw entry offset (pos < 4)", "Dw symbol label (pos < 5)",
    "Dw symbol binding (pos < 5)", "Dw symbol visibility (pos < 3)", "Dw entry @AT_decl_line (pos < 4)", "Dw entry @AT_low_pc",
    "Dw entry @AT_name (pos < 4)", "Dw entry @AT_external", "Dw entry (pos < 6) @AT_type",
    # all attributes of a few DIEs that have zero-sized (flag_present) attributes next to others
    "Dw entry ?AT_external (pos < 3) attribute", "Dw entry ?AT_declaration (pos < 2) attribute", "Dw entry ?AT_artificial (pos < 2) attribute",
    "Dw raw entry ?AT_external (pos < 2) attribute", "Dw entry ?AT_prototyped (pos < 2) attribute",
]

# values that belong to a unit other than the first of the file (what identifies them within a unit is not what
# identifies them within the file)
LATE_UNIT_EXPRS = ["Dw unit (pos > 0) (pos < 3) entry (pos < 3) attribute (pos < 3)", "Dw unit (pos > 0) (pos < 3) entry (pos < 2)",
                   "Dw unit (pos > 0) (pos < 3)"]

FILES = ["twocus", "a1.out", "nullptr.o", "enum.o", "bitcount.o", "nontrivial-types.o", "testfile_const_type", "dwz-partial2-1", "dwz-partial3-1",
         "float_const_value.o-armv7hl", "float_const_value.o-ppc64"]


def vkey(v):
    """Value identity as far as the dump shows it (for duplicate detection)."""
    return repr({k: x for k, x in v.items() if k not in ("p", "sh", "f", "b")})


def ident(v):
    """What a DWARF value *is*, where the driver's dump says so unambiguously (None: not judged).  The view
    (raw/cooked) and the import route are left out: values that differ only there are equal by design."""
    t = v["t"]
    if t == "die":
        return (v["dw"], v["off"])
    if t == "at":
        return (v["die"]["dw"], v["die"]["off"], v["name"])
    if t == "cu":
        return (v.get("dw"), v["off"])
    if t == "sym":
        return (v.get("dw"), v["idx"])
    return None


def vtype(v):
    return v["t"]


def core_cmp(a, b):
    """Documented order for core values of one type; None where not documented."""
    if a["t"] != b["t"]:
        return None
    t = a["t"]
    if t == "c":
        if a["a"] and b["a"]:
            x, y = int(a["v"]), int(b["v"])
            return (x > y) - (x < y)
        if a["di"] == b["di"]:
            # named constants of one domain: equal iff the numbers are; which of two different ones is the
            # smaller is not documented (machine-specific ELF domains order their generic and their own
            # codes as two groups), only that the order is total and consistent
            return 0 if int(a["v"]) == int(b["v"]) else "ne"
        return None
    if t == "s":
        x, y = bytes.fromhex(a["x"]), bytes.fromhex(b["x"])
        return (x > y) - (x < y)
    if t == "q":
        if len(a["e"]) != len(b["e"]):
            return (len(a["e"]) > len(b["e"])) - (len(a["e"]) < len(b["e"]))
        if any(x["t"] != y["t"] for x, y in zip(a["e"], b["e"])):
            return None
        for x, y in zip(a["e"], b["e"]):
            c = core_cmp(x, y)
            if c is None or c == "ne":
                return c
            if c:
                return c
        return 0
    if t == "as":
        # (how address sets are ordered is not documented; that two of them are equal exactly when they are the same
        # set of addresses is)
        return 0 if a["r"] == b["r"] else "ne"
    return None


def dom_family(v):
    d = v["d"]
    for p in ("STT", "STB"):
        if d.startswith(p):
            return p
    return d


def check_pool(ev, desc, pool, m, rnd, exclude_die_routes=True):
    n = len(pool)
    M = {q: m[i] for i, q in enumerate(QUERIES)}
    bad = []

    def cell(q, i, j):
        return M[q][i * n + j]

    def viol(why, idx):
        if len(bad) < 6:
            bad.append((why, [pool[i] for i in idx]))

    # compile problems / errors
    for q in QUERIES:
        if M[q].startswith("!"):
            viol("comparison query %s failed to compile: %s" % (q, M[q]), [])
            return bad, 0
    types = [vtype(v) for v in pool]
    closures = [t == "k" for t in types]
    eq = [[cell("?eq", i, j) == "1" for j in range(n)] for i in range(n)]
    lt = [[cell("?lt", i, j) == "1" for j in range(n)] for i in range(n)]
    gt = [[cell("?gt", i, j) == "1" for j in range(n)] for i in range(n)]
    for i in range(n):
        for j in range(n):
            if closures[i] or closures[j]:
                continue
            cs = [cell(q, i, j) for q in QUERIES]
            if any(c not in "01" for c in cs):
                viol("diagnostic / hard error / changed stack comparing (cells %s)" % "".join(cs), [i, j])
                continue
            if eq[i][j] + lt[i][j] + gt[i][j] != 1:
                viol("trichotomy: eq=%d lt=%d gt=%d" % (eq[i][j], lt[i][j], gt[i][j]), [i, j])
            # aliases
            table = {"!eq": not eq[i][j], "?ne": not eq[i][j], "!ne": eq[i][j], "!lt": not lt[i][j], "?ge": not lt[i][j],
                     "!ge": lt[i][j], "!gt": not gt[i][j], "?le": not gt[i][j], "!le": gt[i][j]}
            for q, want in table.items():
                if (cell(q, i, j) == "1") != want:
                    viol("alias %s disagrees with its definition" % q, [i, j])
            for op, want in (("==", eq[i][j]), ("!=", not eq[i][j]), ("<", lt[i][j]), (">", gt[i][j]),
                             ("<=", not gt[i][j]), (">=", not lt[i][j])):
                if (cell("?(|A B| A %s B)" % op, i, j) == "1") != want:
                    viol("infix %s disagrees with the word form" % op, [i, j])
            if eq[i][j] != eq[j][i]:
                viol("== not symmetric", [i, j])
            if lt[i][j] != gt[j][i]:
                viol("A<B but not B>A", [i, j])
            if i == j and not eq[i][j]:
                viol("== not reflexive", [i])
            # documented order of core values
            c = core_cmp(pool[i], pool[j])
            if c == "ne":
                if eq[i][j]:
                    viol("different %s compare equal" % ("address sets" if types[i] == "as" else "constants of one domain"), [i, j])
            elif c is not None:
                if (c == 0) != eq[i][j] or (c < 0) != lt[i][j]:
                    viol("documented order: expected %s" % ("==" if c == 0 else "<" if c < 0 else ">"), [i, j])
            if types[i] == "c" and types[j] == "c" and eq[i][j] and not (pool[i]["a"] and pool[j]["a"]):
                if dom_family(pool[i]) != dom_family(pool[j]):
                    viol("constants of unrelated domains compare equal", [i, j])
            if types[i] != types[j] and eq[i][j]:
                viol("values of different types compare equal", [i, j])
            if vkey(pool[i]) == vkey(pool[j]) and not eq[i][j] and types[i] in ("c", "s", "q", "as"):
                viol("a value does not equal its copy", [i, j])
            # the order is one over *values*: two DWARF values that are different things never compare equal
            if eq[i][j] and types[i] == types[j]:
                a, b = ident(pool[i]), ident(pool[j])
                if a is not None and b is not None and a != b:
                    viol("two different %s values compare equal" % types[i], [i, j])
    # cross-type consistency
    dirs = {}
    for i in range(n):
        for j in range(n):
            if types[i] != types[j] and not closures[i] and not closures[j]:
                key = (types[i], types[j])
                d = lt[i][j]
                if key in dirs and dirs[key][0] != d:
                    viol("cross-type order inconsistent between %s and %s" % key, [i, j, dirs[key][1], dirs[key][2]])
                dirs.setdefault(key, (d, i, j))
    # transitivity over all triples
    ntri = 0
    idx = [i for i in range(n) if not closures[i]]
    for i in idx:
        for j in idx:
            if not (eq[i][j] or lt[i][j]):
                continue
            for k in idx:
                if eq[i][j] and eq[j][k] and not eq[i][k]:
                    viol("== not transitive", [i, j, k])
                if lt[i][j] and lt[j][k] and not lt[i][k]:
                    viol("< not transitive", [i, j, k])
                if eq[i][j] and lt[j][k] and not lt[i][k]:
                    viol("== and < inconsistent (A==B, B<C, not A<C)", [i, j, k])
    # count non-trivial triples (>= 2 domains or types)
    def cls(v):
        return (v["t"], v.get("d"))
    classes = [cls(v) for v in pool]
    from collections import Counter
    cc = Counter(classes)
    total = n ** 3
    same = sum(c ** 3 for c in cc.values())
    return bad, total - same


def build_pool_query(exprs, dw):
    parts = []
    for e in exprs:
        parts.append(e)
    body = ", ".join("(%s)" % e for e in parts)
    if dw:
        return "(|Dw| (%s))" % body
    return "(%s)" % body


def run_matrix(drv, pq, tok):
    line = "matrix 100000 %s %d %s %s" % (hexs(pq), len(QUERIES), " ".join(hexs(q) for q in QUERIES), tok)
    return drv.req(line)


def work(task):
    seed, idx, fn, n_core, n_dw = task
    ev = Evidence()
    drv = Driver(timeout=240)
    try:
        rnd = random.Random((seed << 16) ^ idx ^ 0xC09)
        tok = ""
        dwx = []
        if fn:
            tok = "V%d" % drv.open(os.path.join("/repo/tests", fn), False)
            dwx = rnd.sample(DW_EXPRS[:-5], min(n_dw, len(DW_EXPRS) - 5)) + rnd.sample(DW_EXPRS[-5:], 3) + LATE_UNIT_EXPRS
        core = list(CORE_EXPRS) if idx == 0 else rnd.sample(CORE_EXPRS, min(n_core, len(CORE_EXPRS)))
        if fn and idx % 2 == 1:
            core = rnd.sample(CORE_EXPRS, 25)
        if idx >= 1000:
            # ELF symbol constants: every STT_/STB_/STV_ word of the vocabulary next to the type, binding and
            # visibility constants *as a file of a particular machine yields them* (generic values held in
            # the machine's own domain) and plain numbers
            names = [w for w in drv.vocab("dw") if w.startswith(("STT_", "STB_", "STV_"))]
            core = names + ["0", "1", "2", "4", "10", "13", "0xd", "[STT_FILE]", "[STT_FUNC]", "[13]"]
            dwx = ["Dw symbol label", "Dw symbol binding", "Dw symbol visibility", "[Dw symbol (pos < 12) label]",
                   "Dw symbol (pos < 8) [label]"]
        pq = build_pool_query(core + dwx, bool(fn))
        r = run_matrix(drv, pq, tok)
        if "pool" not in r:
            ev.violations.append({"property": PID, "query": pq, "reason": "pool query failed: %r" % {k: v for k, v in r.items() if k != "stderr"},
                                  "signature": "C09:pool:" + pq[:100]})
            return ev
        pool = r["pool"]
        # The documented design of DIE comparison (a DIE without import path equals every import-path
        # variant) breaks transitivity when raw and two cooked routes of one DIE meet: known finding,
        # excluded by construction -- keep at most one route per (file, offset) next to a raw one.
        keep = []
        seen_die = {}
        excluded = 0
        for k, v in enumerate(pool):
            if v["t"] in ("die", "at"):
                d = v if v["t"] == "die" else v["die"]
                key = (d["dw"], d["off"])
                route = (d["raw"], tuple(d["imp"]))
                routes = seen_die.setdefault(key, set())
                if route not in routes and len(routes) >= 1 and any(rt != route for rt in routes):
                    others = routes | {route}
                    nonempty = {rt for rt in others if not rt[0] and rt[1]}
                    template = {rt for rt in others if rt[0] or not rt[1]}
                    if len(nonempty) >= 2 and template:
                        excluded += 1
                        continue
                routes.add(route)
            keep.append(k)
        if excluded:
            ev.excluded_known["die-import-route-transitivity"] = ev.excluded_known.get("die-import-route-transitivity", 0) + excluded
        if len(keep) != len(pool):
            n = len(pool)
            pool2 = [pool[k] for k in keep]
            m2 = []
            for row in r["m"]:
                if row.startswith("!"):
                    m2.append(row)
                    continue
                m2.append("".join(row[i * n + j] for i in keep for j in keep))
            pool, m = pool2, m2
        else:
            m = r["m"]
        bad, nt = check_pool(ev, fn or "core", pool, m, rnd)
        n = len(pool)
        # distinct non-trivial cases: unordered pairs of distinct values spanning two types or two constant
        # domains (all 18 comparison forms were evaluated on each, and it took part in n triples)
        import hashlib
        ks = [vkey(v) for v in pool]
        cls = [(v["t"], v.get("d")) for v in pool]
        for i in range(n):
            for j in range(i + 1, n):
                if cls[i] != cls[j] and ks[i] != ks[j]:
                    a, b = sorted((ks[i], ks[j]))
                    ev.nontrivial.add(hashlib.sha1((a + "|" + b).encode()).hexdigest()[:16])
        ev.evaluations += n * n * len(QUERIES)
        ev.extra["triples_checked"] = ev.extra.get("triples_checked", 0) + n ** 3
        # distinct non-trivial triples: count them (value triples over this pool)
        ev.extra["nontrivial_triples"] = ev.extra.get("nontrivial_triples", 0) + nt
        ev.case(key=("pool", fn, idx), nontrivial=True, n=0)
        ev.label("pool")
        ev.label("pool-size:%d" % (n // 20 * 20))
        from collections import Counter
        for t, c in Counter(v["t"] for v in pool).items():
            ev.label("type:" + t, c)
        ev.sample({"file": fn, "pool_size": n, "types": dict(Counter(v["t"] for v in pool)),
                   "domains": sorted(set(v.get("d") for v in pool if v["t"] == "c"))[:30]}, cap=6)
        for why, vals in bad:
            ev.violations.append({"property": PID, "file": fn, "reason": "%s: %s" % (why, [short(v) for v in vals]),
                                  "pool_query": pq, "signature": "C09:%s:%s" % (why[:40], [short(v) for v in vals])})
    except DriverCrash as e:
        ev.violations.append({"property": PID, "reason": "driver crashed: " + e.report[-3000:], "signature": "C09:crash:%s" % fn})
    except DriverTimeout:
        ev.inconc("watchdog")
    finally:
        drv.kill()
    return ev


def short(v):
    t = v["t"]
    if t == "c":
        return "%s:%s" % (v["d"], v["v"])
    if t == "s":
        return repr(bytes.fromhex(v["x"]))
    if t == "q":
        return "[" + ", ".join(short(e) for e in v["e"]) + "]"
    if t == "die":
        return "DIE %#x %s imp=%s" % (v["off"], "raw" if v["raw"] else "cooked", v["imp"])
    if t == "at":
        return "ATTR %#x@%#x" % (v["name"], v["die"]["off"])
    return t + ":" + str({k: x for k, x in v.items() if k in ("off", "idx", "r", "code", "low", "high")})


def known_findings(ev):
    """DIE equality across import routes (documented design, not transitive)."""
    ks = [k for k in load_known() if k.get("property") == PID and k.get("status") == "known"
          and k.get("signature") == "die-import-route-transitivity"]
    if not ks:
        return
    drv = Driver()
    try:
        tok = "V%d" % drv.open("/repo/tests/dwz-partial", False)
        q = ("(|Dw| [Dw entry (offset == 20)] (|L| L elem (pos == 0) (|A| L elem (pos == 1) (|B| A raw (|R| "
             "[A R ?eq] [R B ?eq] [A B ?eq])))))")
        r = drv.run(q, tok)
        if "res" in r and r["res"]:
            got = [len(x["e"]) for x in r["res"][0]]
            if got == [1, 1, 0]:
                ev.known_hits[ks[0]["signature"]] = ks[0]["what"]
    finally:
        drv.kill()


def main(tier, seed):
    t0 = time.time()
    tasks = [(seed, 0, None, 0, 0)]
    nrand = 6 if tier == "quick" else 60
    for i in range(1, nrand + 1):
        tasks.append((seed, i, None, 70, 0))
    files = FILES if tier == "thorough" else FILES[:8]
    k = 100
    for rep in range(1 if tier == "quick" else 6):
        for fn in files:
            if os.path.exists(os.path.join("/repo/tests", fn)):
                tasks.append((seed, k, fn, 45, 14))
                k += 1
    for j, fn in enumerate(["y.o", "y-mips.o", "float_const_value.o-armv7hl", "float_const_value.o-ppc64", "enum.o"]):
        if os.path.exists(os.path.join("/repo/tests", fn)):
            tasks.append((seed, 1000 + j, fn, 0, 0))
    ev = run_pool(work, tasks)
    known_findings(ev)
    import json
    from ..harness import EVIDENCE_DIR
    nt = int(ev.extra.get("nontrivial_triples", 0))
    rcode = finish(PID, tier, seed, ev, RULE, t0,
                   assumptions=["which direction values of different types are ordered in is not asserted, only consistency",
                                "DIE comparison across import routes is excluded by construction (known finding)",
                                "closure values are excluded (the statement excepts the hidden closure type)"],
                   health={"pools checked": ev.labels.get("pool", 0) >= 5,
                           "DWARF values in pools": ev.labels.get("type:die", 0) > 10 and ev.labels.get("type:at", 0) > 5})
    path = os.path.join(EVIDENCE_DIR, PID + ".json")
    doc = json.load(open(path))
    doc["coverage"]["distinct_nontrivial"] = nt
    json.dump(doc, open(path, "w"), indent=1)
    return rcode


def replay(path):
    import json
    rec = json.load(open(path))
    drv = Driver(timeout=240)
    tok = ""
    if rec.get("file"):
        tok = "V%d" % drv.open(os.path.join("/repo/tests", rec["file"]), False)
    r = run_matrix(drv, rec["pool_query"], tok)
    ev = Evidence()
    bad, _ = check_pool(ev, "replay", r["pool"], r["m"], random.Random(0))
    for why, vals in bad:
        print(why, [short(v) for v in vals])
    drv.kill()
    return 1 if bad else 0
