"""C11 -- core words on integers, strings and sequences do what their documentation says.

Exhaustive: every core word x every operand tuple from a value pool (unary: all values;
binary: all ordered pairs), on stacks of depth 0-6, each stack built through several
histories (API push, literals, junk+drop, swap/rot/over shuffles) -- the word's behaviour
must depend only on the values near the top of the stack.  Oracle: zwv.model word semantics
(Python bytes/list/int), including `pos` numbering and soft errors.
"""
import itertools, random, time

from .. import model as M, compare as CMP
from ..core_case import run_case
from ..drv import Driver, DriverCrash, DriverTimeout, stack_spec
from ..harness import Evidence, run_pool, finish, encode_stack, decode_stack
from ..render import render

PID = "C11"
RULE = ("every core word (length elem relem add sub mul div mod ?empty/!empty ?find/!find ?starts/!starts ?ends/!ends "
        "?match/!match value hex dec oct bin type pos ?N/!N dup over swap rot drop and the 12 comparison words) applied to "
        "every operand (unary) / ordered operand pair (binary) from a pool of ~45 values (boundary integers per domain, "
        "bool and slot-type constants, strings incl. empty/NUL/high bytes/regex-like, nested and heterogeneous sequences, a "
        "closure), with 0-4 filler values below, the stack being built by 4 different histories; ?find/?starts/?ends and their negations on every haystack of length <= 6 (thorough: 8) x every needle of length <= 4 (5) over a two-letter alphabet, as strings, as sequences of integers and as sequences of mixed elements (self-overlapping needles, repeated prefixes).  Non-trivial: depth >= 5 "
        "or a drop/rot/over in the history, or an operand that is empty / contains NUL / is of an unsupported type.  "
        "Distinct by (word, operands, filler, history).")

C = M.VConst
S = M.VStr
Q = M.VSeq

INTS = [C(0), C(1), C(-1), C(2), C(7), C(255, "hex"), C(8, "oct"), C(5, "bin"), C(-3, "hex"),
        C((1 << 63) - 1), C(1 << 63, "hex"), C((1 << 64) - 1, "hex"), C(-(1 << 63)), C(3037000500), C(4294967296, "hex"),
        # pairs whose sum, difference or product lands exactly on an end of the range
        C(-(1 << 62)), C(-(1 << 63) + 1), C(1 << 62), C((1 << 63) + 1, "hex"), C(-(1 << 32), "hex"), C(1 << 31)]
NAMED = [C(1, "bool"), C(0, "bool"), C(2, "T_*"), C(3, "T_*")]
STRS = [S(b""), S(b"a"), S(b"ab"), S(b"abc"), S(b"ba"), S(b"bc"), S(b"foobar"), S(b"bar"), S(b"foo"), S(b"a\0b"), S(b"\0"),
        S(b"\xff\x80"), S(b"^a"), S(b"b$"), S(b"o+b"), S(b"a.c")]
SEQS = [Q([]), Q([C(1)]), Q([C(1), C(2)]), Q([C(2), C(1)]), Q([C(1), C(2), C(3)]), Q([C(2), C(3)]), Q([C(3)]),
        Q([S(b"a"), C(1)]), Q([Q([])]), Q([Q([C(1)]), S(b"")]), Q([C(1, "hex"), C(2)]),
        Q([C(1), C(2), C(3), C(4)]), Q([C(3), C(4)]), Q([C(1), C(2), C(3), C(4), C(5)]), Q([C(2), C(3), C(4)])]
POOL = INTS + NAMED + STRS + SEQS

UNARY = ["length", "elem", "relem", "?empty", "!empty", "value", "hex", "dec", "oct", "bin", "type", "pos",
         "?0", "!0", "?1", "dup", "drop", "elem pos", "relem pos", "elem ?1", "relem !0", "elem type", "dup length"]
BINARY = ["add", "sub", "mul", "div", "mod", "?find", "!find", "?starts", "!starts", "?ends", "!ends", "?match", "!match",
          "?eq", "!eq", "?ne", "!ne", "?lt", "!lt", "?gt", "!gt", "?le", "!le", "?ge", "!ge", "swap", "over", "over over",
          "swap drop", "add length"]
TERNARY = ["rot", "rot rot", "rot drop"]


def lit_node(v):
    if v.t == "c":
        if v.dom == "bool":
            return ("word", "true" if v.value else "false")
        if v.dom == "T_*":
            return ("word", {2: "T_CONST", 3: "T_STR", 4: "T_SEQ", 5: "T_CLOSURE"}[v.value])
        return ("lit", v.value, v.dom)
    if v.t == "s":
        return ("str", [v.data], False)
    if v.t == "k":
        return ("block", v.kind, tuple(v.ids), v.body)
    if v.t == "q":
        if not v.items:
            return ("elist",)
        items = [lit_node(e) for e in v.items]
        return ("cap", (), ("alt", items) if len(items) > 1 else items[0])
    raise ValueError


def api_pushable(v):
    """There is no API to create slot-type constants."""
    if v.t == "c":
        return v.dom != "T_*"
    if v.t == "q":
        return all(api_pushable(e) for e in v.items)
    return v.t == "s"


def word_nodes(ws):
    return [("word", w) for w in ws.split()]


def histories(stack, rnd):
    """Yield (name, prefix nodes, api stack) building STACK in different ways."""
    n = len(stack)
    lits = [lit_node(v) for v in stack]
    pushable = all(api_pushable(v) for v in stack)
    if pushable:
        yield "api", [], tuple(stack)
        # the same values at other positions (given to the init functions, or through zw_value_clone)
        st = []
        for v in stack:
            w = v.with_pos(rnd.randint(1, 6))
            if w.t in ("c", "s") and rnd.random() < 0.5:
                w.via_clone = True
            st.append(w)
        yield "api-pos", [], tuple(st)
    yield "literals", lits, ()
    # junk pushed and dropped in between
    junk = [("lit", 99, "dec"), ("str", [b"junk"], False), ("elist",)]
    parts = []
    for l in lits:
        parts.append(l)
        if rnd.random() < 0.6:
            parts += [rnd.choice(junk), ("word", "drop")]
    yield "junk-drop", parts, ()
    # grow the stack well past the 4-slot type profile, then pop back down to the operands
    k = rnd.randint(max(1, 5 - n), 6)
    yield "deep-junk", lits + [rnd.choice(junk) for _ in range(k)] + [("word", "drop")] * k, ()
    if n >= 2:
        # push the top two in the wrong order, then swap; or use over/rot
        parts = lits[:-2] + [lits[-1], lits[-2], ("word", "swap")]
        yield "swap", parts, ()
    if n >= 3:
        # rot: A B C -> B C A ; so push C A B then rot to get A B C
        parts = lits[:-3] + [lits[-1], lits[-3], lits[-2], ("word", "rot")]
        yield "rot", parts, ()
    if n >= 2 and pushable:
        # half through the API, half as literals
        yield "mixed", lits[n // 2:], tuple(stack[:n // 2])


def check(drv, ev, stack, words, rnd, all_hist=True):
    wnodes = word_nodes(words)
    hs = list(histories(stack, rnd))
    if not all_hist:
        hs = [hs[0], rnd.choice(hs[1:])] if len(hs) > 1 else hs
    for hname, prefix, api in hs:
        node = ("cat", prefix + wnodes)
        try:
            o = run_case(drv, node, api, limit=500, steps=100000)
        except DriverCrash as e:
            ev.violations.append({"property": PID, "query": render(node), "stack_enc": encode_stack(api),
                                  "reason": "driver crashed: " + e.report[-2500:], "ast": repr(node),
                                  "signature": "C11:crash:" + words + ":" + render(node)[:80]})
            continue
        except DriverTimeout:
            ev.inconc("watchdog")
            continue
        ops = stack[-3:]
        nt = len(stack) >= 5 or hname in ("junk-drop", "deep-junk", "rot", "swap") or any(
            (v.t == "s" and (v.data == b"" or b"\0" in v.data)) or (v.t == "q" and not v.items) for v in ops) \
            or bool(o.ctx and (o.ctx.soft_certain or o.ctx.soft_maybe))
        if o.status == "inconclusive":
            ev.inconc(o.reason.split(":")[0][:50])
            continue
        ev.case(key=(words, repr(stack), hname), nontrivial=nt)
        ev.label("history:" + hname)
        if o.status == "violation":
            ev.violations.append({"property": PID, "query": o.text, "stack_enc": encode_stack(api), "history": hname,
                                  "reason": o.reason, "ast": repr(node),
                                  "engine_stderr": (o.reply or {}).get("stderr", b"").decode("latin-1")[:800],
                                  "signature": "C11:%s:%s" % (words, o.text[:100])})
        elif o.ctx and o.ctx.soft_certain:
            ev.label("soft-error-agreed")
            # the diagnostic must name the word
            err = o.reply["stderr"]
            w0 = [w for w in words.split() if not w.startswith(("dup", "over", "swap", "rot", "drop"))]
            arith_err = any(l in o.ctx.labels for l in ("soft:overflow", "soft:div0"))
            if w0 and not arith_err and not any(w.encode() in err or w.lstrip("?!").encode() in err for w in w0):
                ev.violations.append({"property": PID, "query": o.text, "stack_enc": encode_stack(api),
                                      "reason": "diagnostic does not name the word: %r" % err[:200], "ast": repr(node),
                                      "signature": "C11:diag:" + words})
        if nt and rnd.random() < 0.0008:
            ev.sample({"query": o.text, "api_stack": [CMP.show(v) for v in api], "history": hname,
                       "results": [[CMP.show(v) for v in s] for s in (o.stream.items[:3] if o.stream else [])]})


# "every operation numbers its own results afresh": an enumerating operation fed
# several stacks in a row restarts its numbering for each of them.
ENUM_OPS = {
    "elem": [("word", "elem")],
    "relem": [("word", "relem")],
    "fmt-elem": [("str", [b"<", ("word", "elem"), b">"], False)],
    "fmt-relem-2": [("str", [("word", "relem"), b"-", ("word", "dup")], False)],
    "fmt-s": [("str", [b"[", ("cat", []), b"]"], False)],
    "elem-elem": [("word", "elem"), ("word", "elem")],
    "dup-elem": [("word", "dup"), ("word", "elem")],
    # a word applied to the 2nd, 3rd, ... result of another numbers its own (single) result from 0 again
    "elem-hex": [("word", "elem"), ("word", "hex")],
    "relem-dec": [("word", "relem"), ("word", "dec")],
    "elem-oct": [("word", "elem"), ("word", "oct")],
    "relem-bin": [("word", "relem"), ("word", "bin")],
    "elem-value": [("word", "elem"), ("word", "value")],
    "elem-length": [("word", "elem"), ("word", "length")],
    "elem-type": [("word", "elem"), ("word", "type")],
    "elem-add": [("word", "elem"), ("lit", 1, "dec"), ("word", "add")],
    "elem-pos-hex": [("word", "elem"), ("word", "pos"), ("word", "hex")],
    # the stack is copied (forked by an ALT, saved by a sub-expression) while the value waits below: it keeps its position
    "elem-fork": [("word", "elem"), ("alt", [("lit", 10, "dec"), ("lit", 20, "dec")]), ("word", "drop")],
    "elem-sub": [("word", "elem"), ("sub", True, (), ("lit", 1, "dec"))],
    "elem-let": [("word", "elem"), ("let", ("Zz",), ("lit", 1, "dec"))],
    "relem-infix": [("word", "relem"), ("infix", ("lit", 1, "dec"), "==", ("lit", 1, "dec"))],
}
ENUM_TAILS = {"pos": [("word", "pos")], "plain": [], "?1": [("word", "?1")], "!0": [("word", "!0")],
              "type-pos": [("word", "type"), ("word", "pos")]}
def K(n):
    return M.VClosure(("lit", n, "dec"), {}, (), "", 0)


STREAM_POOL = [Q([K(1), K(2), K(3)]), Q([C(1), K(2), S(b"x"), K(4)]), Q([C(10), C(20, "hex"), C(30)]), Q([C(7), C(7)]), Q([]), Q([C(1)]), Q([C(1), C(2)]), Q([C(1), C(2), C(3)]), S(b""), S(b"a"), S(b"abc"), S(b"a\0b"),
               Q([Q([C(1), C(2)]), S(b"xy")]), Q([S(b"ab"), Q([C(5)]), S(b"")])]


def stream_cases():
    out = []
    for op in ENUM_OPS:
        for tail in ENUM_TAILS:
            for a in STREAM_POOL:
                for b in STREAM_POOL:
                    out.append(((op, tail), (a, b)))
                    if a is not b and len(out) % 3 == 0:
                        out.append(((op, tail), (a, b, a)))
    return out


def check_stream(drv, ev, srcs, w):
    op, tail = w
    node = ("cat", [("alt", [lit_node(v) for v in srcs])] + ENUM_OPS[op] + ENUM_TAILS[tail])
    try:
        o = run_case(drv, node, (), limit=500, steps=100000)
    except DriverCrash as e:
        ev.violations.append({"property": PID, "query": render(node), "stack_enc": [],
                              "reason": "driver crashed: " + e.report[-2500:], "ast": repr(node),
                              "signature": "C11:crash:stream:%s:%s" % w})
        return
    except DriverTimeout:
        ev.inconc("watchdog")
        return
    if o.status == "inconclusive":
        ev.inconc(o.reason.split(":")[0][:50])
        return
    multi = sum(1 for v in srcs if (len(v.items) if v.t == "q" else len(v.data)) >= 2)
    ev.case(key=("stream", w, repr(srcs)), nontrivial=multi >= 2)
    ev.label("history:stream")
    if multi >= 2:
        ev.label("stream:renumbered")
    if o.status == "violation":
        ev.violations.append({"property": PID, "query": o.text, "stack_enc": [], "history": "stream",
                              "reason": o.reason, "ast": repr(node),
                              "engine_stderr": (o.reply or {}).get("stderr", b"").decode("latin-1")[:800],
                              "signature": "C11:stream:%s:%s:%s" % (op, tail, o.text[:100])})


def filler(rnd, n):
    return [rnd.choice(POOL) for _ in range(n)]


def work(task):
    kind, lo, hi, seed, thorough = task
    ev = Evidence()
    drv = Driver()
    try:
        if kind == "unary":
            cases = [(w, (v,)) for w in UNARY for v in POOL]
        elif kind == "binary":
            cases = [(w, (a, b)) for w in BINARY for a in POOL for b in POOL]
        elif kind == "stream":
            cases = stream_cases()
        elif kind == "search":
            cases = [("search", c) for c in search_cases(thorough)]
        else:
            pool3 = POOL[::3]
            cases = [(w, (a, b, c)) for w in TERNARY for a in pool3 for b in pool3 for c in pool3]
        for idx in range(lo, min(hi, len(cases))):
            if len(ev.violations) >= 30:
                break       # verdict settled
            w, ops = cases[idx]
            if kind == "stream":
                check_stream(drv, ev, ops, w)
                continue
            if kind == "search":
                check_search(drv, ev, ops[0], ops[1], ops[2], thorough)
                continue
            rnd = random.Random((seed << 20) ^ idx ^ hash(kind) & 0xffff)
            depth_below = rnd.choice([0, 0, 1, 2, 3, 4]) if kind != "ternary" else rnd.choice([0, 1, 3])
            stack = filler(rnd, depth_below) + list(ops)
            check(drv, ev, stack, w, rnd, all_hist=thorough or kind != "binary" or idx % 8 == 0)
            if kind == "binary" and (thorough or idx % 3 == 0) and w in ("add", "sub", "mul", "div", "mod", "?find", "?starts", "?ends", "!find"):
                # a word gets values of its own: another live copy of an operand (kept by `dup`, by a binding, by the
                # other branch of a fork) is what it was afterwards
                a, b = ops
                la, lb = lit_node(a), lit_node(b)
                wn = word_nodes(w)
                for sname, node in (("dup", ("cat", [la, ("word", "dup"), lb] + wn)),
                                    ("bound", ("cat", [la, ("scope", ("X",), ("cat", [("read", "X"), lb] + wn + [("read", "X")]))])),
                                    ("fork", ("cat", [la, ("alt", [("cat", [lb] + wn), ("cat", [lb] + wn), ("nop",)])]))):
                    try:
                        o = run_case(drv, node, (), limit=500, steps=100000)
                    except DriverCrash as e:
                        ev.violations.append({"property": PID, "query": render(node), "reason": "driver crashed: " + e.report[-2500:], "ast": repr(node),
                                              "signature": "C11:crash:shared:" + render(node)[:80]})
                        continue
                    except DriverTimeout:
                        ev.inconc("watchdog")
                        continue
                    if o.status == "inconclusive":
                        continue
                    ev.case(key=("shared", sname, w, repr(ops)), nontrivial=True)
                    ev.label("shared-copy:" + sname)
                    if o.status == "violation":
                        ev.violations.append({"property": PID, "query": o.text, "reason": "another copy of an operand is alive (%s): %s" % (sname, o.reason), "ast": repr(node),
                                              "signature": "C11:shared:%s:%s" % (w, o.text[:100])})
        if kind == "unary" and lo == 0:
            # too-shallow stacks: a word on a stack that lacks its operands fails through the API
            for w in ["drop", "dup", "swap", "over", "rot", "type", "pos"]:
                for d in range(0, {"swap": 2, "over": 2, "rot": 3}.get(w, 1)):
                    r = drv.run(w, stack_spec(filler(rnd, d)))
                    ev.case(key=("shallow", w, d), nontrivial=True)
                    if "error" not in r or r.get("res"):
                        ev.violations.append({"property": PID, "query": w, "reason": "word on a too-shallow stack (depth %d) did not fail: %r" % (d, {k: v for k, v in r.items() if k != "stderr"}),
                                              "signature": "C11:shallow:%s:%d" % (w, d)})
    finally:
        drv.kill()
    return ev


# ---- ?find / ?starts / ?ends: every haystack and needle over a two-letter alphabet (self-overlapping needles,
# repeated prefixes: what a hand-written search gets wrong), strings and sequences alike

SEARCH_ALPHABETS = {"str": ('"%s"', ["a", "b"], ""), "seq": ("[%s]", ["1", "2"], ", "), "seq-mixed": ("[%s]", ["[1]", '"x"'], ", ")}
SEARCH_WORDS = ["?find", "!find", "?starts", "!starts", "?ends", "!ends"]


def search_words_of(maxlen):
    import itertools
    return [w for n in range(maxlen + 1) for w in itertools.product((0, 1), repeat=n)]


def search_cases(thorough):
    hs = search_words_of(8 if thorough else 6)
    return [(kind, h, w) for kind in SEARCH_ALPHABETS for h in hs for w in SEARCH_WORDS]


def check_search(drv, ev, kind, h, w, thorough):
    fmt, letters, sep = SEARCH_ALPHABETS[kind]
    lit = lambda x: fmt % sep.join(letters[i] for i in x)
    needles = search_words_of(5 if thorough else 4)
    q = "[%s] elem (|N| %s N %s N length)" % (", ".join(lit(n) for n in needles), lit(h), w)     # (`elem` numbers the needles)
    r = drv.run(q, limit=1000)
    def holds(n):
        k = len(n)
        if w[1:] == "find":
            res = any(h[i:i + k] == n for i in range(len(h) - k + 1))
        elif w[1:] == "starts":
            res = h[:k] == n
        else:
            res = (h[len(h) - k:] == n) if k <= len(h) else False
        return res if w[0] == "?" else not res
    want = [(n, pos) for pos, n in enumerate(needles) if holds(n)]
    overlapping = any(len(n) >= 3 and n[0] == n[1] or len(n) >= 4 and n[:2] == n[2:4] for n, _ in want)
    ev.case(key=("search", kind, h, w), nontrivial=len(h) >= 3)
    ev.label("search:" + kind)
    if "error" in r or "cerror" in r or r["stderr"]:
        ev.violations.append({"property": PID, "query": q, "reason": "search query failed: %r" % {k: v for k, v in r.items() if k != "res"},
                              "signature": "C11:search:%s:%s:%r" % (kind, w, h)})
        return
    # each result: the needle's length on top of the needle, the needle keeps the position it came with
    got = [(int(s_[-1]["v"]), s_[-2]["p"]) for s_ in r["res"]]
    if got != [(len(n), pos) for n, pos in want]:
        miss = [lit(n) for n, pos in want if (len(n), pos) not in got][:3]
        extra = [lit(needles[p_]) for l_, p_ in got if (l_, p_) not in [(len(n), pos) for n, pos in want]][:3]
        ev.violations.append({"property": PID, "query": q, "signature": "C11:search:%s:%s:%r" % (kind, w, h),
                              "reason": "%s %s: needles that should pass but do not %r; that pass but should not %r" % (lit(h), w, miss, extra)})


def ncases(kind, thorough=False):
    if kind == "search":
        return len(search_cases(thorough))
    if kind == "unary":
        return len(UNARY) * len(POOL)
    if kind == "binary":
        return len(BINARY) * len(POOL) ** 2
    if kind == "stream":
        return len(stream_cases())
    return len(TERNARY) * len(POOL[::3]) ** 3


def main(tier, seed):
    t0 = time.time()
    ev = Evidence()
    tasks = []
    for kind in ("unary", "binary", "ternary", "stream", "search"):
        n = ncases(kind, tier == "thorough")
        step = max(50, n // 40 + 1)
        tasks += [(kind, lo, lo + step, seed, tier == "thorough") for lo in range(0, n, step)]
    ev.merge(run_pool(work, tasks))
    ev.extra["pool_values"] = len(POOL)
    ev.extra["word_operand_tuples"] = sum(ncases(k) for k in ("unary", "binary", "ternary", "stream"))
    return finish(PID, tier, seed, ev, RULE, t0, exhaustive=True,
                  assumptions=["zwv/model.py word semantics written from the docstrings",
                               "?match is an unanchored POSIX-ERE search (tests.sh pins this against the docstring); only regexes in the subset common to POSIX and Python are judged",
                               "order across types / unrelated domains is not judged here (C09)",
                               "exhaustive=true: every (word, operand tuple) over the pool is enumerated; fillers and histories are sampled per tuple"],
                  health={"all histories used": all(ev.labels.get("history:" + h, 0) > 0 for h in ("api", "api-pos", "literals", "junk-drop", "deep-junk", "swap", "rot", "mixed")),
                          "soft errors agreed": ev.labels.get("soft-error-agreed", 0) > 50,
                          "operands with another live copy": all(ev.labels.get("shared-copy:" + k, 0) > 100 for k in ("dup", "bound", "fork")),
                          "renumbering exercised": ev.labels.get("stream:renumbered", 0) > 200,
                          "exhaustive search cases (strings, sequences, sequences of mixed elements)": all(ev.labels.get("search:" + k, 0) > 500 for k in SEARCH_ALPHABETS)})


def replay(path):
    import json
    rec = json.load(open(path))
    drv = Driver()
    node = eval(rec["ast"], {"__builtins__": {}})
    o = run_case(drv, node, decode_stack(rec.get("stack_enc", [])))
    print(o.status, o.reason)
    drv.kill()
    return 1 if o.status == "violation" else 0
