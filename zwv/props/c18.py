"""C18 -- ELF symbols are reported completely and faithfully.

Generated symbol tables (0-200 entries; every type x binding x visibility code incl. OS- and
processor-specific ranges; zero size; SHN_ABS / SHN_UNDEF / SHN_COMMON / section symbols; empty,
long and duplicate names) written as ELF32/ELF64, little/big endian, for a dozen machines.
Ground truth by construction.  Observed through the words (name value address size label binding
visibility pos) and through the driver's dump of the raw GElf_Sym.  Constant families: names
from /usr/include/elf.h parsed independently; machine-specific codes must render in the file's
family and must not equal another machine's.  Sample binaries and compiled objects: `readelf -sW`.
"""
import glob, os, random, re, subprocess, time

from ..dwgen import write_elf, Sym
from ..dwcheck import TempElf
from ..drv import Driver, DriverCrash, DriverTimeout, BUILD
from ..harness import Evidence, run_pool, finish
from ..hdr import elf_constants

PID = "C18"
CLI = os.path.join(BUILD, "bin", "dwgrep")
RULE = ("generated .symtab-only ELF files: machines X86_64 386 ARM AARCH64 MIPS PPC PPC64 SPARC SPARCV9 S390 IA_64 PARISC ALPHA "
        "and an unknown number, ELF32/64 x LE/BE; 0-200 symbols covering all 16 types x 16 bindings x 4 visibilities, "
        "st_other high bits, boundary values and sizes, special section indices, empty/long/duplicate/non-ASCII names; every "
        "entry checked for index, position, name, value/address, size, type, binding, visibility and the rendering family; "
        "cross-machine equality of type/binding constants; samples vs readelf -sW.  Non-trivial: the table has a "
        "processor- or OS-specific type or binding, or > 64 entries, or the machine is not x86.  Distinct by file content.")

EM = {"X86_64": 62, "386": 3, "ARM": 40, "AARCH64": 183, "MIPS": 8, "PPC": 20, "PPC64": 21, "SPARC": 2, "SPARCV9": 43, "SPARC32PLUS": 18,
      "S390": 22, "IA_64": 50, "PARISC": 15, "ALPHA": 0x9026, "UNKNOWN": 999}
# machines whose natural class/endianness we use
SHAPES = {"X86_64": (64, False), "386": (32, False), "ARM": (32, False), "AARCH64": (64, False), "MIPS": (32, True),
          "PPC": (32, True), "PPC64": (64, True), "SPARC": (32, True), "SPARCV9": (64, True), "SPARC32PLUS": (32, True), "S390": (64, True),
          "IA_64": (64, False), "PARISC": (32, True), "ALPHA": (64, False), "UNKNOWN": (64, False)}
ARCH_OF = {"ARM": "ARM", "MIPS": "MIPS", "SPARC": "SPARC", "SPARCV9": "SPARC", "SPARC32PLUS": "SPARC", "PARISC": "PARISC"}


def gen_symbols(rnd):
    n = rnd.choice([0, 1, 2, 5, 17, 64, 65, 120, 200])
    syms = [Sym()] if n or rnd.random() < 0.5 else []
    names = [b"", b"a", b"main", b"_ZN3foo3barEv", b"x" * 300, b"dup", b"dup", b"n\xc3\xa9", b"with space", b".L1", b"$d"]
    for i in range(n):
        typ = rnd.choice([0, 1, 2, 3, 4, 5, 6, 10, 13, 15, rnd.randint(0, 15)])
        bind = rnd.choice([0, 1, 2, 10, 13, rnd.randint(0, 15)])
        vis = rnd.randint(0, 3)
        shndx = rnd.choice([0, 1, 1, 0xfff1, 0xfff2])
        # 64-bit fields (masked to 32 bits when the file is ELF32): boundaries of both widths
        wide = [1 << 32, (1 << 32) + 16, (1 << 63) - 1, 1 << 63, (1 << 64) - 1, rnd.getrandbits(64)]
        value = rnd.choice([0, 1, 0x1000, 0x7fffffff, 0x80000000, 0xffffffff, rnd.randint(0, 1 << 32)] + wide)
        size = rnd.choice([0, 0, 1, 8, 0x7fffffff, 0xffffffff, rnd.randint(0, 4096)] + wide)
        other_hi = rnd.choice([0, 0, 0, 0x20, 0x60, 0x80])
        syms.append(Sym(rnd.choice(names) if rnd.random() < 0.7 else b"s%d" % i, value, size, typ, bind, vis, shndx, other_hi))
    # local symbols must precede globals for a well-formed table
    head = syms[:1]
    rest = sorted(syms[1:], key=lambda s: 0 if s.bind == 0 else 1)
    return head + rest


def family_names(prefix, machine_name):
    """{code: set of acceptable names} from elf.h for this machine."""
    consts = elf_constants()
    arch = ARCH_OF.get(machine_name)
    out = {}
    archs = ("ARM", "MIPS", "SPARC", "PARISC", "PPC", "PPC64", "IA_64", "ALPHA", "AARCH64", "X86_64", "S390", "HP", "GNU")
    for name, v in consts.items():
        if not name.startswith(prefix + "_"):
            continue
        body = name[len(prefix) + 1:]
        if body in ("LOOS", "HIOS", "LOPROC", "HIPROC", "NUM"):
            continue
        a = next((x for x in ("ARM", "MIPS", "SPARC", "PARISC") if body.startswith(x + "_")), None)
        if a is not None and a != arch:
            continue
        out.setdefault(v, set()).add(name)
    return out


Q = ("symbol (|S| [S name] [S value] [S address] [S size] [S label] [S binding] [S visibility] [S pos] "
     "[S label \"%s\"] [S binding \"%s\"] [S visibility \"%s\"])")


def check_table(drv, ev, data, syms, mname, bits, cli_lines=None):
    with TempElf(data) as path:
        try:
            h = drv.open(path)
        except RuntimeError as e:
            if not syms:
                return None
            return "cannot open the generated file: %s" % e
        tok = "V%d" % h
        try:
            r = drv.run(Q, tok, limit=1000, steps=10000000)
            d = drv.run("symbol", tok, limit=1000)
        finally:
            drv.req("vclose %d" % h)
        # what the command line tool itself prints for a symbol (it asks the library for the machine's constant
        # families through the C API): index, value, size, then type, binding, visibility as the words render them
        cli = None
        if syms and cli_lines is not None:
            pr = subprocess.run([CLI, path, "-e", "symbol"], stdout=subprocess.PIPE, stderr=subprocess.PIPE,
                                env=dict(os.environ, ASAN_OPTIONS="detect_leaks=0"))
            cli = (pr.returncode, pr.stdout, pr.stderr)
    if "error" in r or "error" in d:
        if not syms and "error" in r:
            return None
        return "symbol query failed: %r" % (r.get("error") or d.get("error"))
    if len(r["res"]) != len(syms) or len(d["res"]) != len(syms):
        return "`symbol` yields %d entries, the table has %d" % (len(r["res"]), len(syms))
    if cli is not None:
        rc, out, err = cli
        lines = out.decode("latin-1").split("\n")
        lines = lines[:-1] if lines and lines[-1] == "" else lines
        # (a name may contain anything, also line breaks: take the fields from the front of the lines that start an entry)
        starts = [l for l in lines if re.match(r"^\d+:\t0x?[0-9a-f]+ +\d+ ", l) or re.match(r"^\d+:\t0+ +\d+ ", l)]
        if rc != 0 or len(starts) < len(syms):
            return "the command line tool lists %d symbols (exit status %d), the table has %d: %r" % (len(starts), rc, len(syms), err[-200:])
        cli_lines.extend(starts)
    stt = family_names("STT", mname)
    stb = family_names("STB", mname)
    stv = family_names("STV", mname)
    mask = (1 << bits) - 1 if bits == 32 else (1 << 64) - 1
    for i, (row, dd, s) in enumerate(zip(r["res"], d["res"], syms)):
        v = dd[-1]
        if (v["idx"], v["p"]) != (i, i):
            return "entry #%d: index %d, position %d" % (i, v["idx"], v["p"])
        exp_raw = (((s.bind & 15) << 4) | (s.typ & 15), (s.vis & 3) | (s.other_hi & 0xfc), s.shndx, s.value & mask, s.size & mask)
        got_raw = (v["st_info"], v["st_other"], v["st_shndx"], int(v["st_value"]), int(v["st_size"]))
        if got_raw != exp_raw or bytes.fromhex(v["name"]) != s.name:
            return "entry #%d: raw symbol %r name %r, stored %r name %r" % (i, got_raw, bytes.fromhex(v["name"])[:30], exp_raw, s.name[:30])
        cols = row[-11:]
        name = [bytes.fromhex(e["x"]) for e in cols[0]["e"]]
        nums = [[int(e["v"]) for e in c["e"]] for c in cols[1:8]]
        want = [[s.value & mask], [s.value & mask], [s.size & mask], [s.typ & 15], [s.bind & 15], [s.vis & 3], [i]]
        if name != [s.name] or nums != want:
            return ("entry #%d (%r): words yield name %r value/address/size/label/binding/visibility/pos %r, stored %r"
                    % (i, s.name[:20], name, nums, want))
        doms = [cols[k]["e"][0]["d"] for k in (4, 5, 6)]
        if not (doms[0].startswith("STT") and doms[1].startswith("STB") and doms[2].startswith("STV")):
            return "entry #%d: label/binding/visibility are not STT_/STB_/STV_ constants: %r" % (i, doms)
        if cli is not None and all(32 <= c < 127 for c in s.name) and i < len(cli_lines):
            m = re.match(r"^(\d+):\t(\S+) +(\d+) ([^\t]+)\t([^\t]+)\t([^\t]+)\t(.*)$", cli_lines[i])
            brief = [bytes.fromhex(cols[k]["e"][0]["x"]).decode("latin-1")[4:] for k in (8, 9, 10)]
            if not m or int(m.group(1)) != i or [m.group(4), m.group(5), m.group(6)] != brief:
                return "entry #%d: the command line tool prints %r; `label`, `binding`, `visibility` render as %r on this %s file" % (i, cli_lines[i][:120], brief, mname)
        for k, fam, code, pfx in ((8, stt, s.typ & 15, "STT"), (9, stb, s.bind & 15, "STB"), (10, stv, s.vis & 3, "STV")):
            txt = bytes.fromhex(cols[k]["e"][0]["x"]).decode("latin-1")
            if code in fam:
                if txt not in fam[code]:
                    return "entry #%d: %s code %d renders as %r on %s, elf.h says %r" % (i, pfx, code, txt, mname, sorted(fam[code]))
            else:
                # a code without a name: as an offset into the reserved range it lies in (both ends inclusive:
                # LOOS..HIOS = 10..12, LOPROC..HIPROC = 13..15), otherwise marked as unknown
                want = "%s_LOOS+%d" % (pfx, code - 10) if 10 <= code <= 12 and pfx != "STV" else \
                       "%s_LOPROC+%d" % (pfx, code - 13) if 13 <= code <= 15 and pfx != "STV" else None
                if want is not None and txt != want:
                    return "entry #%d: %s code %d (no name in elf.h for %s) renders as %r, expected %r" % (i, pfx, code, mname, txt, want)
                if want is None and not (txt.startswith(pfx + "_") and "???" in txt):
                    return "entry #%d: %s code %d (no name in elf.h for %s) renders as %r" % (i, pfx, code, mname, txt)
    return None


def work_gen(task):
    seed, start, count = task
    ev = Evidence()
    drv = Driver(timeout=120)
    try:
        for i in range(start, start + count):
            rnd = random.Random((seed << 32) ^ (i * 2654435761 & 0xffffffff) ^ 0xC18)
            mname = rnd.choice(sorted(EM))
            bits, big = SHAPES[mname]
            if rnd.random() < 0.15:
                bits, big = rnd.choice([32, 64]), rnd.random() < 0.5
            syms = gen_symbols(rnd)
            data = write_elf([(b".text", b"\0" * 64)], syms, machine=EM[mname], bits=bits, big=big)
            try:
                with_cli = i % 3 == 0
                why = check_table(drv, ev, data, syms, mname, bits, [] if with_cli else None)
                if with_cli and syms:
                    ev.label("cli-symbol-lines")
            except DriverCrash as e:
                ev.violations.append({"property": PID, "elf_hex": data.hex()[:20000], "recipe": {"seed": seed, "index": i},
                                      "reason": "driver crashed: " + e.report[-3000:], "signature": "C18:crash:%d" % i})
                continue
            except DriverTimeout:
                ev.inconc("watchdog")
                continue
            spec = any(s.typ >= 10 or s.bind >= 10 for s in syms)
            nt = spec or len(syms) > 64 or mname not in ("X86_64", "386")
            ev.case(key=data, nontrivial=nt)
            ev.label("machine:" + mname)
            ev.label("class:%d%s" % (bits, "BE" if big else "LE"))
            if why:
                ev.violations.append({"property": PID, "elf_hex": data.hex()[:20000], "recipe": {"seed": seed, "index": i}, "machine": mname,
                                      "reason": "%s ELF%d %s: %s" % (mname, bits, "BE" if big else "LE", why), "signature": "C18:gen:" + why[:70]})
            elif nt and rnd.random() < 0.02:
                ev.sample({"machine": mname, "class": bits, "big_endian": big, "symbols": len(syms),
                           "specific_codes": sorted(set((s.typ, s.bind) for s in syms if s.typ >= 10 or s.bind >= 10))[:6]})
    finally:
        drv.kill()
    return ev


def ar_archive(members):
    """A System V ar archive (no symbol index) of (name, bytes) members."""
    out = b"!<arch>\n"
    for name, data in members:
        hdr = (name + "/").ljust(16).encode() + b"0".ljust(12) + b"0".ljust(6) + b"0".ljust(6) + b"644".ljust(8) + str(len(data)).ljust(10).encode() + b"`\n"
        assert len(hdr) == 60
        out += hdr + data + (b"\n" if len(data) % 2 else b"")
    return out


def work_archives(task):
    """A file with several symbol tables: an archive of objects.  Every entry of every member exactly once, each
    member's entries in table order (the index restarts with every member; positions run on)."""
    seed, start, count = task
    ev = Evidence()
    drv = Driver(timeout=120)
    try:
        for i in range(start, start + count):
            rnd = random.Random((seed << 32) ^ (i * 2654435761 & 0xffffffff) ^ 0xA18)
            mname = rnd.choice(["X86_64", "X86_64", "AARCH64", "ARM", "PPC64"])
            bits, big = SHAPES[mname]
            tables = [(gen_symbols(rnd) or [Sym()])[:rnd.choice([3, 8, 20, 60])] for _ in range(rnd.randint(2, 4))]     # (no empty tables)
            members = [("m%d.o" % k, write_elf([(b".text", b"\0" * 64)], t, machine=EM[mname], bits=bits, big=big)) for k, t in enumerate(tables)]
            data = ar_archive(members)
            mask = (1 << bits) - 1 if bits == 32 else (1 << 64) - 1
            try:
                with TempElf(data) as path:
                    h = drv.open(path)
                    try:
                        d = drv.run("symbol", "V%d" % h, limit=2000)
                        w = drv.run("symbol (|S| [S name] [S value] [S size] [S label] [S binding] [S visibility] [S pos])", "V%d" % h, limit=2000, steps=10000000)
                    finally:
                        drv.req("vclose %d" % h)
            except RuntimeError as e:
                ev.inconc("archive not opened: " + str(e)[:40])
                continue
            except DriverCrash as e:
                ev.violations.append({"property": PID, "elf_hex": data.hex()[:20000], "reason": "driver crashed on an archive: " + e.report[-2500:], "signature": "C18:ar-crash:%d" % i})
                continue
            except DriverTimeout:
                ev.inconc("watchdog")
                continue
            ev.case(key=data, nontrivial=True)
            ev.label("archive")
            ev.label("archive-members:%d" % len(tables))
            if "error" in d or "error" in w:
                ev.violations.append({"property": PID, "elf_hex": data.hex()[:20000], "reason": "symbol on an archive failed: %r" % (d.get("error") or w.get("error")),
                                      "signature": "C18:ar-error"})
                continue
            got = [(v[-1]["idx"], bytes.fromhex(v[-1]["name"]), int(v[-1]["st_value"]), int(v[-1]["st_size"]), v[-1]["st_info"], v[-1]["p"]) for v in d["res"]]
            # members may be reported in any order; within a member the table order is fixed
            want_members = [[(k, s.name, s.value & mask, s.size & mask, ((s.bind & 15) << 4) | (s.typ & 15)) for k, s in enumerate(t)] for t in tables]
            why = None
            pos_ok = [g[5] for g in got] == list(range(len(got)))
            rest = [g[:5] for g in got]
            remaining = list(want_members)
            while rest and remaining:
                m = next((t for t in remaining if rest[:len(t)] == t), None)
                if m is None:
                    break
                rest = rest[len(m):]
                remaining.remove(m)
            if rest or remaining:
                why = "`symbol` on an archive of %d members with %r entries yields %d entries that are not the members' tables one after the other (first unmatched: %r)" % (
                    len(tables), [len(t) for t in tables], len(got), rest[:2])
            elif not pos_ok:
                why = "positions of the entries of an archive are not 0, 1, 2, ...: %r" % [g[5] for g in got][:12]
            elif len(w["res"]) != len(got):
                why = "the words see %d entries, `symbol` yields %d" % (len(w["res"]), len(got))
            else:
                for row, g in zip(w["res"], got):
                    cols = row[-7:]
                    nm = [bytes.fromhex(e["x"]) for e in cols[0]["e"]]
                    nums = [[int(e["v"]) for e in c["e"]] for c in cols[1:]]
                    if nm != [g[1]] or nums[0] != [g[2]] or nums[1] != [g[3]] or nums[2] != [g[4] & 15] or nums[3] != [g[4] >> 4]:
                        why = "archive entry %r: words yield %r %r" % (g[:5], nm, nums[:4])
                        break
            if why:
                ev.violations.append({"property": PID, "elf_hex": data.hex()[:20000], "recipe": {"seed": seed, "index": i, "kind": "archive"},
                                      "reason": why, "signature": "C18:ar:" + why[:60]})
            elif rnd.random() < 0.1:
                ev.sample({"archive_members": [len(t) for t in tables], "machine": mname})
    finally:
        drv.kill()
    return ev


FLAVOURS = {"SPARC": ["SPARC", "SPARC32PLUS"], "ARM": ["ARM"], "MIPS": ["MIPS"], "PARISC": ["PARISC"], "PPC": ["PPC"]}
PLAIN_CLI = os.path.join(BUILD, "bin", "dwgrep-plain")


def work_family_archives(task):
    """An archive whose members are objects of one constant family: the same machine, or flavours of it that differ in
    e_machine (a 32-bit SPARC archive of v8 and v8plus objects).  Types and bindings are named in that family for
    every member, and the machine's own words match exactly the entries that carry the code.  Run on the command
    line tool built the way the project's instructions build it (assertions compiled out): with assertions on the
    library stops on an archive whose members differ in e_machine, see DESIGN section 4."""
    import itertools
    seed, start, count = task
    ev = Evidence()
    for i in range(start, start + count):
        rnd = random.Random((seed << 32) ^ (i * 2654435761 & 0xffffffff) ^ 0xFA18)
        fam = rnd.choice(["SPARC", "SPARC", "SPARC", "ARM", "MIPS", "PARISC"])
        flav = [rnd.choice(FLAVOURS[fam]) for _ in range(rnd.randint(2, 3))]
        if fam == "SPARC" and len(set(flav)) == 1 and rnd.random() < 0.8:
            flav[rnd.randrange(len(flav))] = "SPARC32PLUS" if flav[0] == "SPARC" else "SPARC"
        tables = []
        for _ in flav:
            t = (gen_symbols(rnd) or [Sym()])[:rnd.choice([3, 8, 20])]
            t = [Sym(b"s%d" % k, x.value, x.size, x.typ, x.bind, x.vis, x.shndx, x.other_hi) for k, x in enumerate(t)]
            if len(t) > 1 and rnd.random() < 0.7:
                x = t[-1]
                t[-1] = Sym(x.name, x.value, x.size, 13, x.bind, x.vis, x.shndx, x.other_hi)
            tables.append(t)
        members = [("m%d.o" % k, write_elf([(b".text", b"\0" * 64)], t, machine=EM[m], bits=SHAPES[m][0], big=SHAPES[m][1])) for k, (m, t) in enumerate(zip(flav, tables))]
        data = ar_archive(members)
        stt, stb = family_names("STT", flav[0]), family_names("STB", flav[0])
        special = sorted(n for c in (13, 14, 15) for n in stt.get(c, ()) if ("_" + fam + "_") in n)
        with TempElf(data) as path:
            try:
                pr = subprocess.run([PLAIN_CLI, path, "-e", 'symbol (|S| S label "%s" " " S binding "%s" add add)'], stdout=subprocess.PIPE, stderr=subprocess.PIPE, timeout=120)
                counts = {}
                for w in special:
                    pc = subprocess.run([PLAIN_CLI, "-c", path, "-e", "symbol (label == %s)" % w], stdout=subprocess.PIPE, stderr=subprocess.PIPE, timeout=120)
                    counts[w] = (pc.returncode, pc.stdout.strip())
            except subprocess.TimeoutExpired:
                ev.inconc("watchdog")
                continue
        ev.case(key=data, nontrivial=len(set(flav)) > 1 or any(x.typ & 15 >= 13 for t in tables for x in t))
        ev.label("family-archive:" + fam)
        if len(set(flav)) > 1:
            ev.label("family-archive:members-differ-in-e_machine")
        why = None
        lines = pr.stdout.decode("latin-1").split("\n")[:-1]
        if pr.returncode != 0:
            why = "exit status %d, stderr %r" % (pr.returncode, pr.stderr[-200:])
        else:
            def fits(line, x):
                m = re.match(r"^(STT_\S+(?: \(0x[0-9a-f]+\))?) (STB_.*)$", line)
                if not m:
                    return False
                a, b = m.group(1), m.group(2)
                ta, tb = x.typ & 15, x.bind & 15
                oka = a in stt[ta] if ta in stt else a == ("STT_LOOS+%d" % (ta - 10) if 10 <= ta <= 12 else "STT_LOPROC+%d" % (ta - 13) if ta >= 13 else None) or (ta < 10 and "???" in a)
                okb = b in stb[tb] if tb in stb else b == ("STB_LOOS+%d" % (tb - 10) if 10 <= tb <= 12 else "STB_LOPROC+%d" % (tb - 13) if tb >= 13 else None) or (tb < 10 and "???" in b)
                return oka and okb
            ok = False
            for perm in itertools.permutations(range(len(tables))):
                flat = [x for k in perm for x in tables[k]]
                if len(flat) == len(lines) and all(fits(l, x) for l, x in zip(lines, flat)):
                    ok = True
                    break
            if not ok:
                bad = next((l for l in lines if not any(fits(l, x) for t in tables for x in t)), None)
                why = "an archive of %s objects (%s): %d lines for %d entries%s" % (fam, "+".join(flav), len(lines), sum(len(t) for t in tables),
                                                                                  ("; %r is no entry's type and binding in the %s family" % (bad, fam)) if bad else "; the lines are not the members' tables one after the other")
            else:
                for w in special:
                    code = next(c for c in stt if w in stt[c])
                    want = sum(1 for t in tables for x in t if x.typ & 15 == code)
                    rc, out = counts[w]
                    if out != b"%d" % want:
                        why = "an archive of %s objects (%s): `symbol (label == %s)` counts %r, %d entries have type %d" % (fam, "+".join(flav), w, out, want, code)
                        break
        if why:
            ev.violations.append({"property": PID, "elf_hex": data.hex(), "recipe": {"seed": seed, "index": i, "kind": "family-archive"}, "reason": why, "signature": "C18:family-ar:" + fam + ":" + why[-50:]})
        elif rnd.random() < 0.05:
            ev.sample({"family_archive": flav, "entries": [len(t) for t in tables], "first_lines": lines[:3]})
    return ev


def work_cross(task):
    """Machine-specific codes of two machines never compare equal; common codes do."""
    ev = Evidence()
    drv = Driver(timeout=120)
    try:
        syms = [Sym()] + [Sym(b"t%d" % t, 0, 0, t, 1, 0, 0xfff1) for t in range(16)] + [Sym(b"b%d" % b, 0, 0, 0, b, 0, 0xfff1) for b in range(1, 16)]
        files = {}
        hs = {}
        for m in ("ARM", "SPARC", "PARISC", "MIPS", "X86_64", "PPC64"):
            bits, big = SHAPES[m]
            files[m] = TempElf(write_elf([(b".text", b"\0" * 8)], syms, machine=EM[m], bits=bits, big=big))
            hs[m] = drv.open(files[m].path)
        ms = sorted(hs)
        for a in ms:
            for b in ms:
                if a >= b:
                    continue
                r = drv.run("(|A B| [A symbol (|X| B symbol (pos == X pos) (|Y| X label Y label ?eq X pos))] "
                            "[A symbol (|X| B symbol (pos == X pos) (|Y| X binding Y binding ?eq X pos))])",
                            "V%d V%d" % (hs[a], hs[b]), limit=5, steps=10000000)
                if "error" in r or not r.get("res"):
                    ev.violations.append({"property": PID, "reason": "cross-machine query failed: %r" % r.get("error"), "signature": "C18:cross:q"})
                    continue
                eq_t = set(int(e["v"]) for e in r["res"][0][-2]["e"])
                eq_b = set(int(e["v"]) for e in r["res"][0][-1]["e"])
                ta, tb = family_names("STT", a), family_names("STT", b)
                ba, bb = family_names("STB", a), family_names("STB", b)
                ev.case(key=("cross", a, b), nontrivial=True)
                ev.label("cross-machine-pair")
                for t in range(16):
                    pos = 1 + t
                    na, nb = ta.get(t, set()), tb.get(t, set())
                    arch_specific = any(x.split("_")[1] in ("ARM", "SPARC", "PARISC", "MIPS") for x in na | nb)
                    if arch_specific and na != nb and pos in eq_t:
                        ev.violations.append({"property": PID, "reason": "type code %d compares equal between %s (%s) and %s (%s)" % (t, a, sorted(na), b, sorted(nb)),
                                              "signature": "C18:cross:t%d:%s:%s" % (t, a, b)})
                    if t < 10 and pos not in eq_t:
                        ev.violations.append({"property": PID, "reason": "generic type code %d differs between %s and %s" % (t, a, b),
                                              "signature": "C18:cross:g%d:%s:%s" % (t, a, b)})
                for bnd in range(1, 16):
                    pos = 16 + bnd
                    na, nb = ba.get(bnd, set()), bb.get(bnd, set())
                    arch_specific = any(x.split("_")[1] in ("ARM", "SPARC", "PARISC", "MIPS") for x in na | nb)
                    if arch_specific and na != nb and pos in eq_b:
                        ev.violations.append({"property": PID, "reason": "binding code %d compares equal between %s and %s" % (bnd, a, b),
                                              "signature": "C18:cross:b%d:%s:%s" % (bnd, a, b)})
                    if bnd < 10 and pos not in eq_b:
                        ev.violations.append({"property": PID, "reason": "generic binding code %d differs between %s and %s" % (bnd, a, b),
                                              "signature": "C18:cross:gb%d:%s:%s" % (bnd, a, b)})
        # one `label` / `binding` word that sees symbols of several machines -- in one execution, and as one compiled
        # query executed on one file after the other: every symbol is rendered in the family of *its* file
        alone = {}
        for m in ms:
            r = drv.run("(|A| [A symbol label \"%s\"] [A symbol binding \"%s\"] [A symbol label] [A symbol binding])", "V%d" % hs[m], limit=5, steps=10000000)
            alone[m] = [[(e.get("x"), e.get("v"), e.get("d")) for e in c["e"]] for c in r["res"][0][-4:]] if r.get("res") else None
        for a in ms:
            for b in ms:
                if a == b or alone[a] is None or alone[b] is None:
                    continue
                r = drv.run("(|A B| [(A, B) symbol label \"%s\"] [(A, B) symbol binding \"%s\"] [(A, B) symbol label] [(A, B) symbol binding])",
                            "V%d V%d" % (hs[a], hs[b]), limit=5, steps=10000000)
                ev.case(key=("both", a, b), nontrivial=True)
                ev.label("one-word-two-machines")
                got = [[(e.get("x"), e.get("v"), e.get("d")) for e in c["e"]] for c in r["res"][0][-4:]] if r.get("res") else None
                want = [x + y for x, y in zip(alone[a], alone[b])]
                if got != want:
                    k = next((k for k in range(4) if got is None or got[k] != want[k]), 0)
                    j = next((j for j in range(len(want[k])) if got is None or j >= len(got[k]) or got[k][j] != want[k][j]), 0)
                    show = lambda t: (bytes.fromhex(t[0]).decode("latin-1") if t[0] else "%s (%s)" % (t[1], t[2]))
                    ev.violations.append({"property": PID, "signature": "C18:both:%s:%s" % (a, b),
                                          "reason": "one `%s` word over a %s file and then a %s file: entry #%d comes out as %s, on its file alone as %s"
                                          % (("label", "binding", "label", "binding")[k], a, b, j, show(got[k][j]) if got and j < len(got[k]) else None, show(want[k][j]))})
                pr = drv.parse("symbol [label \"%s\", binding \"%s\"]")
                if "q" in pr:
                    seqs = []
                    for m in (a, b, a):
                        rr = drv.req("runq %d 1000 10000000 V%d" % (pr["q"], hs[m]))
                        seqs.append([[e.get("x") for e in st[-1]["e"]] for st in rr.get("res", [])])
                    drv.req("qdestroy %d" % pr["q"])
                    ev.case(key=("seq", a, b), nontrivial=True)
                    ev.label("one-query-two-machines")
                    for m, sq in zip((a, b, a), seqs):
                        want2 = [[x[0], y[0]] for x, y in zip(alone[m][0], alone[m][1])]
                        if sq != want2:
                            j = next((j for j in range(len(want2)) if j >= len(sq) or sq[j] != want2[j]), 0)
                            ev.violations.append({"property": PID, "signature": "C18:seq:%s:%s" % (a, b),
                                                  "reason": "one compiled query executed on a %s, a %s and the %s file again: on the %s file entry #%d is %r, executed on that file alone %r"
                                                  % (a, b, a, m, j, [bytes.fromhex(x).decode("latin-1") for x in sq[j]] if j < len(sq) else None,
                                                     [bytes.fromhex(x).decode("latin-1") for x in want2[j]])})
                            break
        # the named words of a family equal the codes of a file of that machine only
        for m, word, code in (("ARM", "STT_ARM_TFUNC", 13), ("SPARC", "STT_SPARC_REGISTER", 13), ("PARISC", "STT_PARISC_MILLICODE", 13),
                              ("ARM", "STT_ARM_16BIT", 15), ("MIPS", "STB_MIPS_SPLIT_COMMON", 13)):
            for f in ms:
                field = "label" if word.startswith("STT") else "binding"
                pos = 1 + code if field == "label" else 16 + code
                r = drv.run("symbol (pos == %d) (%s == %s)" % (pos, field, word), "V%d" % hs[f], limit=5)
                holds = bool(r.get("res"))
                ev.case(key=("word", word, f), nontrivial=True)
                if holds != (f == m or (m == "SPARC" and f == "SPARCV9")):
                    ev.violations.append({"property": PID, "reason": "%s == %s on a %s file: %s" % (field, word, f, holds),
                                          "signature": "C18:word:%s:%s" % (word, f)})
        for t in files.values():
            t.__exit__()
        ev.sample({"cross_machine": ms, "codes": "all 16 types and 15 bindings"})
    finally:
        drv.kill()
    return ev


TYPES = {"NOTYPE": 0, "OBJECT": 1, "FUNC": 2, "SECTION": 3, "FILE": 4, "COMMON": 5, "TLS": 6, "IFUNC": 10}
BINDS = {"LOCAL": 0, "GLOBAL": 1, "WEAK": 2, "UNIQUE": 10}
VISS = {"DEFAULT": 0, "INTERNAL": 1, "HIDDEN": 2, "PROTECTED": 3}


def readelf_syms(path):
    out = subprocess.run(["readelf", "-sW", path], stdout=subprocess.PIPE, stderr=subprocess.PIPE).stdout.decode("latin-1")
    tabs = {}
    cur = None
    for line in out.splitlines():
        m = re.match(r"Symbol table '(\S+)' contains (\d+) entr", line)
        if m:
            cur = m.group(1)
            tabs[cur] = []
            continue
        line = re.sub(r"<(?:processor specific|OS specific|unknown)>: (\d+)", r"CODE\1", line)
        m = re.match(r"\s*(\d+):\s+([0-9a-f]+)\s+(\S+)\s+(\S+)\s+(\S+)\s+(\S+)\s+(\S+)(?:\s(.*))?$", line)
        if m and cur:
            size = int(m.group(3), 0) if not m.group(3).startswith("0x") else int(m.group(3), 16)
            tabs[cur].append((int(m.group(1)), int(m.group(2), 16), size, m.group(4), m.group(5), m.group(6), m.group(7), (m.group(8) or "").strip()))
    return tabs


def work_samples(paths):
    ev = Evidence()
    drv = Driver(timeout=300)
    try:
        for path in paths:
            tabs = readelf_syms(path)
            tab = tabs.get(".symtab") or tabs.get(".dynsym")
            if not tab or (".symtab" in tabs and ".dynsym" in tabs):
                ev.inconc("no single symbol table: " + os.path.basename(path))
                continue
            is_rel = open(path, "rb").read(18)[16] == 1
            try:
                h = drv.open(path)
                r = drv.run(Q, "V%d" % h, limit=100000, steps=100000000)
                drv.req("vclose %d" % h)
            except (RuntimeError, DriverCrash, DriverTimeout) as e:
                ev.inconc("cannot open/query sample: " + os.path.basename(path))
                drv.restart()
                continue
            if "error" in r:
                ev.inconc("symbol failed on sample: " + os.path.basename(path))
                continue
            ev.case(key=("sample", path), nontrivial=len(tab) > 20)
            ev.label("sample")
            why = None
            if len(r["res"]) != len(tab):
                why = "`symbol` yields %d entries, readelf lists %d" % (len(r["res"]), len(tab))
            else:
                for row, t in zip(r["res"], tab):
                    cols = row[-11:]
                    idx, val, size, typ, bind, vis, ndx, name = t
                    name = name.split("@")[0]
                    if typ == "SECTION":
                        name = got_name = ""
                    if typ != "SECTION":
                        got_name = bytes.fromhex(cols[0]["e"][0]["x"]).decode("latin-1")
                    gv, gs, gt, gb, gvis, gpos = [int(cols[k]["e"][0]["v"]) for k in (1, 3, 4, 5, 6, 7)]
                    tcode = TYPES.get(typ, int(typ[4:]) if typ.startswith("CODE") else None)
                    bcode = BINDS.get(bind, int(bind[4:]) if bind.startswith("CODE") else None)
                    if gpos != idx or gs != size or (tcode is not None and gt != tcode) or (bcode is not None and gb != bcode) \
                            or (vis in VISS and gvis != VISS[vis]) or (len(name) < 25 and "[" not in name and got_name != name) \
                            or (gv != val and not (is_rel and ndx.isdigit())):
                        why = "entry %d: dwgrep (%r, %#x, %d, %d, %d, %d), readelf %r" % (idx, got_name, gv, gs, gt, gb, gvis, t)
                        break
            if why:
                ev.violations.append({"property": PID, "file": path, "reason": os.path.basename(path) + ": " + why,
                                      "signature": "C18:sample:" + os.path.basename(path)})
            else:
                ev.sample({"file": os.path.basename(path), "symbols": len(tab), "against": "readelf -sW"}, cap=3)
    finally:
        drv.kill()
    return ev


def main(tier, seed):
    t0 = time.time()
    n = 1500 if tier == "quick" else 40000
    ev = Evidence()
    per = max(10, n // 48)
    ev.merge(run_pool(work_gen, [(seed, s, min(per, n - s)) for s in range(0, n, per)]))
    ev.merge(work_cross(None))
    na = 120 if tier == "quick" else 3000
    ev.merge(run_pool(work_archives, [(seed, s_, min(10, na - s_)) for s_ in range(0, na, 10)]))
    nf = 96 if tier == "quick" else 2400
    ev.merge(run_pool(work_family_archives, [(seed, s_, min(8, nf - s_)) for s_ in range(0, nf, 8)]))
    samples = sorted(p for p in glob.glob("/repo/tests/*") if os.path.isfile(p) and open(p, "rb").read(4) == b"\x7fELF")
    samples += [p for p in ("/verif/build/bin/h_int", "/usr/bin/readelf", "/usr/lib/x86_64-linux-gnu/libelf.so.1") if os.path.exists(p)]
    ev.merge(run_pool(work_samples, [samples[i::8] for i in range(8)]))
    return finish(PID, tier, seed, ev, RULE, t0,
                  assumptions=["generated files carry only .symtab; which table libdwfl picks when several exist is its policy",
                               "`value` of a symbol defined in an allocated section of an ET_REL file is the address libdwfl assigns, not st_value: not compared on samples",
                               "names of codes: /usr/include/elf.h"],
                  health={"all machines generated": sum(1 for k in ev.labels if k.startswith("machine:")) >= 12,
                          "both classes and endiannesses": all(ev.labels.get("class:" + c, 0) > 0 for c in ("32LE", "32BE", "64LE", "64BE")),
                          "cross-machine pairs": ev.labels.get("cross-machine-pair", 0) >= 10,
                          "archives": ev.labels.get("archive", 0) >= 50,
                          "archives of flavours of one family": ev.labels.get("family-archive:members-differ-in-e_machine", 0) >= 20,
                          "samples": ev.labels.get("sample", 0) >= 8})


def replay(path):
    import json
    rec = json.load(open(path))
    print(rec.get("reason"))
    rc = rec.get("recipe") or {}
    if rc.get("kind") in ("family-archive", "archive"):
        ev = (work_family_archives if rc["kind"] == "family-archive" else work_archives)((rc["seed"], rc["index"], 1))
        for v in ev.violations:
            print("now:", v["reason"])
        return 1 if ev.violations else 0
    return 0
