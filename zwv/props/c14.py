"""C14 -- any byte string is either compiled or rejected with an error through the API.

Oracle (the contract of libzwerg.h): zw_query_parse* returns a query and leaves the error object
alone, or returns NULL with an error object whose message is non-empty; never a crash, abort,
escaped exception, over-read (the query is handed over in an exact-size heap buffer under ASan),
or hang (watchdog + step budget).  zw_result_next false <=> error object set.  CLI: rejected
queries and run-time failures give a `dwgrep:` message on stderr and exit status 2.
"""
import os, random, subprocess, time

from .. import gen as G
from ..drv import Driver, DriverCrash, DriverTimeout, BUILD
from ..fuzzrun import prepare, run_campaign, reproduce, seeds_from_tests
from ..harness import Evidence, run_pool, finish
from ..render import render

PID = "C14"
CLI = os.path.join(BUILD, "bin", "dwgrep")
RULE = ("size: ~150 shapes whose nesting depth or length grows without bound (nested %( %) / ( ) / [ ] / { } / ?( ) / if, unclosed "
        "and unopened brackets, long concatenations / alternatives / let chains / postfix operators / string continuations / "
        "directives, megabyte literals, words and comments) at sizes from 3 to 10^6; exhaustive: all 65 793 byte strings of length <= 2; integer-literal shapes (sign x prefix x 0..22 digits x "
        "boundary values +-1 x bad digits); for ~300 grammar-derived programs and the tests.sh corpus every character "
        "prefix, single-character deletion, adjacent swap, NUL insertion, and token deletion/duplication/swap; random "
        "byte soup; run-time failure at every pull index k; the same texts through zw_query_parse (NUL-terminated) "
        "where NUL-free; a sample through the dwgrep CLI (-e, -f, positional); libFuzzer campaign; histories of 20-60 parses in one process (inputs around every limit the parser enforces, rejected inputs of every rule, accepted ones), each verdict and message compared with that of a process that has parsed nothing else.  Non-trivial: the "
        "input is rejected by a rule other than the catch-all `Invalid character', or accepted with >= 3 tokens.  "
        "Distinct by input bytes.")


def classify(r, text):
    if "cerror" in r:
        m = r["cerror"]
        if m.startswith("Invalid character"):
            return "reject:invalid-character", False
        for k in ("syntax error", "unbound", "rebound", "not terminated", "parentheses", "Invalid integer",
                  "out of range", "stoull", "overflow", "String let", "Invalid escape", "too large"):
            if k in m:
                return "reject:" + k, True
        return "reject:other", True
    if "error" in r:
        return "runtime-error", True
    ntok = len(text.split())
    return "accepted", ntok >= 3


def check_text(drv, ev, text, also_nul_terminated=True, limit=4, steps=3000):
    """text: bytes."""
    try:
        r = drv.run(text, flags=8, limit=limit, steps=steps)
    except DriverCrash as e:
        ev.violations.append({"property": PID, "input_hex": text.hex(), "query": text.decode("latin-1"),
                              "reason": "crash/abort/escaped exception: " + e.report[-3000:],
                              "signature": "C14:crash:" + text.hex()[:120]})
        return None
    except DriverTimeout:
        ev.violations.append({"property": PID, "input_hex": text.hex(), "query": text.decode("latin-1"),
                              "reason": "hang: no reply within the watchdog while compiling/running under a step budget of %d" % steps,
                              "signature": "C14:hang:" + text.hex()[:120]})
        return None
    cls, nt = classify(r, text.decode("latin-1"))
    ev.case(key=text, nontrivial=nt)
    ev.label(cls)
    bad = None
    for k in ("contract",):
        if k in r:
            bad = r[k]
    for k in ("cerror", "error", "xerror"):
        if k in r and "CONTRACT" in r[k]:
            bad = r[k]
    if "cerror" in r and not r["cerror"]:
        bad = "empty error message"
    if bad:
        ev.violations.append({"property": PID, "input_hex": text.hex(), "query": text.decode("latin-1"),
                              "reason": "API contract: " + bad, "signature": "C14:contract:" + text.hex()[:120]})
    if also_nul_terminated and b"\0" not in text:
        try:
            r2 = drv.run(text, flags=4, limit=limit, steps=steps)
        except (DriverCrash, DriverTimeout) as e:
            ev.violations.append({"property": PID, "input_hex": text.hex(), "query": text.decode("latin-1"),
                                  "reason": "zw_query_parse (NUL-terminated) crashed or hung: " + str(e)[-2000:],
                                  "signature": "C14:crash4:" + text.hex()[:120]})
            return r
        if ("cerror" in r) != ("cerror" in r2) or r.get("cerror") != r2.get("cerror"):
            ev.violations.append({"property": PID, "input_hex": text.hex(), "query": text.decode("latin-1"),
                                  "reason": "zw_query_parse and zw_query_parse_len disagree: %r vs %r" % (r2.get("cerror"), r.get("cerror")),
                                  "signature": "C14:len:" + text.hex()[:120]})
    return r


def work_short(task):
    lo, hi = task
    ev = Evidence()
    drv = Driver()
    try:
        for n in range(lo, hi):
            if n == 0:
                t = b""
            elif n <= 256:
                t = bytes([n - 1])
            else:
                m = n - 257
                t = bytes([m >> 8, m & 255])
            check_text(drv, ev, t, also_nul_terminated=(n % 7 == 0))
    finally:
        drv.kill()
    return ev


def int_shapes():
    out = []
    edges = [0, 1, 7, 8, 9, 255, (1 << 31) - 1, 1 << 31, (1 << 32), (1 << 63) - 1, 1 << 63, (1 << 63) + 1,
             (1 << 64) - 1, 1 << 64, (1 << 64) + 1, 1 << 80]
    for sign in ("", "-"):
        for v in edges:
            for fmt in ("%d", "0x%x", "0X%X", "0o%o", "0O%o", "0%o", "0b{0:b}", "0B{0:b}"):
                s = fmt.format(v) if "{" in fmt else fmt % v
                out.append(sign + s)
        for prefix in ("", "0x", "0X", "0o", "0O", "0", "0b", "0B"):
            for nd in range(0, 23):
                for dig in ("0", "1", "7", "9", "f", "F"):
                    out.append(sign + prefix + dig * nd)
            for tail in ("_", "g", "z", "x", "8", "9", "2", "a", "1_000", "drop", "e5", ".5"):
                out.append(sign + prefix + "1" + tail)
                out.append(sign + prefix + tail)
    for w in ("?", "!"):
        for s in ("0", "1", "01", "0x10", "99999999999999999999", "18446744073709551615", "18446744073709551616", "1a", "0b2"):
            out.append(w + s)
    return sorted(set(out))


def mutations(text, rnd, cap=160):
    """Prefixes, deletions, swaps, NUL insertions, token-level edits of TEXT (bytes)."""
    out = []
    n = len(text)
    idx = list(range(n + 1))
    if n > cap // 4:
        idx = sorted(rnd.sample(idx, cap // 4))
    for i in idx:
        out.append(text[:i])
        if i < n:
            out.append(text[:i] + text[i + 1:])
            out.append(text[:i] + b"\0" + text[i:])
        if i + 1 < n:
            out.append(text[:i] + text[i + 1:i + 2] + text[i:i + 1] + text[i + 2:])
    toks = text.split(b" ")
    tidx = list(range(len(toks)))
    if len(tidx) > 20:
        tidx = sorted(rnd.sample(tidx, 20))
    for j in tidx:
        out.append(b" ".join(toks[:j] + toks[j + 1:]))
        out.append(b" ".join(toks[:j] + [toks[j]] + toks[j:]))
        if j + 1 < len(toks):
            out.append(b" ".join(toks[:j] + [toks[j + 1], toks[j]] + toks[j + 2:]))
    for stray in (b")", b"]", b"}", b"%)", b"\"", b"(", b"[", b"%(", b"|", b";", b":=", b"\\"):
        i = rnd.randint(0, n)
        out.append(text[:i] + stray + text[i:])
    return out


def work_mut(task):
    seed, start, count = task
    ev = Evidence()
    drv = Driver()
    corpus = seeds_from_tests()
    try:
        for i in range(start, start + count):
            rnd = random.Random((seed << 32) ^ (i * 2654435761 & 0xffffffff) ^ 0xC14)
            if i % 3 == 2 and corpus:
                text = corpus[(i // 3) % len(corpus)].encode("latin-1")
            else:
                g = G.Gen(rnd, G.Cfg(max_depth=2, soft=0.1))
                node, _ = g.program()
                text = render(node).encode("latin-1")
            for m in mutations(text, rnd):
                check_text(drv, ev, m, also_nul_terminated=(rnd.random() < 0.15))
            # byte soup
            for _ in range(20):
                n = rnd.randint(1, 12)
                alpha = rnd.choice([bytes(range(256)), b"()[]{}?!|,;:=\"%\\ r01x", b" \t\n#/*\"\\%()"])
                check_text(drv, ev, bytes(rnd.choice(alpha) for _ in range(n)), also_nul_terminated=False)
            if i % 50 == 0 and ev.samples.__len__() < 6:
                ev.sample({"base": text.decode("latin-1")[:120], "mutations": len(mutations(text, rnd))})
    finally:
        drv.kill()
    return ev


def verdict_pool(rnd):
    """Texts for the history tier: inputs around every limit the parser enforces (rejected one level beyond,
    accepted one level before), ordinary rejected inputs of every rule, ordinary accepted ones."""
    pool = [splice_nest(n).encode() for n in (1, 50, 96, 97, 98, 99, 99, 99, 100, 100, 101, 150, 300)]
    pool += [b"1", b"", b"1 2 add", b'"%( 1 %)"', b"[1, 2] elem", b"(", b")", b'"abc', b"let A := 1; let A := 2;", b"foo", b"1 %", b'"%( ( %)"',
             b'"%( 1 %) %( [ %)"', b"0x", b"99999999999999999999999", b'let "x" := 1;', b"1 /* x", b'"\\', b'"%( "%( "%( ) %)" %)" %)"',
             nest("(", "1", ")", 300).encode(), nest("[", "1", "]", 300).encode(), b"(" * 300, b"1" + b")" * 50]
    g = G.Gen(rnd, G.Cfg(max_depth=2, soft=0.1))
    for _ in range(6):
        node, _ = g.program()
        t = render(node).encode("latin-1")
        pool.append(t)
        pool += rnd.sample(mutations(t, rnd), 4)
    return pool


_fresh = {}


def fresh_verdict(text):
    """(accepted?, message) of TEXT when it is the first thing a process parses."""
    if text not in _fresh:
        d = Driver()
        try:
            r = d.run(text, flags=8, limit=1, steps=1000)
            _fresh[text] = ("cerror" not in r, r.get("cerror"))
        except (DriverCrash, DriverTimeout):
            _fresh[text] = None
        finally:
            d.kill()
    return _fresh[text]


def work_history(task):
    """Whether a byte string compiles is a property of the byte string: sequences of 20-60 parses in one process, each
    verdict (and message) compared with the verdict the same bytes get from a process that has parsed nothing else."""
    seed, start, count = task
    ev = Evidence()
    for i in range(start, start + count):
        if len(ev.violations) >= 10:
            break
        rnd = random.Random((seed << 32) ^ (i * 2654435761 & 0xffffffff) ^ 0x14A)
        pool = verdict_pool(rnd)
        seq = [rnd.choice(pool) for _ in range(rnd.randint(20, 60))]
        drv = Driver()
        try:
            nrej = 0
            for k, text in enumerate(seq):
                try:
                    r = drv.run(text, flags=8, limit=1, steps=1000)
                except (DriverCrash, DriverTimeout) as e:
                    ev.violations.append({"property": PID, "input_hex": text.hex(), "query": text.decode("latin-1")[:300],
                                          "reason": "crash or hang as parse #%d of a sequence: %s" % (k, str(e)[-1500:]), "signature": "C14:hist-crash:" + text.hex()[:80]})
                    break
                got = ("cerror" not in r, r.get("cerror"))
                want = fresh_verdict(text)
                if want is None:
                    continue
                ev.case(key=("hist", i, k), nontrivial=nrej >= 1)
                ev.label("history-parse")
                if not got[0]:
                    nrej += 1
                if got != want:
                    ev.violations.append({"property": PID, "input_hex": text.hex(), "query": text.decode("latin-1")[:300],
                                          "history": [t.decode("latin-1")[:80] for t in seq[:k]][-12:], "signature": "C14:hist:" + text.hex()[:80],
                                          "reason": "as parse #%d of a sequence (after %d rejections) the input is %s (%r); parsed first in a process it is %s (%r)"
                                          % (k, nrej, "accepted" if got[0] else "rejected", got[1], "accepted" if want[0] else "rejected", want[1])})
                    break
        finally:
            drv.kill()
    return ev


def work_ints(task):
    lo, hi = task
    ev = Evidence()
    drv = Driver()
    shapes = int_shapes()[lo:hi]
    try:
        for s in shapes:
            r = check_text(drv, ev, s.encode(), also_nul_terminated=True)
            ev.label("int-literal-shape")
    finally:
        drv.kill()
    return ev


def work_runtime(task):
    """Run-time failure at pull index k: the k-th result raises (stack underflow)."""
    ev = Evidence()
    drv = Driver()
    try:
        for n in range(1, 9):
            for k in range(1, n + 1):
                items = ", ".join(str(i) for i in range(1, n + 1))
                # (a comparison word needs two values like any other binary word: on a stack of one it fails, it does not answer)
                for bad in ("drop drop", "swap", "rot", "over", "drop dup", "?gt", "!eq", "?lt", "?le", "?ne", "?ge", "?eq", "!lt", "!gt"):
                    body = "(%s) if ( == %d) then (%s) else ()" % (items, k, bad)
                    # ... at top level, and where the failing expression is pulled lazily from inside another construct:
                    # a format splice, the body of a let, a branch of an alternation (results come out one by one, the
                    # failure when its turn comes)
                    for q, before in ((body, k - 1), ('"<%%( %s %%)>"' % body, k - 1), ("let A := %s; A" % body, k - 1), ("(0, %s)" % body, k)):
                        if (bad != "drop drop" or n > 4) and q is not body:
                            continue
                        r = drv.run(q, flags=8, limit=100, steps=100000)
                        ev.case(key=q, nontrivial=True)
                        ev.label("runtime-failure-at-pull")
                        ok = "error" in r and r["error"] and "CONTRACT" not in r["error"] and len(r.get("res", [])) == before \
                            and not r.get("end")
                        if not ok:
                            ev.violations.append({"property": PID, "query": q,
                                                  "reason": "expected %d results then an error through zw_result_next, got %r"
                                                            % (before, {kk: (v if kk != "res" else len(v)) for kk, v in r.items() if kk != "marks"}),
                                                  "signature": "C14:rt:" + q})
        ev.sample({"runtime_failure_query": "(1, 2, 3) if ( == 2) then (drop drop) else ()", "expect": "1 result, then error"})
    finally:
        drv.kill()
    return ev


def work_damaged(task):
    """Run-time failures that come from the input file: generated forests in which one DIE's abbreviation code is
    overwritten with a code its table does not define.  Every way of walking to that DIE -- `entry`, `child` of its
    parent, `child*` from the root -- yields what comes before it and then fails through zw_result_next; the
    command line tool prints a message and exits with status 2.  (Ending the enumeration quietly is not an option:
    the DIEs behind the damaged one are lost without a word.)"""
    seed, start, count = task
    from .. import dwforest as DF
    from ..dwgen import build_file
    from ..dwcheck import TempElf
    ev = Evidence()
    drv = Driver(timeout=120)
    try:
        for i in range(start, start + count):
            rnd = random.Random((seed << 32) ^ (i * 2654435761 & 0xffffffff) ^ 0xDA14)
            g = DF.ForestGen(rnd, DF.FCfg(max_units=3, max_dies=30, partial=0.0, bulk=0.0, line_tables=False, refs=False, type_units=0.0, versions=(3, 4, 5)))
            f = g.forest()
            cands = [(par, k) for par in f.all_dies() for k in range(1, len(par.children))]
            if not cands:
                continue
            par, k = rnd.choice(cands)
            victim = par.children[k]
            data = bytearray(build_file(f))
            info, _ = f.layout()
            at = bytes(data).find(bytes(info))
            if at < 0 or victim.abbrev_code >= 0x7f or len(victim.unit.abbrevs.entries) >= 0x7e:
                continue
            data[at + victim.offset] = 0x7f
            before = [c.offset for c in par.children[:k]]
            with TempElf(bytes(data)) as path:
                try:
                    tok = "V%d" % drv.open(path, True)
                    for q, want in (("entry (offset == %d) child offset" % par.offset, before), ("entry (offset == %d) child* (pos < 200) offset" % par.offset, None),
                                    ("entry offset", None)):
                        r = drv.run(q, tok, limit=1000, steps=5000000)
                        ev.case(key=("damaged", i, q), nontrivial=True)
                        ev.label("damaged-file")
                        got = [int(s_[-1]["v"]) for s_ in r.get("res", [])]
                        if "error" not in r or not r["error"] or (want is not None and got != want) or victim.offset in got:
                            ev.violations.append({"property": PID, "query": q, "elf_hex": bytes(data).hex(), "signature": "C14:damaged:%s" % q.split(" ")[-2],
                                                  "reason": "DIE %#x (child #%d of %#x) has an abbreviation code its table does not define; `%s` yields %r and %s"
                                                  % (victim.offset, k, par.offset, q, got[:12], ("fails with %r" % r["error"]) if r.get("error") else "ends as if nothing were wrong")})
                            break
                    # the failure does not wear off: `parent` has to scan the whole unit, runs into the damaged DIE and
                    # fails -- on the first execution over this Dwarf value and on every later one (a table left
                    # half-built by the failed scan must not answer the second time)
                    pq = "entry (offset == %d) child (pos == 0) parent offset" % par.offset
                    runs = []
                    for _ in range(3):
                        r = drv.run(pq, tok, limit=1000, steps=5000000)
                        runs.append(([int(s_[-1]["v"]) for s_ in r.get("res", [])], bool(r.get("error"))))
                    ev.case(key=("damaged-again", i), nontrivial=True)
                    ev.label("damaged-file:executed-again")
                    if not runs[0][1] or runs[1] != runs[0] or runs[2] != runs[0]:
                        ev.violations.append({"property": PID, "query": pq, "elf_hex": bytes(data).hex(), "signature": "C14:damaged-again",
                                              "reason": "DIE %#x has an abbreviation code its table does not define; `%s` executed three times on one Dwarf value: "
                                              "(results, failed) = %r -- the failure has to surface every time" % (victim.offset, pq, runs)})
                    elif i % 5 == 1 and not runs[0][0]:
                        rc, out, err = run_cli([path, "--a", "(1, 2, 3)", "-e", "drop raw " + pq])
                        ev.case(key=("damaged-again-cli", i), nontrivial=True)
                        if rc != 2 or b"dwgrep:" not in err or out.strip():
                            ev.violations.append({"property": PID, "query": "drop raw " + pq, "elf_hex": bytes(data).hex(), "signature": "C14:damaged-again-cli",
                                                  "reason": "the command line tool, three inputs over one damaged file (--a '(1, 2, 3)'), a query that fails before its first result: "
                                                  "exit status %d, stdout %r, stderr %r" % (rc, out[:200], err[:300])})
                    if i % 5 == 0:
                        rc, out, err = run_cli([path, "-e", "raw entry (offset == %d) child offset" % par.offset])
                        ev.case(key=("damaged-cli", i), nontrivial=True)
                        if rc != 2 or b"dwgrep:" not in err:
                            ev.violations.append({"property": PID, "query": "raw entry (offset == %d) child offset" % par.offset, "elf_hex": bytes(data).hex(),
                                                  "signature": "C14:damaged-cli", "reason": "the command line tool on a file with a damaged DIE: exit status %d, stderr %r" % (rc, err[:200])})
                except DriverCrash as e:
                    ev.violations.append({"property": PID, "query": "damaged file", "elf_hex": bytes(data).hex(), "reason": "crash on a damaged file: " + e.report[-2500:],
                                          "signature": "C14:damaged-crash:%d" % i})
                except (DriverTimeout, RuntimeError):
                    ev.inconc("damaged file: watchdog or cannot open")
    finally:
        drv.kill()
    return ev


def run_cli(args, stdin=None):
    env = dict(os.environ)
    env["ASAN_OPTIONS"] = "detect_leaks=0:abort_on_error=0"
    env["UBSAN_OPTIONS"] = "print_stacktrace=1:halt_on_error=1"
    p = subprocess.run([CLI] + args, input=stdin, stdout=subprocess.PIPE, stderr=subprocess.PIPE, env=env, timeout=120)
    return p.returncode, p.stdout, p.stderr


def work_cli(task):
    seed, start, count = task
    ev = Evidence()
    os.makedirs(os.path.join(BUILD, "run"), exist_ok=True)
    shapes = ["(", ")", "1 2 )", "\"abc", "\"%( 1", "123foo", "08", "0x", "foo", "let A := 1; let A := 2;", "[", "?(", "1 || (",
              "if 1 then 2", "\"%( ) %)\"", "drop", "1 drop drop", "(1, 2) if ( == 2) then (drop drop) else ()", "1 \"a\" add",
              "{", "|", "1 |A| 2", "let := 1;", "\\", "`", "'", "1 ; 2", "(1, drop drop)", "(1, 2, 3 over over over over)", "1 ?(drop drop)",
              # a sub-expression that leaves fewer values than there are names to bind, on a stack that has values to spare
              "7 let A := drop; A", "1 2 let A B := drop; A", "7 (drop == 7)", "(1, 2, 7 let A := drop; A)", "7 8 let A := drop drop; A"]
    for i in range(start, start + count):
        rnd = random.Random((seed << 32) ^ i ^ 0xC14C)
        q = shapes[i % len(shapes)]
        how = i % 3
        try:
            if how == 0:
                rc, out, err = run_cli(["-e", q])
            elif how == 1:
                rc, out, err = run_cli([q])
            else:
                path = os.path.join(BUILD, "run", "c14-%d-%d.zw" % (os.getpid(), i))
                with open(path, "w") as f:
                    f.write(q)
                rc, out, err = run_cli(["-f", path])
                os.unlink(path)
        except subprocess.TimeoutExpired:
            ev.violations.append({"property": PID, "query": q, "reason": "CLI hung", "signature": "C14:clihang:" + q})
            continue
        ev.case(key=("cli", how, q), nontrivial=True)
        ev.label("cli")
        soft_only = q == "1 \"a\" add"
        if soft_only:
            ok = rc == 1 and b"Error" in err
        else:
            ok = rc == 2 and (b"dwgrep:" in err)
        if ok and not soft_only:
            # the failure decides the exit status also when the message is withheld (-s), results are counted (-c)
            # or some results came before it
            for extra in (["-s"], ["-c"], ["-s", "-c"], ["-s", "-H"]):
                rc2, out2, err2 = run_cli(extra + ["-e", q])
                ev.case(key=("cli", tuple(extra), q), nontrivial=True)
                ev.label("cli:" + "".join(extra))
                if rc2 != 2:       # (whether -s also withholds the message of a query that does not compile is C19's business)
                    ok = False
                    err, rc = err2, rc2
                    how = 0
                    q = " ".join(extra) + " -e " + q
                    break
        if ok and i % 3 == 0:
            # several inputs: a failure on one of them decides the exit status wherever it comes in the row -- before
            # inputs that match, between them, after them
            fq = "(|A| if (A 0 ?eq) then (drop drop) else A)"
            for vals in ("(0, 1)", "(1, 0)", "(1, 0, 2)", "(0, 1, 2)", "(0, 0)", "(2, 1, 0)"):
                for extra in ([], ["-c"], ["-s"]):
                    rc2, out2, err2 = run_cli(extra + ["--a", vals, "-e", fq])
                    ev.case(key=("cli-multi", vals, tuple(extra)), nontrivial=True)
                    ev.label("cli:several-inputs-one-fails")
                    if rc2 != 2:
                        ok = False
                        err, rc, how = err2, rc2, 0
                        q = " ".join(extra) + " --a '" + vals + "' -e " + fq
                        break
                if not ok:
                    break
        if not ok:
            ev.violations.append({"property": PID, "query": q, "cli_mode": ["-e", "positional", "-f"][how],
                                  "reason": "CLI: exit status %d, stderr %r" % (rc, err[:300]),
                                  "signature": "C14:cli:%d:%s" % (how, q)})
    return ev


# ---------------------------------------------------------------- size: deep and long inputs

def nest(opening, core, closing, n):
    return opening * n + core + closing * n


def splice_nest(n):
    s = "1"
    for _ in range(n):
        s = '"%( ' + s + ' %)"'
    return s


def scale_inputs(tier):
    """(name, text): shapes whose depth or length grows without bound while staying a few kB..MB of text."""
    out = []
    deep = [3, 30, 99, 100, 101, 400, 1500, 3000, 8000] + ([20000, 60000] if tier == "thorough" else [])
    for n in deep:
        out.append(("nested-splices:%d" % n, splice_nest(n)))
    for n in (50, 1000, 3000, 6000, 30000):
        out.append(("nested-parens:%d" % n, nest("(", "1", ")", n)))
        out.append(("nested-captures:%d" % n, nest("[", "1", "]", n)))
        out.append(("nested-blocks:%d" % n, nest("{", "1", "}", n)))
        out.append(("nested-sub:%d" % n, "1 " + nest("?(", "", ")", n)))
        out.append(("nested-neg:%d" % n, "1 " + nest("!(", "", ")", n)))
        out.append(("unclosed-parens:%d" % n, "(" * n))
        out.append(("unopened-parens:%d" % n, "1" + ")" * n))
        out.append(("nested-if:%d" % n, "if 1 then " * min(n, 3000) + "1" + " else 2" * min(n, 3000)))
    for n in (100, 4000, 6000, 50000):
        out.append(("long-cat:%d" % n, "1 drop " * n + "1"))
        out.append(("long-alt:%d" % n, ", ".join(["1"] * n)))
        out.append(("long-or:%d" % n, " || ".join(["1"] * n)))
        out.append(("long-let:%d" % n, "".join("let A%d := 1; " % i for i in range(n)) + "1"))
        out.append(("postfix-opt:%d" % n, "1" + "?" * n + " drop 1 ?0"))
        out.append(("postfix-star:%d" % n, "1 (drop 1)" + "*" * n))
        out.append(("continuation:%d" % n, '"a"' + '\\ "b"' * n + " length"))
        out.append(("percent-escapes:%d" % n, '"' + "%%" * n + '" length'))
    for n in (10, 500, 3000):
        out.append(("format-directives:%d" % n, '"' + "%( 7 %)" * n + '" length'))
        out.append(("format-%%s:%d" % n, "1 " + '"' + "%s" * n + '"'))
    for n in (1000, 1000000):
        out.append(("long-string:%d" % n, '"' + "a" * n + '" length'))
        out.append(("long-escapes:%d" % n, '"' + "\\x41" * (n // 4) + '" length'))
        out.append(("long-integer:%d" % n, "1" * n))
        out.append(("long-word:%d" % n, "A" * n))
        out.append(("long-comment:%d" % n, "1 #" + "x" * n))
        out.append(("long-c-comment:%d" % n, "1 /*" + "x" * n + "*/"))
        out.append(("unterminated-string:%d" % n, '"' + "a" * n))
        out.append(("unterminated-comment:%d" % n, "1 /*" + "x" * n))
    return out


# Known finding (not repaired): the pull engine recurses through the chain of operators, and the one
# chain whose length the parser does not bound is that of the directives of a format string.
KNOWN_FMT = ("format-string-with-20000-directives", '"' + "%( 7 %)" * 20000 + '" length')


RECURSIVE = ("nested-", "unclosed-", "unopened-", "long-cat", "long-alt", "long-or", "long-let", "postfix-", "format-")
PLAIN_CLI = os.path.join(BUILD, "bin", "dwgrep-plain")


def run_plain(text):
    """The production-like build of the command line tool (no sanitizers: their larger stack frames
    would overflow several times earlier than the real thing).  Returns (status, stderr tail)."""
    qf = os.path.join(BUILD, "run", "c14-scale-%d.zw" % os.getpid())
    os.makedirs(os.path.dirname(qf), exist_ok=True)
    with open(qf, "wb") as f:
        f.write(text)
    try:
        p = subprocess.run([PLAIN_CLI, "-c", "-f", qf], stdout=subprocess.PIPE, stderr=subprocess.PIPE, timeout=120)
        err = p.stderr.decode("latin-1")
        return p.returncode, err[:200] + (" ... " + err[-200:] if len(err) > 400 else err[200:])
    finally:
        os.unlink(qf)


def work_scale(task):
    tier, lo, hi = task
    ev = Evidence()
    drv = Driver(timeout=120)
    try:
        for name, text in scale_inputs(tier)[lo:hi]:
            t = text.encode()
            shape, size = name.split(":")[0], int(name.split(":")[1])
            # (1) production-like build: every size
            try:
                rc, err = run_plain(t)
            except subprocess.TimeoutExpired:
                ev.inconc("timeout on " + shape)
                continue
            ev.case(key=("scale", name), nontrivial=True)
            ev.label("scale:" + ("accepted" if rc in (0, 1) else "reject" if rc == 2 else "crash"))
            if rc not in (0, 1, 2):
                ev.violations.append({"property": PID, "shape": name, "input_len": len(t), "query": text[:200] + (" ..." if len(text) > 200 else ""),
                                      "generator": name, "reason": "dwgrep (built without sanitizers) died with status %d on %s (%d bytes) %s" % (rc, name, len(t), err[-200:]),
                                      "signature": "C14:scale:" + shape})
                continue
            if rc == 2 and "dwgrep:" not in err:
                ev.violations.append({"property": PID, "shape": name, "generator": name, "reason": "exit status 2 without a dwgrep: message on stderr for " + name,
                                      "signature": "C14:scale-msg:" + shape})
            # (2) instrumented driver through the API: memory errors.  Shapes that make the parser or
            # builder recurse are limited to moderate depth there.
            if shape.startswith(RECURSIVE) and size > 400:
                continue
            try:
                r = drv.run(t, flags=8, limit=3, steps=3000000)
            except DriverCrash as e:
                ev.violations.append({"property": PID, "shape": name, "input_len": len(t), "query": text[:200] + (" ..." if len(text) > 200 else ""),
                                      "generator": name, "reason": "crash on %s (%d bytes): %s" % (name, len(t), e.report[-1500:]),
                                      "signature": "C14:scale-api:" + shape})
                continue
            except DriverTimeout:
                ev.inconc("watchdog on " + shape)
                continue
            ev.label("scale-api")
            if "cerror" in r and not r["cerror"]:
                ev.violations.append({"property": PID, "shape": name, "reason": "empty error message for " + name, "signature": "C14:scale-msg:" + name})
            if ("cerror" in r) != (rc == 2) and "error" not in r:
                ev.violations.append({"property": PID, "shape": name, "generator": name,
                                      "reason": "the API %s %s but the command line tool exits with %d" % ("rejects" if "cerror" in r else "accepts", name, rc),
                                      "signature": "C14:scale-diff:" + shape})
            if len(ev.samples) < 3 and "cerror" in r:
                ev.sample({"shape": name, "bytes": len(t), "rejected_with": r["cerror"][:80]})
    finally:
        drv.kill()
    return ev


def known_findings(ev):
    from ..harness import load_known
    for k in load_known():
        if k.get("property") == PID and k.get("status") == "known" and k.get("signature") == KNOWN_FMT[0]:
            try:
                rc, err = run_plain(KNOWN_FMT[1].encode())
            except subprocess.TimeoutExpired:
                continue
            if rc not in (0, 1, 2):
                ev.known_hits[k["signature"]] = k["what"]


def main(tier, seed):
    t0 = time.time()
    ev = Evidence()
    nscale = len(scale_inputs(tier))
    ev.merge(run_pool(work_scale, [(tier, lo, lo + 6) for lo in range(0, nscale, 6)]))
    ev.extra["scale_shapes"] = nscale
    known_findings(ev)
    total = 1 + 256 + 65536
    step = total // 48 + 1
    ev.merge(run_pool(work_short, [(lo, min(lo + step, total)) for lo in range(0, total, step)]))
    ev.extra["exhaustive_short_strings"] = total
    ns = len(int_shapes())
    step = ns // 16 + 1
    ev.merge(run_pool(work_ints, [(lo, min(lo + step, ns)) for lo in range(0, ns, step)]))
    ev.extra["int_literal_shapes"] = ns
    nprog = 300 if tier == "quick" else 6000
    per = max(5, nprog // 48)
    ev.merge(run_pool(work_mut, [(seed, s, min(per, nprog - s)) for s in range(0, nprog, per)]))
    ev.merge(work_runtime(None))
    nd_ = 160 if tier == "quick" else 4000
    ev.merge(run_pool(work_damaged, [(seed, s_, 10) for s_ in range(0, nd_, 10)]))
    nh = 48 if tier == "quick" else 1500
    ev.merge(run_pool(work_history, [(seed, s_, 2) for s_ in range(0, nh, 2)]))
    ev.extra["parse_histories"] = nh
    ncli = 105 if tier == "quick" else 105 * 4
    ev.merge(run_pool(work_cli, [(seed, s, min(9, ncli - s)) for s in range(0, ncli, 9)]))
    # libFuzzer: the contract checks are inside the target.
    fuzz_s, fuzz_w = (25, 12) if tier == "quick" else (600, 16)
    wd = os.path.join(BUILD, "fuzz-c14")
    prepare(wd, True)
    res = run_campaign(wd, fuzz_s, fuzz_w, seed + 7, "/repo/tests/a1.out", max_len=96)
    ev.extra["fuzz"] = res["stats"]
    ev.extra["fuzz_execs"] = ev.extra.get("fuzz_execs", 0) + res["stats"].get("execs", 0)     # (time-boxed: reported apart from the deterministic count)
    for art in res["crashes"][:6]:
        fails, rep = reproduce(art, "/repo/tests/a1.out")
        if fails == 0:
            ev.inconc("fuzz artifact did not reproduce")
            continue
        data = open(art, "rb").read()
        if "stack-overflow" in rep and b"{" in data:
            # known finding unbounded-closure-recursion (listed under C13)
            ev.excluded_known["unbounded-closure-recursion"] = ev.excluded_known.get("unbounded-closure-recursion", 0) + 1
            continue
        keep = os.path.join(BUILD, "..", "replays", PID)
        os.makedirs(keep, exist_ok=True)
        dst = os.path.join(keep, os.path.basename(art))
        open(dst, "wb").write(data)
        ev.violations.append({"property": PID, "artifact": dst, "input_hex": data.hex(), "query": data[:-2].decode("latin-1"),
                              "reason": "libFuzzer: " + rep[-3000:], "signature": "C14:fuzz:" + rep[-200:]})
    return finish(PID, tier, seed, ev, RULE, t0, exhaustive=True,
                  assumptions=["exhaustive=true refers to all strings of length <= 2 and the integer-literal shape table",
                               "hangs are detected by a 30 s watchdog on compilation and a step budget on execution"],
                  health={"rejections by several rules seen": sum(1 for k in ev.labels if k.startswith("reject:")) >= 5,
                          "accepted inputs seen": ev.labels.get("accepted", 0) > 100,
                          "runtime failures seen": ev.labels.get("runtime-failure-at-pull", 0) > 0,
                          "fuzzer ran": res["stats"].get("execs", 0) > 0, "damaged files": ev.labels.get("damaged-file", 0) > 200, "parse histories": ev.labels.get("history-parse", 0) > 1000,
                          "deep/long shapes both accepted and rejected": ev.labels.get("scale:accepted", 0) > 20 and ev.labels.get("scale:reject", 0) > 20})


def replay(path):
    import json
    rec = json.load(open(path))
    if rec.get("artifact") and os.path.exists(rec["artifact"]):
        fails, rep = reproduce(rec["artifact"], "/repo/tests/a1.out")
        print(rep)
        return 1 if fails else 0
    if rec.get("generator"):
        text = dict(scale_inputs("thorough"))[rec["generator"]]
        rc, err = run_plain(text.encode())
        print("plain build: exit status", rc, err[-200:])
        if rc not in (0, 1, 2):
            return 1
        drv = Driver(timeout=120)
        try:
            r = drv.run(text.encode(), flags=8, limit=3, steps=3000000)
            print({k: v for k, v in r.items() if k != "stderr"})
            return 0
        except DriverCrash as e:
            print("crash: " + e.report[-1500:])
            return 1
        finally:
            drv.kill()
    if "elf_hex" in rec:
        from ..dwcheck import TempElf
        drv = Driver(timeout=120)
        try:
            with TempElf(bytes.fromhex(rec["elf_hex"])) as path:
                tok = "V%d" % drv.open(path, True)
                runs = []
                for _ in range(3):
                    r = drv.run(rec["query"].replace("drop raw ", ""), tok, limit=1000, steps=5000000)
                    runs.append(([s_[-1]["v"] for s_ in r.get("res", [])], r.get("error")))
                    print(runs[-1])
                if "cli" in rec.get("signature", ""):
                    rc, out, err = run_cli([path] + (["--a", "(1, 2, 3)"] if rec["query"].startswith("drop ") else []) + ["-e", rec["query"]])
                    print("command line tool: exit status", rc, out[:200], err[:300])
                    return 1 if rc != 2 or b"dwgrep:" not in err else 0
                return 1 if not all(r[1] for r in runs) or any(r != runs[0] for r in runs) else 0
        except DriverCrash as e:
            print("crash: " + e.report[-1500:])
            return 1
        finally:
            drv.kill()
    drv = Driver()
    ev = Evidence()
    if "input_hex" in rec:
        check_text(drv, ev, bytes.fromhex(rec["input_hex"]))
    else:
        print(drv.run(rec["query"], flags=8))
    drv.kill()
    for v in ev.violations:
        print(v["reason"])
    return 1 if ev.violations else 0
