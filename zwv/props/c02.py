"""C02 -- the raw view reports exactly the DIE tree stored in .debug_info.

Generated forests (zwv.dwforest: 1-8 units, DWARF 2-5 mixed, shared abbreviation tables, empty
units, childless DIEs whose abbreviation claims children, DW_AT_sibling, all common forms incl.
indirect) are written as real ELF files; ground truth is known by construction.  Observed twice:
through the words (offset label form parent unit ?haschildren child attribute) and through the
driver's direct dump of the yielded values.  Sample binaries and freshly compiled objects
(gcc/clang, -gdwarf-2..5) are cross-checked against llvm-dwarfdump.
"""
import glob, os, random, subprocess, time

from .. import dwforest as DF
from ..dwgen import build_file, TAG, AT, FORM, TAG_NAME
from ..dwcheck import TempElf, dwarfdump_dies, SCRATCH
from ..drv import Driver, DriverCrash, DriverTimeout
from ..harness import Evidence, run_pool, finish
from ..hdr import dwarf_constants

PID = "C02"
RULE = ("generated forests: 1-8 units (versions 2-5), depth <= 5, arity <= 5, <= 60 DIEs, empty units, childless DIEs with the "
        "children flag, correct DW_AT_sibling, forms string/strp/line_strp/data1-8/udata/sdata/implicit_const/flag/"
        "flag_present/addr/ref1-8/ref_udata/ref_addr/indirect; every unit and DIE is checked for offset, tag, children flag, "
        "parent, unit, position, child list and the ordered (name, form) list of its attributes, exactly once each in section "
        "pre-order; sample binaries and compiled objects against llvm-dwarfdump -v.  Non-trivial: the file has >= 2 units "
        "or depth >= 3 and contains an edge shape (empty unit, childless-with-flag DIE, sibling attribute, indirect form, "
        "shared abbreviation table).  Distinct by file content.")

Q = ("entry (|D| [D offset] [D label] [D ?haschildren] [D parent offset] [D unit offset] [D attribute label] "
     "[D attribute form] [D child offset] [D pos] [D !haschildren] [D attribute pos])")
# the raw view is still the raw view after a step of navigation: what `parent`, `child` and `unit root` yield
# lists its attributes and children as stored (nothing integrated, no import inlined)
Q2 = ("entry (|D| [D offset] [D parent attribute label] [D parent child offset] [D child (pos == 0) attribute label] "
      "[D child (pos == 0) parent offset] [D unit root child offset] [D parent] [D child (pos == 0)] "
      "[D root, D unit root])")
# (the DIE that `value` yields for a reference attribute of a raw DIE is a cooked one today; no listed property
# says which it should be, so that is noted in DESIGN.md and not judged)


def depth_of(d):
    n = 0
    while d.parent is not None:
        d = d.parent
        n += 1
    return n


def ints(seq):
    return [int(e["v"]) for e in seq["e"]]


def check_forest(drv, ev, f, data, labels, via_word):
    with TempElf(data) as path:
        h = drv.open(path, not via_word)
        tok = "V%d" % h
        pre = "raw " if via_word else ""
        try:
            bad = None
            ru = drv.run(pre + "unit", tok, limit=200)
            exp_units = DF.raw_units(f)
            got_units = [(s[-1]["off"], s[-1]["p"], s[-1]["ver"], s[-1]["raw"]) for s in ru.get("res", [])]
            if "error" in ru or got_units != [(u.offset, i, u.version, 1) for i, u in enumerate(exp_units)]:
                bad = "raw unit: got %r, expected %r (%s)" % (got_units, [(u.offset, i, u.version) for i, u in enumerate(exp_units)], ru.get("error"))
            exp = DF.raw_entries(f)
            # The answers must not depend on the order in which they are asked for: on every other file the
            # first questions put to the fresh handle are the parents of the DIEs of the *last* unit, then of
            # the one before it, ... (the forward sweep below comes second there).
            if not bad and len(data) % 2 == 0 and len(exp_units) >= 2:
                rr = drv.run(pre + "[unit] relem entry (|D| [D offset] [D parent offset] [D unit offset])", tok, limit=20000, steps=50000000)
                by_off = {d.offset: d for d in exp}
                ev.label("reverse-unit-order-first")
                if "error" in rr or len(rr.get("res", [])) != len(exp):
                    bad = "units in reverse order: %d DIEs, the file has %d (%s)" % (len(rr.get("res", [])), len(exp), rr.get("error"))
                else:
                    for row in rr["res"]:
                        o, par, un = ints(row[-3])[0], ints(row[-2]), ints(row[-1])     # (the Dwarf value stays at the bottom)
                        d = by_off.get(o)
                        if d is None or par != ([d.parent.offset] if d.parent else []) or un != [d.unit.offset]:
                            bad = "asked in reverse unit order: DIE %#x has parent %r unit %r, stored parent %r unit %#x" % (
                                o, par, un, [d.parent.offset] if d is not None and d.parent else [], d.unit.offset if d is not None else -1)
                            break
            re_ = drv.run(pre + Q, tok, limit=20000, steps=50000000)
            direct = drv.run(pre + "entry", tok, limit=20000)
            if not bad and ("error" in re_ or "error" in direct or not re_.get("end")):
                bad = "raw entry failed: %r %r" % (re_.get("error"), direct.get("error"))
            if not bad and len(re_["res"]) != len(exp):
                bad = "raw entry yields %d DIEs, the file has %d" % (len(re_["res"]), len(exp))
            if not bad:
                for i, (row, d) in enumerate(zip(re_["res"], exp)):
                    off, label, hc, par, unit, alab, aform, kids, pos, nhc, apos = row
                    dd = direct["res"][i][-1]
                    want = {
                        "offset": [d.offset], "label": [d.tag], "haschildren": [1] if d.has_children else [],
                        "parent": [d.parent.offset] if d.parent else [], "unit": [d.unit.offset],
                        "attr names": [a.name for a in d.attrs], "attr forms": [a.form for a in d.attrs],
                        "children": [c.offset for c in d.children], "attr pos": list(range(len(d.attrs))),
                    }
                    got = {
                        "offset": ints(off), "label": ints(label), "haschildren": [1] * len(hc["e"]),
                        "parent": ints(par), "unit": ints(unit), "attr names": ints(alab), "attr forms": ints(aform),
                        "children": ints(kids), "attr pos": ints(apos),
                    }
                    if got != want:
                        k = [k for k in want if got[k] != want[k]][0]
                        bad = "DIE #%d at %#x (%s): %s = %r, stored %r" % (i, d.offset, TAG_NAME.get(d.tag), k, got[k], want[k])
                        break
                    if len(hc["e"]) + len(nhc["e"]) != 1:
                        bad = "DIE %#x: ?haschildren and !haschildren both or neither hold" % d.offset
                        break
                    if (dd["off"], dd["tag"], dd["raw"], dd["p"]) != (d.offset, d.tag, 1, i) or dd["imp"]:
                        bad = "direct dump of DIE #%d: %r, expected offset %#x tag %#x raw pos %d" % (i, dd, d.offset, d.tag, i)
                        break
                    if label["e"][0]["d"] != "DW_TAG_" and not label["e"][0]["d"].startswith("DW_TAG"):
                        bad = "label of a DIE is not a DW_TAG_ constant: domain %r" % label["e"][0]["d"]
                        break
            if not bad:
                r2 = drv.run(pre + Q2, tok, limit=20000, steps=50000000)
                if "error" in r2 or len(r2.get("res", [])) != len(exp):
                    bad = "navigation query failed: %r (%d results for %d DIEs)" % (r2.get("error"), len(r2.get("res", [])), len(exp))
                else:
                    ev.label("navigation-stays-raw")
                    for row, d in zip(r2["res"], exp):
                        off, pal, pch, cal, cpo, urc, pv, cv, others = row[-9:]
                        par, kid = d.parent, (d.children[0] if d.children else None)
                        want = {"parent attribute": [a.name for a in par.attrs] if par else [], "parent child": [c.offset for c in par.children] if par else [],
                                "child attribute": [a.name for a in kid.attrs] if kid else [], "child parent": [d.offset] if kid else [],
                                "unit root child": [c.offset for c in d.unit.root.children]}
                        got = {"parent attribute": ints(pal), "parent child": ints(pch), "child attribute": ints(cal), "child parent": ints(cpo),
                               "unit root child": ints(urc)}
                        if got != want:
                            k = [k for k in want if got[k] != want[k]][0]
                            bad = "raw DIE %#x: `%s` lists %r, stored %r" % (d.offset, k, got[k][:12], want[k][:12])
                            break
                        for what, seq in (("parent", pv), ("child", cv), ("root / unit root", others)):
                            if any(not e.get("raw") or e.get("imp") for e in seq["e"]):
                                bad = "raw DIE %#x: `%s` yields a DIE that is not raw: %r" % (d.offset, what, seq["e"][:1])
                                break
                        if bad:
                            break
            # per-unit entry: `raw unit entry` must list the same DIEs, positions restarting per unit
            if not bad:
                rue = drv.run(pre + "unit (|U| [U entry offset] [U entry pos] [U root offset])", tok, limit=200)
                for u, row in zip(exp_units, rue.get("res", [])):
                    offs = [d.offset for d in u.dies()]
                    if ints(row[0]) != offs or ints(row[1]) != list(range(len(offs))) or ints(row[2]) != [u.root.offset]:
                        bad = "unit %#x: `entry` lists %r (pos %r), stored %r" % (u.offset, ints(row[0])[:12], ints(row[1])[:12], offs[:12])
                        break
                if not bad and len(rue.get("res", [])) != len(exp_units):
                    bad = "unit entry: %d units" % len(rue.get("res", []))
        finally:
            drv.req("vclose %d" % h)
        maxdepth = max([depth_of(d) for d in exp] or [0])
        edge = any(labels.get(k) for k in ("empty-unit", "childless-with-children-flag", "sibling-attribute", "form-indirect", "shared-abbrev-unit"))
        nt = (len(f.units) >= 2 or maxdepth >= 3) and edge
        return bad, nt, maxdepth


def work_gen(task):
    seed, start, count = task
    ev = Evidence()
    drv = Driver(timeout=120)
    try:
        for i in range(start, start + count):
            rnd = random.Random((seed << 32) ^ (i * 2654435761 & 0xffffffff) ^ 0xC02)
            g = DF.ForestGen(rnd, DF.FCfg(max_units=rnd.choice([1, 3, 5, 8]), max_dies=rnd.choice([10, 30, 60]), odd_tags=0.04))
            f = g.forest()
            data = build_file(f)
            try:
                bad, nt, md = check_forest(drv, ev, f, data, g.labels, via_word=(i % 2 == 1))
            except DriverCrash as e:
                keep = os.path.join(SCRATCH, "c02-crash-%d-%d.o" % (seed, i))
                open(keep, "wb").write(data)
                ev.violations.append({"property": PID, "elf_hex": data.hex(), "reason": "driver crashed: " + e.report[-3000:],
                                      "signature": "C02:crash:%d:%d" % (seed, i)})
                continue
            except DriverTimeout:
                ev.inconc("watchdog")
                continue
            ev.case(key=data, nontrivial=nt)
            for l, n in g.labels.items():
                ev.label("gen:" + l, n)
            ev.label("units:%d" % min(len(f.units), 6))
            ev.label("depth:%d" % min(md, 6))
            if bad:
                ev.violations.append({"property": PID, "elf_hex": data.hex(), "reason": bad, "recipe": {"seed": seed, "index": i},
                                      "signature": "C02:gen:%d:%d" % (seed, i)})
            elif nt and rnd.random() < 0.02:
                ev.sample({"units": [(u.offset, u.version, "partial" if u.partial else "compile") for u in f.units],
                           "dies": len(f.all_dies()), "depth": md, "features": sorted(g.labels)})
            # generator self-test against an independent reader
            if i % 25 == 0:
                with TempElf(data) as path:
                    dd = dwarfdump_dies(path)
                consts = dwarf_constants()
                exp = [(d.offset, d.tag, [(a.name, a.form) for a in d.attrs]) for d in DF.raw_entries(f)]
                got = [(o, consts.get(t), [(consts.get(n), consts.get(fm)) for n, fm in ats]) for o, t, ats in dd]
                ev.label("generator-self-test")
                if exp != got:
                    ev.label("generator-self-test-FAILED")
    finally:
        drv.kill()
    return ev


def check_against_dwarfdump(drv, ev, path, what):
    consts = dwarf_constants()
    dd = dwarfdump_dies(path)
    # A .gnu_debugaltlink file is subsumed by the Dwarf handle: its units follow the main file's.
    alt = subprocess.run(["readelf", "--string-dump=.gnu_debugaltlink", path], stdout=subprocess.PIPE,
                         stderr=subprocess.PIPE).stdout.decode("latin-1")
    import re as _re
    m = _re.search(r"\[\s*0\]\s+(\S+)", alt)
    if m:
        altpath = os.path.join(os.path.dirname(path), os.path.basename(m.group(1)))
        if os.path.exists(altpath):
            dd = dd + dwarfdump_dies(altpath)
            ev.label("with-alt-file")
    if not dd:
        ev.inconc("no DWARF per llvm-dwarfdump: " + os.path.basename(path))
        return
    h = drv.open(path, True)
    try:
        r = drv.run(Q, "V%d" % h, limit=200000, steps=500000000)
    finally:
        drv.req("vclose %d" % h)
    if "error" in r or not r.get("end"):
        ev.inconc("query failed or capped on " + os.path.basename(path))
        return
    got = [(ints(row[0])[0], ints(row[1])[0], list(zip(ints(row[5]), ints(row[6])))) for row in r["res"]]
    exp = []
    unknown = False
    for o, t, ats in dd:
        if consts.get(t) is None or any(consts.get(n) is None or consts.get(fm) is None for n, fm in ats):
            unknown = True
        exp.append((o, consts.get(t), [(consts.get(n), consts.get(fm)) for n, fm in ats]))
    ev.case(key=(what, path, len(got)), nontrivial=len(got) > 20)
    ev.label(what)
    if unknown:
        ev.inconc("llvm-dwarfdump printed a constant name not in dwarf.h: " + os.path.basename(path))
        return
    if got != exp:
        k = next((i for i, (a, b) in enumerate(zip(got, exp)) if a != b), min(len(got), len(exp)))
        ev.violations.append({"property": PID, "file": path, "reason": "%s: DIE #%d differs from llvm-dwarfdump: dwgrep %r, dwarfdump %r (counts %d/%d)"
                              % (os.path.basename(path), k, got[k] if k < len(got) else None, exp[k] if k < len(exp) else None, len(got), len(exp)),
                              "signature": "C02:dd:" + os.path.basename(path)})
    else:
        ev.sample({"file": os.path.basename(path), "dies": len(got), "against": "llvm-dwarfdump -v"}, cap=3)


SRC = """
struct S { int a; char b[3]; struct S *next; };
typedef struct S S_t;
enum E { E0, E1 = 5, E2 = -1 };
static int g1; int g2 = 3; const char *str = "x";
inline int sq (int x) { return x * x; }
int f (S_t *p, enum E e) { int loc = sq (p->a); { volatile int inner = loc + g1; g2 += inner; } return loc + e; }
%s
"""


def work_files(task):
    kind, items = task
    ev = Evidence()
    drv = Driver(timeout=300)
    try:
        if kind == "samples":
            for path in items:
                try:
                    check_against_dwarfdump(drv, ev, path, "sample-binary")
                except (DriverCrash, DriverTimeout) as e:
                    ev.inconc("driver problem on sample " + os.path.basename(path))
                    drv.restart()
        else:
            os.makedirs(SCRATCH, exist_ok=True)
            for cc, ver, opt, lang in items:
                base = os.path.join(SCRATCH, "c02-%d-%s-%s-%s-%s" % (os.getpid(), cc, ver, opt.strip("-"), lang))
                src = base + (".cc" if lang == "c++" else ".c")
                extra = "namespace N { template <int K> struct T { int v[K]; }; T<3> t3; class C { public: virtual int m (); int x; }; }" if lang == "c++" else ""
                open(src, "w").write(SRC % extra)
                cmd = [cc if lang == "c" else ("g++" if cc == "gcc" else "clang++"), "-gdwarf-%s" % ver, opt, "-c", src, "-o", base + ".o"]
                p = subprocess.run(cmd, stdout=subprocess.PIPE, stderr=subprocess.PIPE)
                if p.returncode == 0:
                    try:
                        check_against_dwarfdump(drv, ev, base + ".o", "compiled-object")
                    except (DriverCrash, DriverTimeout):
                        ev.inconc("driver problem on compiled object")
                        drv.restart()
                else:
                    ev.inconc("compiler failed")
                for f in (src, base + ".o"):
                    try:
                        os.unlink(f)
                    except OSError:
                        pass
    finally:
        drv.kill()
    return ev


def work_archives(task):
    """A file of several modules: an ar archive of two to four generated objects.  The raw view lists every unit and
    every DIE of every member -- the members' own lists one after the other (in whatever order the members come),
    nothing dropped, nothing twice."""
    import itertools
    from .c18 import ar_archive
    seed, start, count = task
    ev = Evidence()
    drv = Driver(timeout=120)
    try:
        for i in range(start, start + count):
            rnd = random.Random((seed << 32) ^ (i * 2654435761 & 0xffffffff) ^ 0xA02)
            forests = [DF.ForestGen(rnd, DF.FCfg(max_units=rnd.choice([1, 2, 4]), max_dies=rnd.choice([5, 15, 30]))).forest() for _ in range(rnd.randint(2, 4))]
            datas = [build_file(f) for f in forests]
            arch = ar_archive([("m%d.o" % k, d) for k, d in enumerate(datas)])
            want_e = [[(d.offset, d.tag) for d in DF.raw_entries(f)] for f in forests]
            want_u = [len(f.units) for f in forests]
            try:
                with TempElf(arch) as path:
                    tok = "V%d" % drv.open(path, True)
                    e = drv.run("entry offset", tok, limit=5000, steps=20000000)
                    l = drv.run("entry label", tok, limit=5000, steps=20000000)
                    u = drv.run("unit root offset", tok, limit=5000, steps=20000000)
            except (DriverTimeout, RuntimeError):
                ev.inconc("archive: watchdog or cannot open")
                continue
            except DriverCrash as ex:
                ev.violations.append({"property": PID, "elf_hex": arch.hex(), "reason": "driver crashed on an archive: " + ex.report[-2500:], "signature": "C02:ar-crash:%d" % i})
                continue
            ev.case(key=arch, nontrivial=True)
            ev.label("archive")
            why = None
            if e.get("error") or u.get("error"):
                why = "`entry` / `unit` on an archive fails: %r" % (e.get("error") or u.get("error"))
            else:
                got = list(zip([int(x[-1]["v"]) for x in e["res"]], [int(x[-1]["v"]) for x in l.get("res", [])]))
                ok = any([x for k in perm for x in want_e[k]] == got for perm in itertools.permutations(range(len(forests))))
                if not ok:
                    why = "an archive of %d objects with %r DIEs: raw `entry` yields %d DIEs that are not the members' DIEs one member after the other" % (
                        len(forests), [len(w) for w in want_e], len(got))
                elif len(u["res"]) != sum(want_u):
                    why = "an archive of %d objects with %r units: raw `unit` yields %d" % (len(forests), want_u, len(u["res"]))
            if why:
                ev.violations.append({"property": PID, "elf_hex": arch.hex()[:60000], "recipe": {"seed": seed, "index": i, "kind": "archive"}, "reason": why, "signature": "C02:ar:" + why[:50]})
    finally:
        drv.kill()
    return ev


def main(tier, seed):
    t0 = time.time()
    n = 6000 if tier == "quick" else 120000
    ev = Evidence()
    per = max(20, n // 48)
    ev.merge(run_pool(work_gen, [(seed, s, min(per, n - s)) for s in range(0, n, per)]))
    na = 160 if tier == "quick" else 4000
    ev.merge(run_pool(work_archives, [(seed, s_, min(10, na - s_)) for s_ in range(0, na, 10)]))
    samples = sorted(p for p in glob.glob("/repo/tests/*") if os.path.isfile(p) and open(p, "rb").read(4) == b"\x7fELF")
    chunks = [samples[i::8] for i in range(8)]
    combos = [(cc, ver, opt, lang) for cc in ("gcc", "clang") for ver in ("2", "3", "4", "5") for opt in ("-O0", "-O1") for lang in ("c", "c++")]
    if tier == "quick":
        combos = combos[::2]
    tasks = [("samples", c) for c in chunks if c] + [("compiled", combos[i::6]) for i in range(6)]
    ev.merge(run_pool(work_files, tasks))
    ev.extra["generated_forests"] = n
    return finish(PID, tier, seed, ev, RULE, t0,
                  assumptions=["libdw's decoding of well-formed DWARF is trusted; malformed DWARF is out of scope",
                               ".debug_types units are out of scope (the code iterates .debug_info)",
                               "llvm-dwarfdump -v is the independent reader for files not generated here"],
                  health={"generator self-test ran and passed": ev.labels.get("generator-self-test", 0) > 0 and not ev.labels.get("generator-self-test-FAILED"),
                          "edge shapes generated": all(ev.labels.get("gen:" + k, 0) > 0 for k in ("empty-unit", "childless-with-children-flag", "sibling-attribute", "form-indirect", "shared-abbrev-unit")),
                          "archives of several objects": ev.labels.get("archive", 0) >= 100,
                          "sample binaries checked": ev.labels.get("sample-binary", 0) >= 10,
                          "compiled objects checked": ev.labels.get("compiled-object", 0) >= 6})


def replay(path):
    import json
    from ..dwgen import Forest
    rec = json.load(open(path))
    if "recipe" in rec:
        rnd = random.Random((rec["recipe"]["seed"] << 32) ^ (rec["recipe"]["index"] * 2654435761 & 0xffffffff) ^ 0xC02)
        g = DF.ForestGen(rnd, DF.FCfg(max_units=rnd.choice([1, 3, 5, 8]), max_dies=rnd.choice([10, 30, 60]), odd_tags=0.04))
        f = g.forest()
        data = build_file(f)
        drv = Driver()
        ev = Evidence()
        bad, nt, md = check_forest(drv, ev, f, data, g.labels, via_word=(rec["recipe"]["index"] % 2 == 1))
        print(bad)
        drv.kill()
        return 1 if bad else 0
    print(rec.get("reason"))
    return 0
