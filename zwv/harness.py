"""Shared check plumbing: evidence files, replay files, violation reporting, known findings,
worker pools."""
import hashlib, json, multiprocessing, os, sys, time, traceback

VERIF = os.path.dirname(os.path.dirname(os.path.abspath(__file__)))
# The two overrides exist for tools_seeded.py / seeded/own/run.py, which run the checks against a deliberately
# broken tree and must not overwrite the committed evidence.
EVIDENCE_DIR = os.environ.get("VERIF_EVIDENCE_DIR", os.path.join(VERIF, "evidence"))
REPLAY_DIR = os.environ.get("VERIF_REPLAY_DIR", os.path.join(VERIF, "replays"))
MAX_REPORTED = 25
KNOWN_FILE = os.path.join(VERIF, "known_findings.json")


def seed_from_env():
    try:
        return int(os.environ.get("VERIF_SEED", "0"))
    except ValueError:
        return 0


def nproc():
    try:
        return max(1, int(os.environ.get("VERIF_JOBS", "16")))
    except ValueError:
        return 16


class Evidence:
    """Accumulates what a run covered.  Mergeable across workers."""

    def __init__(self):
        self.evaluations = 0
        self.nontrivial = set()
        self.samples = []
        self.labels = {}
        self.inconclusive = {}
        self.excluded_known = {}
        self.extra = {}
        self.violations = []      # list of replay dicts
        self.known_hits = {}      # signature -> what

    def case(self, key=None, nontrivial=False, n=1):
        self.evaluations += n
        if nontrivial and key is not None:
            self.nontrivial.add(hashlib.sha1(repr(key).encode()).hexdigest()[:16])

    def label(self, l, n=1):
        self.labels[l] = self.labels.get(l, 0) + n

    def inconc(self, why, n=1):
        self.inconclusive[why] = self.inconclusive.get(why, 0) + n

    def sample(self, s, cap=12):
        if len(self.samples) < cap:
            self.samples.append(s)

    def merge(self, o):
        self.evaluations += o.evaluations
        self.nontrivial |= o.nontrivial
        for s in o.samples:
            if len(self.samples) < 24:
                self.samples.append(s)
        for k, v in o.labels.items():
            self.labels[k] = self.labels.get(k, 0) + v
        for k, v in o.inconclusive.items():
            self.inconclusive[k] = self.inconclusive.get(k, 0) + v
        for k, v in o.excluded_known.items():
            self.excluded_known[k] = self.excluded_known.get(k, 0) + v
        for k, v in o.extra.items():
            if isinstance(v, (int, float)) and isinstance(self.extra.get(k, 0), (int, float)):
                self.extra[k] = self.extra.get(k, 0) + v
            else:
                self.extra[k] = v
        self.violations.extend(o.violations)
        self.known_hits.update(o.known_hits)


def load_known():
    try:
        with open(KNOWN_FILE) as f:
            return json.load(f).get("findings", [])
    except (OSError, ValueError):
        return []


def write_replay(pid, replay):
    d = os.path.join(REPLAY_DIR, pid)
    os.makedirs(d, exist_ok=True)
    blob = json.dumps(replay, sort_keys=True, default=repr)
    name = hashlib.sha1(blob.encode()).hexdigest()[:16] + ".json"
    path = os.path.join(d, name)
    with open(path, "w") as f:
        f.write(blob)
    return path


def finish(pid, tier, seed, ev, rule, t0, level="exploration", exhaustive=None, assumptions=None,
           min_nontrivial=2, health=None):
    """Write the evidence file, print VIOLATION / KNOWN-FINDING lines, return exit status."""
    os.makedirs(EVIDENCE_DIR, exist_ok=True)
    rc = 0
    lines = []
    seen = set()
    for v in ev.violations:
        sig = v.get("signature") or json.dumps(v, sort_keys=True, default=repr)[:200]
        if sig in seen:
            continue
        seen.add(sig)
        rc = 1
        if len(lines) >= MAX_REPORTED:
            continue            # counted in the evidence; 25 replay files are enough to work from
        path = write_replay(pid, v)
        lines.append("VIOLATION property=%s replay=%s" % (pid, path))
        sys.stderr.write("  %s: %s\n" % (pid, v.get("reason", "")[:500]))
        rc = 1
    for sig, what in sorted(ev.known_hits.items()):
        print("KNOWN-FINDING: property=%s %s" % (pid, what))
    cov = {
        "evaluations": int(ev.evaluations),
        "distinct_nontrivial": len(ev.nontrivial),
        "rule": rule,
        "samples": ev.samples[:24],
        "labels": dict(sorted(ev.labels.items())),
        "inconclusive": dict(sorted(ev.inconclusive.items())),
        "excluded_known": dict(sorted(ev.excluded_known.items())),
    }
    cov.update(ev.extra)
    if exhaustive is not None:
        cov["exhaustive"] = bool(exhaustive)
    doc = {
        "property_id": pid, "tier": tier, "seed": int(seed), "level": level,
        "coverage": cov, "wall_s": round(time.time() - t0, 2),
        "violations": len(seen),
        "assumptions": assumptions or [],
    }
    # Health gate: a vacuous run is a harness error, not a pass.
    problems = []
    if ev.evaluations < 1:
        problems.append("no evaluations")
    if len(ev.nontrivial) < min_nontrivial:
        problems.append("only %d non-trivial cases" % len(ev.nontrivial))
    if not ev.samples:
        doc["coverage"]["samples"] = ["(no sample recorded)"]
        problems.append("no samples")
    for name, ok in (health or {}).items():
        if not ok:
            problems.append("health gate failed: " + name)
    with open(os.path.join(EVIDENCE_DIR, pid + ".json"), "w") as f:
        json.dump(doc, f, indent=1, default=repr)
    for l in lines:
        print(l)
    if problems and rc == 0:
        sys.stderr.write("%s: HARNESS ERROR (not a violation): %s\n" % (pid, "; ".join(problems)))
        rc = 2
    print("%s %s seed=%d: %d evaluations, %d distinct non-trivial, %d violation(s), %.1fs" % (
        pid, tier, seed, ev.evaluations, len(ev.nontrivial), len(seen), time.time() - t0))
    return rc


def _worker_entry(args):
    fn, task = args
    try:
        return ("ok", fn(task))
    except Exception:
        return ("exc", traceback.format_exc())


def run_pool(fn, tasks, procs=None):
    """Run fn(task) -> Evidence over tasks in a fork pool; merge results."""
    procs = procs or nproc()
    total = Evidence()
    if not tasks:
        return total
    if procs == 1 or len(tasks) == 1:
        for t in tasks:
            total.merge(fn(t))
        return total
    ctx = multiprocessing.get_context("fork")
    with ctx.Pool(min(procs, len(tasks))) as pool:
        for status, res in pool.imap_unordered(_worker_entry, [(fn, t) for t in tasks]):
            if status == "exc":
                raise RuntimeError("worker failed:\n" + res)
            total.merge(res)
    return total


def encode_stack(values):
    """Model values (const/str/seq) -> JSON-able form for replay files."""
    out = []
    for v in values:
        if v.t == "c":
            out.append(["c", v.value, v.dom])
        elif v.t == "s":
            out.append(["s", v.data.hex()])
        elif v.t == "q":
            out.append(["q", encode_stack(v.items)])
        else:
            raise ValueError("cannot encode " + repr(v))
    return out


def decode_stack(enc):
    from . import model as M
    out = []
    for e in enc:
        if e[0] == "c":
            out.append(M.VConst(int(e[1]), e[2]))
        elif e[0] == "s":
            out.append(M.VStr(bytes.fromhex(e[1])))
        else:
            out.append(M.VSeq(decode_stack(e[1])))
    return tuple(out)
