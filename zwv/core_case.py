"""One model-vs-engine case for core programs: shared by C01, C03, C10, C11, C15."""
from . import model as M, compare as CMP
from .render import render
from .drv import stack_spec


class Outcome:
    __slots__ = ("status", "reason", "text", "stream", "ctx", "reply", "engine")

    def __init__(self, status, reason="", **kw):
        self.status = status      # ok | inconclusive | violation
        self.reason = reason
        self.text = self.stream = self.ctx = self.reply = self.engine = None
        for k, v in kw.items():
            setattr(self, k, v)


def run_case(drv, node, stack=(), text=None, flags=0, limit=3000, steps=3000000, budget=200000, steps_fn=None):
    """Evaluate NODE in the model and TEXT (default: canonical rendering) in the engine."""
    if text is None:
        text = render(node)
    try:
        stream, ctx = M.run(node, stack, budget)
        merr = None
    except M.CompileError as e:
        stream, ctx, merr = None, None, e
    except (M.HardError, M.Inconclusive, RecursionError) as e:
        # The model has no opinion on the results -- the engine is run all the same: whatever the program,
        # it must not crash (a DriverCrash propagates to the caller, which reports it).
        try:
            drv.run(text, stack_spec(stack), flags=flags, limit=min(limit, 200), steps=min(steps, 300000))
        except Exception as ex:
            # Known finding `unbounded-closure-recursion`: a program that recurses without bound (a name
            # bound to a block is applied when read, so e.g. comparing a block with an infix operator can
            # apply it for ever) exhausts the C stack.  Only where the model could not bound the program.
            if ex.__class__.__name__ == "DriverCrash" and "stack-overflow" in ex.report:
                return Outcome("inconclusive", "engine exhausted the C stack on a program the model cannot bound (known finding)", text=text)
            raise
        why = "model hard error" if isinstance(e, M.HardError) else "model recursion" if isinstance(e, RecursionError) else str(e)
        return Outcome("inconclusive", why, text=text)

    if steps_fn is not None and stream is not None:
        steps = steps_fn(stream)
    r = drv.run(text, stack_spec(stack), flags=flags, limit=limit, steps=steps)
    if "contract" in r:
        return Outcome("violation", "API contract: " + r["contract"], text=text, reply=r)
    if merr is not None:
        if "cerror" not in r:
            return Outcome("violation", "model predicts compile error (%s) but the query compiled" % merr,
                           text=text, reply=r)
        msg = r["cerror"]
        # Which of several scope errors is reported first is not specified.
        errs = M.all_scope_errors(node)
        if not any(("`%s'" % name) in msg and kind in msg for kind, name in errs):
            return Outcome("violation", "compile error %r reports none of the scope errors %r" % (msg, errs[:5]),
                           text=text, reply=r)
        return Outcome("ok", "compile-error", text=text, reply=r)
    if "cerror" in r:
        return Outcome("violation", "engine rejects a well-formed program: " + r["cerror"], text=text, reply=r)
    if "error" in r:
        if "DWGREP_VERIF step limit" in r["error"]:
            return Outcome("violation", "step budget exceeded (%d) on a program the model finishes" % steps,
                           text=text, reply=r)
        return Outcome("violation", "engine run-time error on a well-formed program: " + r["error"],
                       text=text, reply=r)
    if not r.get("end"):
        if len(stream.items) < limit:
            return Outcome("violation", "engine yields more than %d results, model %d" % (limit, len(stream.items)),
                           text=text, reply=r)
        return Outcome("inconclusive", "result cap", text=text)
    try:
        eng = [[CMP.from_dump(v) for v in s] for s in r["res"]]
    except ValueError as e:
        return Outcome("violation", "engine yielded a non-core value: %s" % e, text=text, reply=r)
    why = CMP.compare_results(stream.items, stream.ordered, eng)
    if why:
        return Outcome("violation", why, text=text, reply=r, stream=stream, engine=eng, ctx=ctx)
    # Diagnostics: certain soft errors must be reported, and none invented.
    err = r["stderr"]
    nerr = err.count(b"Error:")
    if ctx.soft_certain > 0 and nerr == 0:
        return Outcome("violation", "model predicts %d soft error(s), engine printed none" % ctx.soft_certain,
                       text=text, reply=r, ctx=ctx)
    if nerr > 0 and ctx.soft_certain + ctx.soft_maybe == 0:
        return Outcome("violation", "engine printed an error the model does not predict: %r" % err[:200],
                       text=text, reply=r, ctx=ctx)
    return Outcome("ok", "", text=text, stream=stream, ctx=ctx, reply=r, engine=eng)
