import argparse, importlib, os, subprocess, sys

VERIF = os.path.dirname(os.path.dirname(os.path.abspath(__file__)))

TARGETS = {
    "C08": ["hint", "drv"], "C16": ["hcov", "drv"], "C13": ["drv", "fuzz", "cli", "clip"], "C14": ["drv", "fuzz", "cli", "clip"],
    "C19": ["drv", "cli"], "C20": ["drv", "cli"], "C18": ["drv", "cli", "clip"], "C12": ["drv", "clip"],
}


def main():
    ap = argparse.ArgumentParser()
    ap.add_argument("pid")
    ap.add_argument("--tier", default=os.environ.get("VERIF_TIER", "quick"), choices=["quick", "thorough"])
    ap.add_argument("--replay")
    ap.add_argument("--no-build", action="store_true")
    a = ap.parse_args()
    pid = a.pid.upper()
    if not a.no_build:
        r = subprocess.run([sys.executable, os.path.join(VERIF, "build.py")] + TARGETS.get(pid, ["drv"]))
        if r.returncode != 0:
            sys.stderr.write("%s: build of /repo's working tree failed (harness error, not a violation)\n" % pid)
            sys.exit(3)
    mod = importlib.import_module("zwv.props." + pid.lower())
    if a.replay:
        sys.exit(mod.replay(a.replay))
    seed = 0
    try:
        seed = int(os.environ.get("VERIF_SEED", "0"))
    except ValueError:
        pass
    try:
        rc = mod.main(a.tier, seed)
    except Exception:
        # Nothing a check does may end in a bare Python exit status 1 (that would read as a violation
        # without a replay file).  A driver that aborted outside a guarded region (sanitizer report,
        # assert, DWGREP_VERIF hook) is an implementation failure on a generated input: report it as
        # such.  Anything else is a harness error.
        import traceback
        from .harness import write_replay
        tb = traceback.format_exc()
        crashed = "DriverCrash" in tb and any(k in tb for k in ("rc=-6", "rc=-11", "AddressSanitizer", "runtime error:", "DWGREP_VERIF", "Assertion"))
        sys.stderr.write(tb)
        if crashed:
            path = write_replay(pid, {"property": pid, "reason": "driver crashed outside a guarded region", "traceback": tb[-6000:]})
            print("VIOLATION property=%s replay=%s" % (pid, path))
            sys.exit(1)
        sys.stderr.write("%s: HARNESS ERROR (not a violation): unexpected exception\n" % pid)
        sys.exit(2)
    sys.exit(rc)


if __name__ == "__main__":
    main()
