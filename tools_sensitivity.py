#!/usr/bin/env python3
"""Regenerate the sensitivity tables of DESIGN.md (between the SENSITIVITY markers) from
seeded/*/result.json, seeded/*/meta.json, seeded/*/confirm.json and seeded/own/results.json."""
import glob, json, os, re, sys

V = os.path.dirname(os.path.abspath(__file__))
sys.path.insert(0, os.path.join(V, "seeded/own"))


def esc(s):
    return str(s).replace("|", "\\|").replace("\n", " ")


def short(s, n):
    s = " ".join(str(s).split())
    return s if len(s) <= n else s[:n - 1].rstrip() + "…"


def agent_rows(pattern="C*-agent*"):
    rows = []
    for d in sorted(glob.glob(os.path.join(V, "seeded", pattern))):
        name = os.path.basename(d)
        try:
            meta = json.load(open(os.path.join(d, "meta.json")))
        except Exception:
            continue
        conf = {}
        try:
            conf = json.load(open(os.path.join(d, "confirm.json")))
        except Exception:
            pass
        res = {}
        try:
            res = json.load(open(os.path.join(d, "result.json")))
        except Exception:
            pass
        checks = res.get("checks", {})
        hist = res.get("history", [])
        verdicts = []
        for k, c in sorted(checks.items()):
            first = next((h for h in hist if h["check"] == k), None)
            v = "caught" if c.get("caught") else ("missed" if c.get("exit") == 0 else "exit %s" % c.get("exit"))
            if first is not None and not first.get("caught") and c.get("caught"):
                v = "missed at first, caught after strengthening"
                if (first.get("exit") or 0) < 0 or first.get("exit") == 2:
                    v = "first run did not complete (harness defect on a broken tree, since fixed), then caught"
            verdicts.append("%s: %s (%s violations, %ss)" % (k.split(":")[0], v, c.get("violations"), int(c.get("wall_s", 0))))
        own = meta.get("property", "?")
        final = any(c.get("caught") for k, c in checks.items())
        pre = meta.get("strengthened_before_first_run")
        at_first = all(((next((h for h in hist if h["check"] == k), None) or c).get("caught")) for k, c in checks.items() if k.startswith(own)) and final and not pre
        rows.append((name, own, short(meta.get("summary", ""), 230), short(meta.get("needs", ""), 200),
                     "yes" if conf.get("confirmed") else ("n/a" if meta.get("kind") == "revert-of-fix" else "NO"),
                     ("; ".join(verdicts) or "not run") + (" — check strengthened before this first run (counted as missed at first)" if pre else ""),
                     final, at_first))
    return rows


def own_rows():
    from mutants import M, NOTES
    try:
        res = json.load(open(os.path.join(V, "seeded/own/results.json")))
    except Exception:
        res = {}
    rows = []
    names = [m[0] for m in M if m[3] is not None]
    for n in names + [k for k in res if k not in names]:
        r = res.get(n)
        if r is None:
            continue
        suite = r.get("suite")
        if isinstance(suite, dict):
            ok = suite.get("ctest_passed") == 7 and suite.get("tests_sh", "").startswith("305 tests total, 0 failures")
            st = "passes" if ok else "KILLED by the suite (%s; %s)" % (suite.get("ctest_passed"), suite.get("tests_sh"))
        elif "suite_tests_passed" in r:
            st = "passes (ctest %s/7)" % r["suite_tests_passed"]
        else:
            st = "not run"
        v = "caught" if r.get("caught") else "not caught"
        note = NOTES.get(n, r.get("note", ""))
        rows.append((n, r.get("property", ""), r.get("file", ""), st, "%s (%s violations, %ss)" % (v, r.get("violations"), int(r.get("wall_s", 0))), note))
    return rows


def main():
    out = []
    out.append("### 6.1 Changes produced by sub-agents\n")
    out.append("| Seed | Property | Change | Needs | Confirmed | Quick check |")
    out.append("|---|---|---|---|---|---|")
    ar = agent_rows()
    for r in ar:
        out.append("| " + " | ".join(esc(x) for x in r[:6]) + " |")
    out.append("")
    out.append("%d confirmed agent changes; %d were caught by the quick tier at the first attempt, %d are caught now (after the strengthening listed above).\n"
               % (len(ar), sum(1 for r in ar if r[7]), sum(1 for r in ar if r[6])))
    out.append("| Round | changes | caught at the first attempt | caught now |")
    out.append("|---|---|---|---|")
    for rn, suffix in ((1, "-agent"), (2, "-agent2"), (3, "-agent3"), (4, "-agent4"), (5, "-agent5"), (6, "-agent6"), (7, "-agent7"), (8, "-agent8"), (9, "-agent9"), (10, "-agent10"), (11, "-agent11"), (12, "-agent12")):
        rs = [r for r in ar if r[0].endswith(suffix)]
        if rs:
            out.append("| %d | %d | %d | %d |" % (rn, len(rs), sum(1 for r in rs if r[7]), sum(1 for r in rs if r[6])))
    out.append("")
    out.append("(Round 10 has 19 changes: the C03 agent found none that was not a variant of the nine before it and seeded nothing.  "
               "Each round was run against the checks as strengthened after the previous one; every round asked for a mechanism "
               "different from those already tried, so later rounds probe further corners, not the same ones again.)\n")
    out.append("### 6.2 Reverts of the fix commits\n")
    out.append("| Seed | Property | Change | Quick check |")
    out.append("|---|---|---|---|")
    rr = agent_rows("revert-*")
    for r in rr:
        out.append("| " + " | ".join(esc(x) for x in (r[0], r[1], r[2], r[5])) + " |")
    out.append("")
    out.append("%d reverts applied; %d are caught by the quick tier (%d at the first attempt).\n" % (len([r for r in rr if r[5] != "not run"]), sum(1 for r in rr if r[6]), sum(1 for r in rr if r[7])))
    out.append("### 6.3 Hand-written mutants (`seeded/own/mutants.py`)\n")
    out.append("| Mutant | Check | File | Pinned suite | Quick check | Note |")
    out.append("|---|---|---|---|---|---|")
    for r in own_rows():
        out.append("| " + " | ".join(esc(x) for x in r) + " |")
    text = "\n".join(out) + "\n"
    p = os.path.join(V, "DESIGN.md")
    s = open(p).read()
    if "<!-- SENSITIVITY:BEGIN -->" in s:
        s = re.sub(r"<!-- SENSITIVITY:BEGIN -->.*<!-- SENSITIVITY:END -->", lambda m: "<!-- SENSITIVITY:BEGIN -->\n" + text + "<!-- SENSITIVITY:END -->", s, flags=re.S)
    else:
        s = s.replace("SENSITIVITY-TABLES", "<!-- SENSITIVITY:BEGIN -->\n" + text + "<!-- SENSITIVITY:END -->")
    open(p, "w").write(s)
    print(text[:3000])


if __name__ == "__main__":
    main()
