#!/usr/bin/env python3
"""Apply a seeded change from /verif/seeded/<name>/patch.diff to /repo, run checks against it, undo it.

usage: tools_seeded.py <name> [--tier quick|thorough] [CHECK ...]     (default checks: the property named in meta.json)
Writes /verif/seeded/<name>/result.json.  /repo is always restored (git checkout -- .).
"""
import json, os, subprocess, sys, time

V = os.path.dirname(os.path.abspath(__file__))


def main():
    args = sys.argv[1:]
    tier = "quick"
    if "--tier" in args:
        i = args.index("--tier")
        tier = args[i + 1]
        del args[i:i + 2]
    name = args[0]
    d = os.path.join(V, "seeded", name)
    meta = json.load(open(os.path.join(d, "meta.json")))
    checks = args[1:] or [meta["property"]]
    st = subprocess.run(["git", "-C", "/repo", "status", "--porcelain", "--untracked-files=no"], stdout=subprocess.PIPE).stdout.decode()
    if st.strip():
        sys.exit("refusing: /repo has uncommitted changes:\n" + st)
    r = subprocess.run(["git", "-C", "/repo", "apply", os.path.join(d, "patch.diff")], stderr=subprocess.PIPE)
    if r.returncode != 0:
        sys.exit("patch does not apply: " + r.stderr.decode())
    out = {"tier": tier, "checks": {}}
    try:
        for c in checks:
            t0 = time.time()
            env = dict(os.environ)
            env["VERIF_REPLAY_DIR"] = os.path.join(d, "replays")
            p = subprocess.run([os.path.join(V, "check"), c, "--tier", tier], stdout=subprocess.PIPE, stderr=subprocess.STDOUT, env=env, cwd=V)
            txt = p.stdout.decode("latin-1")
            viol = [l for l in txt.splitlines() if l.startswith("VIOLATION")]
            reasons = [l.strip()[:300] for l in txt.splitlines() if l.startswith("  " + c + ":")][:5]
            out["checks"][c] = {"exit": p.returncode, "violations": len(viol), "wall_s": round(time.time() - t0, 1), "reasons": reasons,
                                "caught": p.returncode == 1 and bool(viol)}
            print("%s on %s: exit %d, %d VIOLATION line(s), %.0fs" % (c, name, p.returncode, len(viol), time.time() - t0))
            for x in reasons[:3]:
                print("     " + x[:200])
    finally:
        subprocess.run(["git", "-C", "/repo", "checkout", "--", "."])
        # evidence files were rewritten against the modified tree: restore the committed ones
        subprocess.run(["git", "-C", V, "checkout", "--", "evidence"], stderr=subprocess.DEVNULL)
        subprocess.run(["git", "-C", V, "clean", "-fdq", "replays"], stderr=subprocess.DEVNULL)
    json.dump(out, open(os.path.join(d, "result.json"), "w"), indent=1)


if __name__ == "__main__":
    main()
