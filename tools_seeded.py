#!/usr/bin/env python3
"""Apply a seeded change from /verif/seeded/<name>/patch.diff, run checks against it, undo it.

usage: tools_seeded.py <name> [--tier quick|thorough] [--scratch DIR] [CHECK ...]
       (default checks: the property named in meta.json)

Default: the change is applied to /repo (git -C /repo apply), the checks rebuild from /repo's working
tree as they always do, and /repo is restored (git checkout -- .) whatever happens.
--scratch DIR: apply it to a scratch git worktree of /repo instead (VERIF_REPO=DIR, separate build
directory /verif/build2) so that several changes can be tried while /repo is busy.
Evidence and replay files of these runs go to /verif/seeded/<name>/{evidence,replays}, never to
/verif/evidence.  Writes /verif/seeded/<name>/result.json.
"""
import json, os, shutil, subprocess, sys, time

V = os.path.dirname(os.path.abspath(__file__))


def main():
    args = sys.argv[1:]
    tier = "quick"
    repo = "/repo"
    if "--tier" in args:
        i = args.index("--tier")
        tier = args[i + 1]
        del args[i:i + 2]
    if "--scratch" in args:
        i = args.index("--scratch")
        repo = args[i + 1]
        del args[i:i + 2]
    name = args[0]
    d = os.path.join(V, "seeded", name)
    meta = json.load(open(os.path.join(d, "meta.json")))
    checks = args[1:] or [meta["property"]]
    st = subprocess.run(["git", "-C", repo, "status", "--porcelain", "--untracked-files=no"], stdout=subprocess.PIPE).stdout.decode()
    if st.strip():
        sys.exit("refusing: %s has uncommitted changes:\n%s" % (repo, st))
    r = subprocess.run(["git", "-C", repo, "apply", os.path.join(d, "patch.diff")], stderr=subprocess.PIPE)
    if r.returncode != 0:
        sys.exit("patch does not apply: " + r.stderr.decode())
    rf = os.path.join(d, "result.json")
    try:
        out = json.load(open(rf))
    except Exception:
        out = {}
    out.setdefault("checks", {})
    out["applied_to"] = repo
    for sub in ("evidence", "replays"):
        shutil.rmtree(os.path.join(d, sub), ignore_errors=True)
    try:
        for c in checks:
            t0 = time.time()
            env = dict(os.environ)
            env["VERIF_REPLAY_DIR"] = os.path.join(d, "replays")
            env["VERIF_EVIDENCE_DIR"] = os.path.join(d, "evidence")
            if repo != "/repo":
                env["VERIF_REPO"] = repo
                env["VERIF_BUILD"] = os.path.join(V, "build4" if repo.endswith("wt-s3") else "build2")
            p = subprocess.run([os.path.join(V, "check"), c, "--tier", tier], stdout=subprocess.PIPE, stderr=subprocess.STDOUT, env=env, cwd=V)
            txt = p.stdout.decode("latin-1")
            viol = [l for l in txt.splitlines() if l.startswith("VIOLATION")]
            reasons = [l.strip()[:300] for l in txt.splitlines() if l.startswith("  " + c + ":")][:5]
            prev = out["checks"].get(c + ":" + tier)
            if prev:
                out.setdefault("history", []).append({"check": c + ":" + tier, "when": prev.get("when"), "caught": prev.get("caught"),
                                                      "exit": prev.get("exit"), "violations": prev.get("violations")})
            out["checks"][c + ":" + tier] = {"exit": p.returncode, "violations": len(viol), "wall_s": round(time.time() - t0, 1),
                                             "reasons": reasons, "caught": p.returncode == 1 and bool(viol), "tail": txt[-500:],
                                             "when": time.strftime("%Y-%m-%d %H:%M"), "applied_to": repo}
            print("%s on %s: exit %d, %d VIOLATION line(s), %.0fs" % (c, name, p.returncode, len(viol), time.time() - t0))
            for x in reasons[:3]:
                print("     " + x[:200])
    finally:
        subprocess.run(["git", "-C", repo, "checkout", "--", "."])
        # keep one replay file per check as an example, drop the rest and the evidence of the broken tree
        rd = os.path.join(d, "replays")
        if os.path.isdir(rd):
            for sub in os.listdir(rd):
                fs = sorted(os.listdir(os.path.join(rd, sub)))
                for f in fs[1:]:
                    os.unlink(os.path.join(rd, sub, f))
        shutil.rmtree(os.path.join(d, "evidence"), ignore_errors=True)
    json.dump(out, open(rf, "w"), indent=1)


if __name__ == "__main__":
    main()
