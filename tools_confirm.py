#!/usr/bin/env python3
"""Confirm a sub-agent's seeded change in its own scratch worktree (never in /repo):

  tools_confirm.py C05            # worktree /tmp/wt-C05, output /verif/seeded/C05-agent/
  tools_confirm.py C05 --round 2  # worktree /tmp/wt2-C05, output /verif/seeded/C05-agent2/

With the change applied: the tree builds, the 7 gtest ctest binaries pass and
`bash tests/tests.sh` reports 0 failures, and seed_out/demo.sh exits non-zero.
With the change reverted (git apply -R): demo.sh exits 0.
Writes what was run and seen into seeded/<ID>-agent/confirm.json.
"""
import json
import os
import re
import shutil
import subprocess
import sys
import time


def sh(cmd, cwd, timeout=3600):
    p = subprocess.run(cmd, shell=True, cwd=cwd, stdout=subprocess.PIPE, stderr=subprocess.STDOUT, timeout=timeout)
    return p.returncode, p.stdout.decode("latin-1")


def build_and_test(wt):
    rc, out = sh("cmake --build _build -- -k 0 2>&1 | tail -3", wt)
    rc1, out1 = sh("ctest --test-dir _build -j8 --timeout 900 2>&1 | tail -15", wt)
    m = re.search(r"(\d+)% tests passed, (\d+) tests failed out of (\d+)", out1)
    failed = re.findall(r"^\s*\d+ - (\S+)", out1, re.M)
    rc2, out2 = sh("bash tests/tests.sh $PWD/_build/dwgrep/dwgrep 2>&1 | tail -2", wt)
    m2 = re.search(r"(\d+) tests total, (\d+) failures", out2)
    return {"ctest": m.group(0) if m else out1[-300:], "ctest_failed": failed,
            "tests_sh": m2.group(0) if m2 else out2[-300:],
            "suite_ok": bool(m and failed in ([], ["RegressionTests"]) and m2 and m2.group(2) == "0")}


def main():
    pid = sys.argv[1]
    rnd = sys.argv[3] if len(sys.argv) > 3 and sys.argv[2] == "--round" else ""
    wt = "/tmp/wt%s-%s" % (rnd, pid)
    dst = "/verif/seeded/%s-agent%s" % (pid, rnd)
    os.makedirs(dst, exist_ok=True)
    for f in os.listdir(wt + "/seed_out"):
        p = os.path.join(wt, "seed_out", f)
        if os.path.isfile(p) and os.path.getsize(p) < 2_000_000 and not os.access(p, os.X_OK) or f.endswith(".sh"):
            shutil.copy(p, dst)
    rec = {"worktree": wt, "when": time.strftime("%Y-%m-%d %H:%M:%S")}
    # is the patch applied?
    rc, out = sh("git apply --check -R seed_out/patch.diff", wt)
    if rc != 0:
        rc, out = sh("git apply seed_out/patch.diff", wt)
        if rc != 0:
            rec["error"] = "patch neither applied nor applicable: " + out[-400:]
            json.dump(rec, open(dst + "/confirm.json", "w"), indent=1)
            print(rec)
            return 2
    _, rec["diffstat"] = sh("git diff --stat -- . | tail -5", wt)
    rec["with_change"] = build_and_test(wt)
    rc, out = sh("bash seed_out/demo.sh", wt, timeout=1800)
    rec["with_change"]["demo_exit"] = rc
    rec["with_change"]["demo_tail"] = out[-1500:]
    sh("git apply -R seed_out/patch.diff", wt)
    rc, out = sh("cmake --build _build -- -k 0 2>&1 | tail -3", wt)
    rc, out = sh("bash seed_out/demo.sh", wt, timeout=1800)
    rec["without_change"] = {"demo_exit": rc, "demo_tail": out[-600:]}
    sh("git apply seed_out/patch.diff", wt)
    rec["confirmed"] = bool(rec["with_change"]["suite_ok"] and rec["with_change"]["demo_exit"] != 0
                            and rec["without_change"]["demo_exit"] == 0)
    json.dump(rec, open(dst + "/confirm.json", "w"), indent=1)
    print(pid, "confirmed" if rec["confirmed"] else "NOT CONFIRMED", rec["with_change"]["ctest"], rec["with_change"]["tests_sh"],
          "demo with:", rec["with_change"]["demo_exit"], "without:", rec["without_change"]["demo_exit"])
    return 0 if rec["confirmed"] else 1


if __name__ == "__main__":
    sys.exit(main())
