#!/usr/bin/env python3
"""Regenerates MANIFEST.json from the table below (keeps it valid while checks are being added)."""
import json, os
V = os.path.dirname(os.path.abspath(__file__))

CHECKS = {}
NA = {}

def chk(pid, technique, text, note, engine, design):
    CHECKS[pid] = dict(technique=technique, text=text, note=note, engine=engine, design=design)

exec(open(os.path.join(V, "manifest_table.py")).read())

props = [json.loads(l)["id"] for l in open(os.path.join(V, "properties.jsonl"))]
checks = []
na = []
for pid in props:
    if pid in CHECKS:
        c = CHECKS[pid]
        checks.append({
            "property_id": pid,
            "quick_cmd": "./check %s --tier quick" % pid,
            "thorough_cmd": "./check %s --tier thorough" % pid,
            "evidence_file": "/verif/evidence/%s.json" % pid,
            "replay_cmd_template": "./check %s --replay {path}" % pid,
            "engine": c["engine"],
            "level_claimed": {"category": "exploration", "text": c["text"], "design_ref": c["design"]},
            "level_note": c["note"],
            "technique": c["technique"],
        })
    else:
        na.append({"property_id": pid, "reason": NA.get(pid, "check not built yet in this round; see DESIGN.md section 3 for the planned oracle")})

m = {
    "version": 1,
    "setup_cmd": "python3 build.py all",
    "hooks": {
        "guard": "DWGREP_VERIF",
        "enable": "build.py compiles every TU of /repo's working tree with clang++ -fsanitize=address,undefined -DDWGREP_VERIF (asserts on) into /verif/build",
        "baseline_off_cmd": "cmake --build /repo/_build -- -k 0; ctest --test-dir /repo/_build -j8 --timeout 900",
        "source_commits": ["90efc79f34895fca4c40b64caf98e2e3a1c399ea", "08b1cb79761087356badd4396c3be54de7971ba7"],
        "add_only": True,
    },
    "engines": [
        {"name": "zwdrv+model", "path": "/verif/drv/zwdrv.cc", "serves_properties": [p for p in props if p in CHECKS and CHECKS[p]["engine"] == "zwdrv+model"],
         "kind_free_text": "persistent ASan/UBSan driver over the C API + Python reference interpreter and generators (seeded random, exhaustive enumeration, structural shrinking)"},
    ],
    "checks": checks,
    "not_applicable": na,
    "notes": "Every check rebuilds incrementally from /repo's working tree (python3 build.py) before running. Exit 2/3 = harness or build error, never a violation.",
}
json.dump(m, open(os.path.join(V, "MANIFEST.json"), "w"), indent=1)
print("MANIFEST.json: %d checks, %d not_applicable" % (len(checks), len(na)))
