#!/bin/sh
# like dev.sh, on the second development worktree /tmp/wt-dev2 (build dir /verif/build5)
if [ "$1" = "-p" ]; then git -C /tmp/wt-dev2 apply /verif/seeded/$2/patch.diff || exit 9; shift 2; P=1; fi
VERIF_EVIDENCE_DIR=/verif/build5/ev VERIF_REPLAY_DIR=/verif/build5/replays VERIF_REPO=/tmp/wt-dev2 VERIF_BUILD=/verif/build5 /verif/check "$@"
rc=$?
[ -n "$P" ] && git -C /tmp/wt-dev2 checkout -- .
exit $rc
